------------------------- MODULE DictTreeTableRows -------------------------
(* Oracle table for DictTreeHtmlTable: every tree in the bound with the events of the whole-tree layout and, for every
   branch, the events of the sub-table with fresh (sub-tree relative) and reused (root relative) spans. *)
EXTENDS DictTreeTable, Json, IOUtils
Row(T) == [tree |-> SetToSeq(T),
           root |-> EventsRoot(T),
           branches |-> SetToSeq({[b |-> b, fresh |-> EventsBranch(T, b, FALSE), stale |-> EventsBranch(T, b, TRUE)] : b \in T})]
ASSUME JsonSerialize(IOEnv.OUT_TABLE, SetToSeq({Row(T) : T \in Trees}))
=============================================================================
