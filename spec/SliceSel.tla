---------------------------- MODULE SliceSel ----------------------------
(* Design part of the frame selectors: the stepping machines the code runs (range stepping for
   Slice, integer error-diffusion for Sample) and the decision sequence of the option parser.
   TLC checks that the design refines SliceSelAbs for every selector / length inside MaxN. *)
EXTENDS SliceSelAbs

-----------------------------------------------------------------------------
(* Design: the selectors as stepping machines.  sel is fixed by Init. *)
VARIABLES sel,     \* [kind |-> "slice", a, b, c, n] or [kind |-> "sample", N, n]
          index,   \* next index to yield
          rem,     \* error-diffusion remainder (sample only)
          out,     \* indices yielded so far
          done

vars == <<sel, index, rem, out, done>>

Sels == [kind : {"slice"}, a : Opt(-MaxN..MaxN), b : Opt(-MaxN..MaxN), c : Opt(Steps), n : 0..MaxN]
        \cup [kind : {"sample"}, N : 1..(2 * MaxN), n : 0..(2 * MaxN)]

Down(s) == s.c # NoneV /\ s.c < 0          \* range(*slice.indices(n)) counts down
Init == /\ sel \in Sels
        /\ index = IF sel.kind = "slice" THEN (IF Down(sel) THEN ClampNeg(sel.a, sel.n, sel.n - 1) ELSE PyStart(sel.a, sel.n)) ELSE 0
        /\ rem = 0 /\ out = <<>> /\ done = FALSE

SliceStep == /\ sel.kind = "slice" /\ ~done
             /\ IF (IF Down(sel) THEN index > ClampNeg(sel.b, sel.n, -1) ELSE index < PyStop(sel.b, sel.n))
                THEN /\ out' = Append(out, index)
                     /\ index' = index + PyStep(sel.c)
                     /\ UNCHANGED done
                ELSE done' = TRUE /\ UNCHANGED <<out, index>>
             /\ UNCHANGED <<sel, rem>>

(* Sample.gen_indices: sample_size >= length yields range(length); otherwise error diffusion *)
SampleAll == /\ sel.kind = "sample" /\ ~done /\ sel.N >= sel.n
             /\ IF index < sel.n
                THEN out' = Append(out, index) /\ index' = index + 1 /\ UNCHANGED done
                ELSE done' = TRUE /\ UNCHANGED <<out, index>>
             /\ UNCHANGED <<sel, rem>>

SampleDiffuse == /\ sel.kind = "sample" /\ ~done /\ sel.N < sel.n
                 /\ IF index < sel.n
                    THEN LET r == rem + (sel.n % sel.N) IN
                         /\ out' = Append(out, index)
                         /\ index' = index + (sel.n \div sel.N) + (r \div sel.N)
                         /\ rem' = r % sel.N
                         /\ UNCHANGED done
                    ELSE done' = TRUE /\ UNCHANGED <<out, index, rem>>
                 /\ UNCHANGED sel

Next == SliceStep \/ SampleAll \/ SampleDiffuse
Spec == Init /\ [][Next]_vars

TypeOK == /\ sel \in Sels /\ index \in (-2 * MaxN - 1)..(4 * MaxN) /\ rem \in 0..(2 * MaxN)
          /\ out \in Seq(0..(2 * MaxN)) /\ done \in BOOLEAN

(* Refinement: at termination the design produced exactly the abstract result *)
SliceRefines == (done /\ sel.kind = "slice") => out = PySliceAny(sel.a, sel.b, sel.c, sel.n)
SampleRefines == (done /\ sel.kind = "sample") => SampleAbs(sel.N, sel.n, out)
(* Inductive invariant of the error diffusion: after j yields index*N + rem = j*n, 0 <= rem < N *)
DiffusionInv == (sel.kind = "sample" /\ sel.N < sel.n) =>
                   /\ index * sel.N + rem = Len(out) * sel.n
                   /\ rem >= 0 /\ rem < sel.N
(* every yielded prefix is already a prefix of the final answer *)
SlicePrefix == sel.kind = "slice" =>
                 \A i \in 1..Len(out) : i <= PyCountAny(sel.a, sel.b, sel.c, sel.n)
                                        /\ out[i] = PySliceAny(sel.a, sel.b, sel.c, sel.n)[i]
(* a Python slice really is the elements at s, s+st, ... below e and inside the sequence *)
SliceInRange == sel.kind = "slice" => \A i \in 1..Len(out) : out[i] >= 0 /\ out[i] < sel.n

-----------------------------------------------------------------------------
(* Design: the decision sequence of create_slice_or_sample *)
ParseDesign(parts) ==
    IF Len(parts) > 1                                   \* ',' in slice_string
    THEN IF \E i \in 1..Len(parts) : ~PartOK(parts[i])  \* convert() raises ValueError
         THEN Reject
         ELSE IF Len(parts) # 3 THEN Reject
         ELSE [kind |-> "slice", a |-> PartVal(parts[1]), b |-> PartVal(parts[2]), c |-> PartVal(parts[3])]
    ELSE IF parts[1].cls # "int" THEN Reject            \* int() raises ValueError
         ELSE IF parts[1].k < 1 THEN Reject             \* Sample() raises ValueError
         ELSE [kind |-> "sample", N |-> parts[1].k]

PartSet == {PartInt(k) : k \in {-2, -1, 0, 1, 2, MaxN}} \cup {PartEmpty, PartNone, PartJunk}
PartSeqs == UNION {[1..m -> PartSet] : m \in 1..4}
ParseRefines == \A ps \in PartSeqs : ParseDesign(ps) = ParseAbs(ps)
=============================================================================
