--------------------------- MODULE PlotWrapTrace ---------------------------
(* Trace validation for C19: one trace per plotted curve of a real plot (PlotReadLIS.plotLogPassLIS /
   PlotReadXML.plotLogPassLAS), recorded by wrapping LineTrans*.wrapPos, PlotRoll.polyLinePt and the polyline flush:

     start   track edges LP, RP and plot x range, quantised (positions: 1e-4 plot units, x: 1e-2 x units), back-up mode
     absent  a source sample whose value is the absent value (taken from the generated data, in source order)
     sample  a source sample: x, and from the INPUTS only the exact scale position p = pfloor + frac/1e4 (big: |pfloor| > 1e4);
             from the CODE the wrap count w, the position pos and the points it handed to polyLinePt during this step
     end

   The judgement is that of PlotWrap.tla: InTrack and Unwrap for every sample, every point in the track, in the step's x
   interval and in the plot's x range, a bounded number of points per step, no plain point for an off-scale wrap,
   nothing drawn for or across absent samples.  A rejected trace deadlocks at (tid, l). *)
EXTENDS Integers, Sequences, FiniteSets, TLC, Json, IOUtils

CONSTANTS Tol,          \* quantisation tolerance (position units)
          MaxCross

Data == JsonDeserialize(IOEnv.TRACE_FILE)
Traces == Data.traces
VARIABLES tid, l, g, havePrev, xPrev, gap, wPrev
tvars == <<tid, l, g, havePrev, xPrev, gap, wPrev>>
Ev == Traces[tid][l]
More == l <= Len(Traces[tid])
Abs(n) == IF n < 0 THEN -n ELSE n
Min2(a, b) == IF a < b THEN a ELSE b
Max2(a, b) == IF a < b THEN b ELSE a

TInit == tid \in 1..Len(Traces) /\ l = 1 /\ g = [new |-> TRUE] /\ havePrev = FALSE /\ xPrev = 0 /\ gap = FALSE /\ wPrev = 0

Start == /\ More /\ Ev.op = "start" /\ "new" \in DOMAIN g
         /\ Ev.LP < Ev.RP /\ Ev.xlo <= Ev.xhi
         /\ g' = [LP |-> Ev.LP, RP |-> Ev.RP, bu |-> Ev.bu, xlo |-> Ev.xlo, xhi |-> Ev.xhi]
         /\ UNCHANGED <<havePrev, xPrev, gap, wPrev>>

OffScale(w) == IF w < 0 /\ g.bu[1] # 0 /\ w < g.bu[1] THEN -1
               ELSE IF w > 0 /\ g.bu[2] # 0 /\ w > g.bu[2] THEN 1 ELSE 0
InTrack(pos) == g.LP - Tol <= pos /\ pos <= g.RP + Tol
Wq == g.RP - g.LP

AbsentEv == /\ More /\ Ev.op = "absent" /\ "LP" \in DOMAIN g
            /\ gap' = TRUE
            /\ UNCHANGED <<g, havePrev, xPrev, wPrev>>

PtOK(pt, xNow) == /\ InTrack(pt.pos)
                  /\ g.xlo - 1 <= pt.x /\ pt.x <= g.xhi + 1
                  /\ IF havePrev THEN Min2(xPrev, xNow) - 1 <= pt.x /\ pt.x <= Max2(xPrev, xNow) + 1
                     ELSE Abs(pt.x - xNow) <= 1

SampleEv == /\ More /\ Ev.op = "sample" /\ "LP" \in DOMAIN g
            /\ IF Ev.err
               THEN Ev.pts = <<>> /\ UNCHANGED <<havePrev, wPrev>>
               ELSE /\ InTrack(Ev.pos)
                    /\ ~Ev.big => Abs((Ev.pos + Ev.w * Wq) - (g.LP + Ev.pfloor * Wq + (Ev.frac * Wq) \div 10000)) <= Tol
                    /\ \A k \in 1..Len(Ev.pts) : PtOK(Ev.pts[k], Ev.x)
                    /\ Len(Ev.pts) <= 2 * (MaxCross + 1) + 4
                    \* the plain point of the sample is drawn exactly when its wrap is on scale
                    /\ IF OffScale(Ev.w) = 0
                       THEN Len(Ev.pts) >= 1 /\ Abs(Ev.pts[Len(Ev.pts)].x - Ev.x) <= 1 /\ Abs(Ev.pts[Len(Ev.pts)].pos - Ev.pos) <= 1
                       ELSE \A k \in 1..Len(Ev.pts) : Abs(Ev.pts[k].x - Ev.x) > 1
                    \* nothing is drawn across absent samples
                    /\ gap => Len(Ev.pts) <= 1
                    \* (as coded a curve that stays off scale on one side draws nothing at all; the property only asks that what IS
                    \*  drawn lies in the track, so a writer that also draws edge or crossing lines there is not rejected)
                    /\ wPrev' = Ev.w
                    /\ havePrev' = TRUE
            /\ xPrev' = Ev.x /\ gap' = FALSE
            /\ UNCHANGED g

EndEv == /\ More /\ Ev.op = "end" /\ UNCHANGED <<g, havePrev, xPrev, gap, wPrev>>

Done == ~More
TNext == \/ (Start \/ AbsentEv \/ SampleEv \/ EndEv) /\ l' = l + 1 /\ UNCHANGED tid
         \/ Done /\ UNCHANGED tvars
TSpec == TInit /\ [][TNext]_tvars
=============================================================================
