------------------------------- MODULE ProcLog -------------------------------
(* The process logging thread of common/process.py (used by every tool with --log-process): a thread that wakes up every
   interval and writes a log line, draining a module-level message queue, while the main thread adds messages and finally
   calls join(), which writes one last time, clears the run flag and waits for the thread.

       def _write_to_log(self, prefix):                      # executed by BOTH threads
           if self._run:
               if process_queue.empty():  log(plain)
               else:
                   while not process_queue.empty():
                       msg = process_queue.get()             # blocking
                       log(label=msg)
       def run(self):   self._write_to_log(START);  while self._run:  sleep(interval); self._write_to_log(PREFIX)
       def join(self):  self._write_to_log(STOP);   self._run = False;  Thread.join(self)

   Every queue operation is one atomic step (queue.Queue is locked); nothing else is.  Wanted: every message added before
   join() is logged exactly once, and join() returns.

   TLC finds that it need not: empty() and get() are two steps, so both threads can see the same last message; one takes
   it and the other blocks in get() for ever (NeverStuck is violated; with AtomicDrain = TRUE - get_nowait() semantics,
   one step "take if there is one" - it holds, as does Termination). *)
EXTENDS Integers, Sequences, TLC

CONSTANTS MaxMsgs,       \* messages the main thread adds before join()
          MaxWakes,      \* bound on logger wake-ups (the real thread wakes for ever)
          AtomicDrain    \* FALSE: as coded (empty() then blocking get()); TRUE: a non-blocking take

VARIABLES q, run, pcM, pcL, added, logged, wakes
vars == <<q, run, pcM, pcL, added, logged, wakes>>

Init == /\ q = <<>> /\ run = TRUE /\ pcM = "work" /\ pcL = "w_run" /\ added = 0 /\ logged = <<>> /\ wakes = 0

(* ---- the shared routine, parameterised by the thread's program counter variable ---- *)
\* pcs of _write_to_log: w_run -> w_empty -> (plain | w_loop -> w_get -> w_loop ...) -> after
WRun(pc, pc2, after) == /\ pc = "w_run" /\ pc2 = (IF run THEN "w_empty" ELSE after)
WEmpty(pc, pc2, after, who) ==
    /\ pc = "w_empty"
    /\ IF q = <<>> THEN pc2 = after /\ logged' = Append(logged, [by |-> who, msg |-> 0]) /\ UNCHANGED q
       ELSE IF AtomicDrain THEN pc2 = "w_loop" /\ UNCHANGED <<q, logged>>
       ELSE pc2 = "w_loop" /\ UNCHANGED <<q, logged>>
WLoop(pc, pc2, after, who) ==
    /\ pc = "w_loop"
    /\ IF AtomicDrain
       THEN IF q = <<>> THEN pc2 = after /\ UNCHANGED <<q, logged>>
            ELSE pc2 = "w_loop" /\ q' = Tail(q) /\ logged' = Append(logged, [by |-> who, msg |-> Head(q)])
       ELSE (IF q = <<>> THEN pc2 = after ELSE pc2 = "w_get") /\ UNCHANGED <<q, logged>>
WGet(pc, pc2, who) ==          \* blocking get(): enabled only when there is something to take
    /\ pc = "w_get" /\ q # <<>>
    /\ q' = Tail(q) /\ logged' = Append(logged, [by |-> who, msg |-> Head(q)]) /\ pc2 = "w_loop"

(* ---- main thread: work (add messages), then join() ---- *)
Add == /\ pcM = "work" /\ added < MaxMsgs
       /\ added' = added + 1 /\ q' = Append(q, added + 1)
       /\ UNCHANGED <<run, pcM, pcL, logged, wakes>>
StartJoin == pcM = "work" /\ pcM' = "w_run" /\ UNCHANGED <<q, run, pcL, added, logged, wakes>>
MWrite == \/ WRun(pcM, pcM', "setrun") /\ UNCHANGED <<q, logged, run, pcL, added, wakes>>
          \/ WEmpty(pcM, pcM', "setrun", "main") /\ UNCHANGED <<run, pcL, added, wakes>>
          \/ WLoop(pcM, pcM', "setrun", "main") /\ UNCHANGED <<run, pcL, added, wakes>>
          \/ WGet(pcM, pcM', "main") /\ UNCHANGED <<run, pcL, added, wakes>>
SetRun == pcM = "setrun" /\ run' = FALSE /\ pcM' = "wait" /\ UNCHANGED <<q, pcL, added, logged, wakes>>
Wait == pcM = "wait" /\ pcL = "exit" /\ pcM' = "done" /\ UNCHANGED <<q, run, pcL, added, logged, wakes>>

(* ---- logger thread: START write, then while run: sleep; write ---- *)
LWrite == \/ WRun(pcL, pcL', "while") /\ UNCHANGED <<q, logged, run, pcM, added, wakes>>
          \/ WEmpty(pcL, pcL', "while", "logger") /\ UNCHANGED <<run, pcM, added, wakes>>
          \/ WLoop(pcL, pcL', "while", "logger") /\ UNCHANGED <<run, pcM, added, wakes>>
          \/ WGet(pcL, pcL', "logger") /\ UNCHANGED <<run, pcM, added, wakes>>
While == /\ pcL = "while"
         /\ IF run /\ wakes < MaxWakes THEN pcL' = "w_run" /\ wakes' = wakes + 1
            ELSE IF run THEN pcL' = "while" /\ UNCHANGED wakes              \* bound reached: keep sleeping
            ELSE pcL' = "exit" /\ UNCHANGED wakes
         /\ UNCHANGED <<q, run, pcM, added, logged>>

Next == Add \/ StartJoin \/ MWrite \/ SetRun \/ Wait \/ LWrite \/ While
Spec == Init /\ [][Next]_vars /\ WF_vars(MWrite) /\ WF_vars(SetRun) /\ WF_vars(Wait) /\ WF_vars(LWrite) /\ WF_vars(While) /\ WF_vars(StartJoin)

-----------------------------------------------------------------------------
(* a thread blocked in get() on an empty queue after the last message was added can never continue *)
NeverStuck == ~(pcM = "w_get" /\ q = <<>>) /\ ~(pcL = "w_get" /\ q = <<>> /\ pcM # "work")
(* no message is logged twice *)
AtMostOnce == \A i, j \in 1..Len(logged) : (i # j /\ logged[i].msg # 0) => logged[i].msg # logged[j].msg
(* when join() has returned every message was logged *)
AllLogged == pcM = "done" => \A m \in 1..added : \E i \in 1..Len(logged) : logged[i].msg = m
Termination == <>(pcM = "done")
=============================================================================
