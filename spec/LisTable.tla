------------------------------ MODULE LisTable ------------------------------
(* LIS-79 table logical records and data format specification records (TotalDepth.LIS.core.LogiRec).

   TABLE.  Content: a table name and a sequence of rows; a row is a name and one cell per further column; a cell
   is a value class ("bytes", "u8", "i16", "i32", "float") with optional units.
   Encoding (LrTableWrite / CbEngValWrite): a type-73 component block with the table name, then per row a type-0
   block (first column) and type-69 blocks; the representation code and size follow from the value class
   (bytes 65/len, 0..255 66/1, 16-bit 79/2, 32-bit 73/4, float 68/4).
   Decoding (LrTableRead): a row starts at each type-0 block; when a row is complete it is indexed by name unless a
   row of that name exists, in which case it is discarded (first kept).
   Property: Decode(Encode(rows)) = DedupKeepFirst(rows), same name, row order, column order, classes and units -
   for writer-produced streams (which already drop duplicates) and for raw block streams that contain them.

   DFSR.  Entry blocks 1..16 (10 unused) each [size, repcode, value]; the terminator block 0 is given size 1 when
   the sum of the value sizes is odd, so the entry block set has even length; every block is written, defaults
   included, the terminator last.  Channel (datum specification) blocks derive bursts = size / (rcsize * samples). *)
EXTENDS Integers, Sequences, FiniteSets, TLC

CONSTANTS RowNames, Classes, NCols, MaxRows, DupInStream   \* DupInStream: the raw stream keeps duplicate rows

RcOf(c) == CASE c = "bytes" -> 65 [] c = "u8" -> 66 [] c = "i16" -> 79 [] c = "i32" -> 73 [] OTHER -> 68
SizeOf(c) == CASE c = "bytes" -> 5 [] c = "u8" -> 1 [] c = "i16" -> 2 [] c = "i32" -> 4 [] OTHER -> 4

VARIABLES rows,      \* content: sequence of [name, cells (sequence of [cls, units])]
          stream,    \* the component blocks written
          i,         \* reader: next block
          cur,       \* reader: row being assembled (<<>> = none)
          out,       \* reader: indexed rows
          tname,     \* reader: table name block seen
          phase
vars == <<rows, stream, i, cur, out, tname, phase>>

Cells == [1..NCols -> [cls : Classes, units : BOOLEAN]]
Init == rows = <<>> /\ stream = <<>> /\ i = 1 /\ cur = <<>> /\ out = <<>> /\ tname = FALSE /\ phase = "compose"

HasName(rs, n) == \E k \in 1..Len(rs) : rs[k].name = n
RECURSIVE Dedup(_)
Dedup(rs) == IF rs = <<>> THEN <<>>
             ELSE LET d == Dedup(SubSeq(rs, 1, Len(rs) - 1)) r == rs[Len(rs)]
                  IN IF HasName(d, r.name) THEN d ELSE Append(d, r)

AddRow(n, cs) == /\ phase = "compose" /\ Len(rows) < MaxRows
                 /\ rows' = Append(rows, [name |-> n, cells |-> cs])
                 /\ UNCHANGED <<stream, i, cur, out, tname, phase>>
RowBlocks(r) == <<[t |-> 0, name |-> r.name, rc |-> 65]>>
                \o [c \in 1..NCols |-> [t |-> 69, col |-> c, rc |-> RcOf(r.cells[c].cls), size |-> SizeOf(r.cells[c].cls),
                                        units |-> r.cells[c].units, cls |-> r.cells[c].cls]]
RECURSIVE Blocks(_)
Blocks(rs) == IF rs = <<>> THEN <<>> ELSE RowBlocks(rs[1]) \o Blocks(Tail(rs))
(* the writer drops duplicate rows itself; a raw stream (DupInStream) keeps them for the reader to drop *)
Write == /\ phase = "compose"
         /\ stream' = <<[t |-> 73]>> \o Blocks(IF DupInStream THEN rows ELSE Dedup(rows))
         /\ phase' = "read" /\ UNCHANGED <<rows, i, cur, out, tname>>
IndexOrDiscard(o, c) == IF c = <<>> THEN o ELSE IF HasName(o, c.name) THEN o ELSE Append(o, c)
ReadBlock == /\ phase = "read" /\ i <= Len(stream)
             /\ LET b == stream[i] IN
                CASE b.t = 73 -> tname' = TRUE /\ UNCHANGED <<cur, out>>
                  [] b.t = 0  -> /\ out' = IndexOrDiscard(out, cur)
                                 /\ cur' = [name |-> b.name, cells |-> <<>>] /\ UNCHANGED tname
                  [] OTHER    -> /\ cur # <<>>
                                 /\ cur' = [cur EXCEPT !.cells = Append(@, [cls |-> b.cls, units |-> b.units])]
                                 /\ UNCHANGED <<out, tname>>
             /\ i' = i + 1 /\ UNCHANGED <<rows, stream, phase>>
Finish == /\ phase = "read" /\ i = Len(stream) + 1
          /\ out' = IndexOrDiscard(out, cur) /\ cur' = <<>> /\ phase' = "done"
          /\ UNCHANGED <<rows, stream, i, tname>>
Next == (\E n \in RowNames, cs \in Cells : AddRow(n, cs)) \/ Write \/ ReadBlock \/ Finish \/ (phase = "done" /\ UNCHANGED vars)
Spec == Init /\ [][Next]_vars

RoundTrip == phase = "done" => out = Dedup(rows) /\ tname
NoRowLost == phase = "done" => \A n \in RowNames : HasName(rows, n) = HasName(out, n)

(* ---- DFSR entry block set ---- *)
EbTypes == (1..16) \ {10}
DefaultSize == [t \in 1..16 |-> CASE t \in {1, 2, 3, 4, 5, 13, 15, 16} -> 1 [] t \in {7, 12, 14} -> 4 [] OTHER -> 0]
(* legal sizes a caller may set per block *)
SizeMenu(t) == CASE t \in {1, 2, 4, 5, 13, 15, 16} -> {1} [] t \in {3, 11} -> {1, 2} [] t \in {6, 8, 12} -> {1, 4} [] OTHER -> {4}
SumSizes(f) == LET S[k \in 0..16] == IF k = 0 THEN 0 ELSE S[k - 1] + (IF k = 10 THEN 0 ELSE f[k]) IN S[16]
TermSize(f) == SumSizes(f) % 2
TotalBytes(f) == 3 * 15 + SumSizes(f) + 3 + TermSize(f)
EbsEven == \A over \in SUBSET {3, 6, 8, 11, 12} :
             \A pick \in [over -> {1, 2, 4}] :
                (\A t \in over : pick[t] \in SizeMenu(t)) =>
                   LET f == [t \in 1..16 |-> IF t \in over THEN pick[t] ELSE DefaultSize[t]] IN TotalBytes(f) % 2 = 0
Bursts(size, rcsize, samples) == size \div (rcsize * samples)
BurstsExact == \A rcsize \in {1, 2, 4}, samples \in {1, 2, 4}, b \in 1..3 : Bursts(rcsize * samples * b, rcsize, samples) = b
=============================================================================
