---------------------------- MODULE LisFramesTrace ----------------------------
(* Trace validation of LIS frame loading (C06): the event plan the real LogPass produced for one
   setFrameSet(file, slice, channels) - LogPass._genFrameSetEvents, i.e. seekLr / read / skip / extrapolate - is run
   through the interpreter of LisFrames.tla, then the result the real code reported is judged:
   rows loaded, the implied X of every row, and the logical-record seeks observed on the file. *)
EXTENDS LisFrames, Json, IOUtils

Data == JsonDeserialize(IOEnv.TRACE_FILE)
Traces == Data.traces
VARIABLES tid, l
tvars == <<tid, l, vars>>
Ev == Traces[tid][l]
More == l <= Len(Traces[tid])

CaseOf(c) == [c EXCEPT !.want = {c.want[i] : i \in 1..Len(c.want)}]      \* JSON carries the channel set as a list
TInit == /\ tid \in 1..Len(Traces) /\ l = 1 /\ InitCase(CaseOf(Data.cases[tid]))

RecAt(p) == CHOOSE r \in 1..Len(Recs) : Recs[r].pos = p
TSeek == More /\ Ev.op = "seek" /\ (\E r \in 1..Len(Recs) : Recs[r].pos = Ev.pos) /\ Seek(RecAt(Ev.pos))
TRead == /\ More /\ Ev.op = "read"
         /\ Read(Ev.cf = -1, IF Ev.ct = -1 THEN 0 ELSE (IF Ev.cf = -1 THEN 1 ELSE Ev.cf + 1), IF Ev.ct = -1 THEN 1 ELSE Ev.ct + 1, Ev.row)
         /\ cur' - cur = Ev.size
TSkip == More /\ Ev.op = "skip" /\ Skip(Ev.size)
TExtra == More /\ Ev.op = "extrapolate" /\ Extrapolate(Ev.n, Ev.row)
(* the result: number of rows, implied X per row as computed by the code, and the seeks seen on the file *)
TResult == /\ More /\ Ev.op = "result" /\ Complete
           /\ Ev.rows = Len(Sel)
           /\ ((IX > 0 /\ Ev.judgex) => Ev.x = [i \in 1..Len(Sel) |-> XAbs(Sel[i])])
           /\ \A j \in 1..Len(Ev.seeks) : \E r \in Visited : Recs[r].pos = Ev.seeks[j]
           /\ UNCHANGED vars
(* the file index: every non-data record at its true position with its type, in file order; the log pass totals *)
TIndex == /\ More /\ Ev.op = "index"
          /\ Ev.entries = K.index
          /\ Ev.total = Before(Len(Recs) + 1)
          /\ Ev.firstx = Recs[1].x0
          /\ (Len(Recs) > 1 => Ev.lastx = Recs[1].x0 + (Before(Len(Recs) + 1) - 1) * DX)
          /\ UNCHANGED vars
TDone == ~More /\ UNCHANGED vars
TNext == \/ (TSeek \/ TRead \/ TSkip \/ TExtra \/ TResult \/ TIndex) /\ l' = l + 1 /\ UNCHANGED <<tid, K>>
         \/ TDone /\ UNCHANGED <<tid, l>>
TSpec == TInit /\ [][TNext]_tvars
=============================================================================
