------------------------------ MODULE LisFrames ------------------------------
(* LIS log pass frame data (TotalDepth.LIS.core.LogPass / Type01Plan / FrameSet).

   Abstract content: a log pass has channels with byte sizes CS[c] (one frame is their concatenation, FS bytes),
   an optional indirect (implied) X axis of IX bytes at the start of every data record, frame spacing DX (signed),
   and data records Recs[r] = [frames, x0] in file order.  A global frame number g lives in record RecOf(g) at
   in-record frame g - Before(RecOf(g)).
   A load (slice start:stop:step, channel set) must give, for row i, global frame Sel[i]:
      - every requested cell (row i, channel c) = the bytes of cell (RecOf(g), FrameIn(g), c)
      - with an indirect X:  x[i] = x0(RecOf(g)) + FrameIn(g) * DX
      - and only records that hold a requested frame are visited.

   Design: the loader executes an EVENT PLAN.  This module is the interpreter of such plans - one action per
   event kind, with the cursor inside the current record - and the conditions under which an event is allowed:
      seek(r)                 r holds a requested frame and records are visited in increasing order
      read(size, row, cf, ct) the cursor is exactly at the first byte of cell (frame, cf) [or at the indirect X when
                              cf is "X"], size is exactly the bytes of channels cf..ct, every channel read is requested,
                              and row is the row of that frame
      skip(size)              the cursor stays inside the record
      extrapolate(n, row)     x[row] := base + n * DX, where base is the indirect X just read for this row, or else
                              x[row - 1]; the result must be the abstract X of that row
   TLC explores EVERY plan the interpreter accepts (any grouping of reads and skips) and checks that a plan that
   reaches the end has loaded exactly the requested cells (PlanSound).  Real plans are validated as traces. *)
EXTENDS Integers, Sequences, FiniteSets, TLC

CONSTANTS Cases      \* the cases explored: records [cs, ix, dx, recs, sel, want]
VARIABLE K           \* the case of this behaviour (chosen in Init, never changes)
CS   == K.cs         \* sequence of channel sizes
IX   == K.ix         \* bytes of the indirect X (0 = explicit X axis)
DX   == K.dx         \* frame spacing (signed)
Recs == K.recs       \* sequence of [frames |-> n >= 1, x0 |-> integer, pos |-> file position]
Sel  == K.sel        \* the selected global frame numbers (0-based, increasing) - PySlice of the request
Want == K.want       \* requested channel indices (1-based), X channel included by the caller when explicit

NC == Len(CS)
NoX == -99999999      \* "not set" marker for the implied X of a row
RECURSIVE SumTo(_, _)
SumTo(s, k) == IF k = 0 THEN 0 ELSE s[k] + SumTo(s, k - 1)
FS == SumTo(CS, NC)
Off(c) == SumTo(CS, c - 1)                       \* offset of channel c inside a frame
RECURSIVE Before(_)
Before(r) == IF r <= 1 THEN 0 ELSE Before(r - 1) + Recs[r - 1].frames
RecOf(g) == CHOOSE r \in 1..Len(Recs) : Before(r) <= g /\ g < Before(r) + Recs[r].frames
FrameIn(g) == g - Before(RecOf(g))
RecLen(r) == IX + Recs[r].frames * FS
XAbs(g) == Recs[RecOf(g)].x0 + FrameIn(g) * DX
RowsOf(r) == {i \in 1..Len(Sel) : RecOf(Sel[i]) = r}
Visited == {RecOf(Sel[i]) : i \in 1..Len(Sel)}

VARIABLES rec,      \* current record (0 = none yet)
          cur,      \* cursor: bytes consumed after the logical record header
          cells,    \* loaded cells: set of <<row, channel>>
          x,        \* implied X per row (NoX = not set)
          fresh,    \* row whose indirect X has just been read and not yet extrapolated (0 = none)
          bad       \* "" or why the plan is not allowed
vars == <<K, rec, cur, cells, x, fresh, bad>>

InitCase(k) == K = k /\ rec = 0 /\ cur = 0 /\ cells = {} /\ x = [i \in 1..Len(k.sel) |-> NoX] /\ fresh = 0 /\ bad = ""
Init == \E k \in Cases : InitCase(k)

FrameAt(c) == (c - IX) \div FS                   \* in-record frame the cursor is in
RowAt(f) == CHOOSE i \in RowsOf(rec) : FrameIn(Sel[i]) = f
IsSelected(f) == \E i \in RowsOf(rec) : FrameIn(Sel[i]) = f

FreshOK == IF fresh = 0 THEN TRUE ELSE FrameIn(Sel[fresh]) = 0        \* an indirect X that still stands for its row must be that row's X
Seek(r) == /\ r \in Visited /\ r > rec /\ (rec # 0 => \A q \in Visited : ~(rec < q /\ q < r)) /\ FreshOK
           /\ rec' = r /\ cur' = 0 /\ fresh' = 0 /\ UNCHANGED <<cells, x, bad>>
(* read of the indirect X alone, or of channels cf..ct of the frame at the cursor (with the X in front when withX) *)
Read(withX, cf, ct, row) ==
    /\ rec # 0
    /\ IF withX THEN cur = 0 /\ IX > 0 ELSE TRUE
    /\ LET start == IF withX THEN IX ELSE cur
           f == FrameAt(start)
       IN IF cf = 0                                         \* the indirect X only
          THEN /\ withX /\ row = (CHOOSE i \in RowsOf(rec) : \A j \in RowsOf(rec) : i <= j)
               /\ cur' = IX /\ x' = [x EXCEPT ![row] = Recs[rec].x0] /\ fresh' = row /\ UNCHANGED <<rec, cells, bad>>
          ELSE /\ cf \in 1..NC /\ ct \in cf..NC
               /\ start = IX + f * FS + Off(cf) /\ f < Recs[rec].frames
               /\ IsSelected(f) /\ row = RowAt(f)
               /\ \A c \in cf..ct : c \in Want
               /\ cur' = start + SumTo(CS, ct) - SumTo(CS, cf - 1)
               /\ cells' = cells \cup {<<row, c>> : c \in cf..ct}
               /\ x' = IF withX THEN [x EXCEPT ![row] = Recs[rec].x0] ELSE x
               /\ fresh' = IF withX THEN row ELSE fresh
               /\ (withX => f = 0)
               /\ UNCHANGED <<rec, bad>>
Skip(n) == /\ rec # 0 /\ n >= 1 /\ cur + n <= RecLen(rec) /\ cur' = cur + n /\ UNCHANGED <<rec, cells, x, fresh, bad>>
Extrapolate(n, row) ==
    /\ rec # 0 /\ IX > 0 /\ row \in RowsOf(rec) /\ n >= 1
    /\ LET base == IF fresh = row THEN x[row] ELSE x[row - 1]
       IN /\ (fresh # row => row > 1 /\ x[row - 1] # NoX)
          /\ base # NoX
          /\ base + n * DX = XAbs(Sel[row])                 \* the extrapolated X is the true X of that row
          /\ x' = [x EXCEPT ![row] = base + n * DX]
    /\ fresh' = 0 /\ UNCHANGED <<rec, cur, cells, bad>>

Next == /\ UNCHANGED K
        /\ \/ \E r \in 1..Len(Recs) : Seek(r)
           \/ \E cf \in 0..NC, ct \in 1..NC, row \in 1..Len(Sel), wx \in BOOLEAN : Read(wx, cf, ct, row)
           \/ \E n \in 1..(IX + 3 * FS) : Skip(n)
           \/ \E n \in 1..8, row \in 1..Len(Sel) : Extrapolate(n, row)
Spec == Init /\ [][Next]_vars

(* ---- what an accepted plan guarantees ---- *)
Complete == /\ \A i \in 1..Len(Sel) : \A c \in Want : <<i, c>> \in cells
            /\ (IX > 0 => \A i \in 1..Len(Sel) : x[i] # NoX) /\ FreshOK
CellsSound == \A p \in cells : p[2] \in Want /\ p[1] \in 1..Len(Sel)
XSound == \A i \in 1..Len(Sel) : (x[i] # NoX /\ (i # fresh \/ FrameIn(Sel[i]) = 0)) => x[i] = XAbs(Sel[i])
CompleteIsRight == Complete => \A i \in 1..Len(Sel) : IX > 0 => x[i] = XAbs(Sel[i])
CursorInside == rec # 0 => cur <= RecLen(rec)
OnlyVisited == rec # 0 => rec \in Visited
(* a complete load is reachable (the interpreter is not vacuous) - checked as a violated invariant in a separate config *)
NeverComplete == ~Complete
=============================================================================
