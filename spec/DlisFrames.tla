------------------------------ MODULE DlisFrames ------------------------------
(* RP66V1 frame data (TotalDepth.RP66V1.core.LogicalFile.populate_frame_array, LogPass.RP66V1FrameArray).

   Content: one frame type with NCh channels and a file-order sequence of data records; N of them are non-empty
   (an empty record carries no frame).  The index holds the non-empty records in file order.
   A populate call takes a selection (a Python slice, a sample, or none = all), which must select >= 1 frame, and a
   channel request (a set of channel numbers, or none = all) and fills, per channel, an array:
       abstract:  rows = Indices(selection, N); a requested channel (and always channel 1) has one row per selected
                  record, row i holding the values of record rows[i]; any other channel has length 0; the call returns
                  the number of rows.
   Design: InitArrays (an array is REUSED when its length is unchanged, so its cells still hold the previous call's
   values - modelled as stale cells) followed by one ReadFrame per selected record which overwrites row i of every
   requested channel and skips the others by their byte length.  TLC explores every history of populate calls and
   checks that after each completed call the arrays are exactly the abstract answer (no stale cell survives), i.e. the
   result depends on the arguments only. *)
EXTENDS SliceSelAbs

CONSTANTS N,            \* non-empty data records of the frame type
          NCh,          \* channels (channel 1 is the X axis)
          Selections,   \* records [kind |-> "slice", a, b, c] | [kind |-> "sample", n] | [kind |-> "all"]
          Requests      \* records [all |-> BOOLEAN, chans |-> subset of 1..NCh]

Indices(sel, n) == CASE sel.kind = "slice" -> PySliceAny(sel.a, sel.b, sel.c, n)
                     [] sel.kind = "all" -> [i \in 1..n |-> i - 1]
                     [] OTHER -> [i \in 1..Min2(sel.n, n) |-> ((i - 1) * n) \div Min2(sel.n, n)]   \* the even spread of a sample
Wanted(req, ch) == req.all \/ ch = 1 \/ ch \in req.chans

VARIABLES arr,      \* arr[ch] = sequence of cells; a cell is the record index it holds (0-based), or -1 = stale / unset
          call,     \* the call in progress: [sel, req, rows, next] or <<>> when idle
          ret,      \* value returned by the last completed call
          ncalls
vars == <<arr, call, ret, ncalls>>
Init == arr = [ch \in 1..NCh |-> <<>>] /\ call = <<>> /\ ret = 0 /\ ncalls = 0

InitArrays(sel, req) ==
    /\ call = <<>> /\ ncalls < 3
    /\ LET rows == Indices(sel, N) IN
       /\ Len(rows) >= 1
       /\ arr' = [ch \in 1..NCh |->
                    IF Wanted(req, ch)
                    THEN IF Len(arr[ch]) = Len(rows) THEN [i \in 1..Len(rows) |-> -1]       \* reused storage: stale content
                         ELSE [i \in 1..Len(rows) |-> -1]
                    ELSE <<>>]
       /\ call' = [sel |-> sel, req |-> req, rows |-> rows, next |-> 1]
    /\ UNCHANGED <<ret, ncalls>>
ReadFrame ==
    /\ call # <<>> /\ call.next <= Len(call.rows)
    /\ arr' = [ch \in 1..NCh |-> IF Wanted(call.req, ch) THEN [arr[ch] EXCEPT ![call.next] = call.rows[call.next]] ELSE arr[ch]]
    /\ call' = [call EXCEPT !.next = @ + 1] /\ UNCHANGED <<ret, ncalls>>
Return ==
    /\ call # <<>> /\ call.next = Len(call.rows) + 1
    /\ ret' = Len(call.rows) /\ call' = <<>> /\ ncalls' = ncalls + 1 /\ UNCHANGED arr
Next == (\E s \in Selections, r \in Requests : InitArrays(s, r)) \/ ReadFrame \/ Return
Spec == Init /\ [][Next]_vars

(* the abstract answer for the last completed call, kept as a history variable-free check at Return time *)
AnswerOK(sel, req) == LET rows == Indices(sel, N) IN
    \A ch \in 1..NCh : IF Wanted(req, ch) THEN arr[ch] = rows ELSE arr[ch] = <<>>
NoStaleWhenIdle == (call = <<>> /\ ncalls > 0) => \A ch \in 1..NCh : \A i \in 1..Len(arr[ch]) : arr[ch][i] # -1
RowsInRange == \A ch \in 1..NCh : \A i \in 1..Len(arr[ch]) : arr[ch][i] \in -1..(N - 1)
LengthsAgree == call = <<>> => \A ch \in 1..NCh : Len(arr[ch]) \in {0, ret}
FirstAlways == (call = <<>> /\ ncalls > 0) => Len(arr[1]) = ret /\ ret >= 1
=============================================================================
