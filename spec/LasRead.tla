------------------------------- MODULE LasRead -------------------------------
(* Reading LAS 1.2 / 2.0 text (TotalDepth.LAS.core.LASRead).

   Abstract content: header sections V, W, C, P, each a sequence of lines (mnemonic, unit, value, description);
   NC curves (the C section has NC lines); NF frames of NC values.
   LAYOUT WRITER (nondeterministic): one line token at a time - section heads, header lines in order, comment and
   blank lines anywhere (bounded), data lines either unwrapped (one line per frame) or wrapped (the index value
   alone on a line, then the other values cut into lines in any way).
   READER DESIGN, consuming each line as it is emitted (lockstep): the line generator that drops comments and
   blanks and can take one line back (generate_lines), the section dispatch of _process_file /
   _add_members_to_section with its push-back of the next section head, and the wrap buffer of LASSectionArray
   (accumulate / flush when full / overflow).
   Property: the parse equals the content for every layout (hence is the same for all layouts).

   The split of one header line into its four fields (first dot, last colon) is specified separately below over
   character classes and checked for every field content inside the bound. *)
EXTENDS Integers, Sequences, FiniteSets, TLC

CONSTANTS NHdr,       \* [V |-> 2, W |-> n, C |-> NC, P |-> n] lines per header section
          NF,         \* frames
          Wrap,       \* BOOLEAN
          MaxExtra    \* comments + blanks inserted in total
NC == NHdr.C
Order == <<"V", "W", "C", "P", "A">>

VARIABLES si,       \* writer: index into Order of the section being written (6 = finished)
          started,  \* writer: the section head has been written
          li,       \* writer: header lines written in this section / frames completed (A)
          cell,     \* writer (A): cells of the current frame already written
          extra,    \* writer: comments/blank lines inserted so far
          rsec,     \* reader: section whose members are being collected ("" = at top level)
          out,      \* reader: per header section, the indices of the lines it holds
          buf,      \* reader: wrap buffer (cells)
          frames,   \* reader: completed frames (each a sequence of cells <<f, c>>)
          rerr
vars == <<si, started, li, cell, extra, rsec, out, buf, frames, rerr>>

Init == /\ si = 1 /\ started = FALSE /\ li = 0 /\ cell = 0 /\ extra = 0
        /\ rsec = "" /\ out = [s \in {"V", "W", "C", "P"} |-> <<>>] /\ buf = <<>> /\ frames = <<>> /\ rerr = ""

Sec == Order[si]

(* ---- reader: one delivered (non-comment, non-blank) line ---- *)
(* a section head: if members were being collected the head is pushed back and re-delivered to the top level,
   which dispatches on it; the net effect is that the new section becomes current *)
ReadHead(s) == /\ rsec' = s /\ UNCHANGED <<out, buf, frames>>
               /\ rerr' = IF s = "V" /\ rsec # "" THEN "version section must be first"
                          ELSE IF s # "V" /\ rsec = "" THEN "non-version section first" ELSE rerr
ReadHdrLine(i) == /\ rsec \in {"V", "W", "C", "P"}
                  /\ out' = [out EXCEPT ![rsec] = Append(@, i)] /\ UNCHANGED <<rsec, buf, frames, rerr>>
(* a data line carrying cells cs (LASSectionArray.add_member_line / _add_member_with_wrap_mode) *)
ReadData(cs) ==
    /\ rsec = "A" /\ UNCHANGED <<rsec, out>>
    /\ IF ~Wrap THEN frames' = Append(frames, cs) /\ UNCHANGED <<buf, rerr>>
       ELSE IF buf = <<>>
            THEN IF Len(cs) = 1
                 THEN IF NC = 1 THEN frames' = Append(frames, cs) /\ UNCHANGED <<buf, rerr>>      \* the index is the only channel
                      ELSE buf' = cs /\ UNCHANGED <<frames, rerr>>
                 ELSE rerr' = "more than one index value" /\ UNCHANGED <<buf, frames>>
            ELSE LET b == buf \o cs IN
                 IF Len(b) = NC THEN frames' = Append(frames, b) /\ buf' = <<>> /\ UNCHANGED rerr
                 ELSE IF Len(b) > NC THEN rerr' = "array overflow" /\ UNCHANGED <<buf, frames>>
                 ELSE buf' = b /\ UNCHANGED <<frames, rerr>>

(* ---- writer actions (each emits one line, consumed at once by the reader) ---- *)
EmitHead == /\ si <= 5 /\ ~started /\ started' = TRUE /\ ReadHead(Sec) /\ UNCHANGED <<si, li, cell, extra>>
EmitHdr == /\ si <= 4 /\ started /\ li < NHdr[Sec]
           /\ ReadHdrLine(li + 1) /\ li' = li + 1 /\ UNCHANGED <<si, started, cell, extra>>
NextSection == /\ si <= 4 /\ started /\ li = NHdr[Sec]
               /\ si' = si + 1 /\ started' = FALSE /\ li' = 0 /\ UNCHANGED <<cell, extra, rsec, out, buf, frames, rerr>>
(* comments and blank lines are dropped by the line generator: the reader state does not change *)
EmitExtra == /\ si <= 5 /\ extra < MaxExtra /\ extra' = extra + 1
             /\ UNCHANGED <<si, started, li, cell, rsec, out, buf, frames, rerr>>
Cells(f, a, b) == [j \in 1..(b - a + 1) |-> <<f, a + j - 1>>]
EmitDataUnwrapped == /\ si = 5 /\ started /\ ~Wrap /\ li < NF
                     /\ ReadData(Cells(li + 1, 1, NC)) /\ li' = li + 1 /\ UNCHANGED <<si, started, cell, extra>>
EmitDataWrapped(n) ==      \* n further cells of the current frame on one line (the first line holds the index only)
    /\ si = 5 /\ started /\ Wrap /\ li < NF
    /\ (cell = 0 => n = 1) /\ n >= 1 /\ cell + n <= NC
    /\ ReadData(Cells(li + 1, cell + 1, cell + n))
    /\ IF cell + n = NC THEN li' = li + 1 /\ cell' = 0 ELSE cell' = cell + n /\ UNCHANGED li
    /\ UNCHANGED <<si, started, extra>>
Finish == /\ si = 5 /\ started /\ li = NF /\ cell = 0 /\ si' = 6
          /\ UNCHANGED <<started, li, cell, extra, rsec, out, buf, frames, rerr>>
Next == EmitHead \/ EmitHdr \/ NextSection \/ EmitExtra \/ EmitDataUnwrapped \/ (\E n \in 1..NC : EmitDataWrapped(n)) \/ Finish
        \/ (si = 6 /\ UNCHANGED vars)
Spec == Init /\ [][Next]_vars

(* ---- the property ---- *)
NoError == rerr = ""
ParseIsContent == si = 6 =>
    /\ \A s \in {"V", "W", "C", "P"} : out[s] = [i \in 1..NHdr[s] |-> i]
    /\ buf = <<>>
    /\ frames = [f \in 1..NF |-> Cells(f, 1, NC)]
PrefixOK == \A s \in {"V", "W", "C", "P"} : \A i \in 1..Len(out[s]) : out[s][i] = i

(* ---- splitting one header line: MNEM .UNIT VALUE : DESCRIPTION ---- *)
(* a line is a sequence of character classes: "a" ordinary, "." dot, ":" colon, " " space *)
Pos(line, ch) == {i \in 1..Len(line) : line[i] = ch}
MinOf(S) == CHOOSE x \in S : \A y \in S : x <= y
MaxOf(S) == CHOOSE x \in S : \A y \in S : x >= y
SplitLine(line) == LET d == MinOf(Pos(line, ".")) c == MaxOf(Pos(line, ":"))
                   IN [mnem |-> SubSeq(line, 1, d - 1), mid |-> SubSeq(line, d + 1, c - 1), desc |-> SubSeq(line, c + 1, Len(line))]
(* unit = the run of non-space, non-colon characters right after the dot; value = the rest of mid *)
RECURSIVE UnitLen(_)
UnitLen(mid) == IF mid = <<>> \/ mid[1] \in {" ", ":"} THEN 0 ELSE 1 + UnitLen(Tail(mid))
SplitMid(mid) == [unit |-> SubSeq(mid, 1, UnitLen(mid)), value |-> SubSeq(mid, UnitLen(mid) + 1, Len(mid))]
RECURSIVE Strip(_)
StripL(s) == IF s # <<>> /\ s[1] = " " THEN Strip(Tail(s)) ELSE s
Strip(s) == LET l == IF s # <<>> /\ s[1] = " " THEN Strip(Tail(s)) ELSE s
            IN IF l # <<>> /\ l[Len(l)] = " " THEN Strip(SubSeq(l, 1, Len(l) - 1)) ELSE l
(* field contents inside the bound *)
Mnems  == {<<"a">>, <<"a", "a">>}
Units  == {<<>>, <<"a">>, <<"a", ".">>, <<".", "a">>}                    \* no space, no colon; dots allowed
Values == {<<>>, <<"a">>, <<"a", ".", "a">>, <<"a", ":", "a">>, <<"a", " ", "a">>, <<"a", ":", "a", ":", "a">>}
Descs  == {<<>>, <<"a">>, <<"a", " ", "a">>, <<"a", ".", "a">>}           \* free of colons
Pads   == {<<>>, <<" ">>, <<" ", " ">>}
Render(m, u, v, d, p1, p2, p3) == p1 \o m \o p2 \o <<".">> \o u \o <<" ">> \o p3 \o v \o p3 \o <<":">> \o p2 \o d
FieldSplitOK == \A m \in Mnems, u \in Units, v \in Values, d \in Descs, p1 \in Pads, p2 \in Pads, p3 \in Pads :
    LET sp == SplitLine(Render(m, u, v, d, p1, p2, p3)) md == SplitMid(sp.mid)
    IN Strip(sp.mnem) = m /\ md.unit = u /\ Strip(md.value) = v /\ Strip(sp.desc) = d
=============================================================================
