-------------------------------- MODULE Units --------------------------------
(* Unit conversion (TotalDepth.common.units and TotalDepth.LIS.core.Units).

   A table maps a unit to [dim, scale, offset]; the meaning of a conversion is the affine map through the base
   unit of the dimension:      Conv(v, a, b) = ((v - off_a) * s_a) / s_b + off_b
   defined iff both units are known and of one dimension, otherwise the conversion is REFUSED.
   Numbers are exact rationals <<n, d>> (d > 0); TLC checks the laws on a small lattice of scales, offsets and
   values, checks that the two design variants of the code (skip the offsets when both are zero; LIS: offset
   absent) agree with Conv, and that the four-step in-place array conversion equals the element-wise scalar one,
   also when conversions are chained (histories).  The floating-point side (2035-entry OSDD table, all finite
   values) is NOT decided here: the harness instantiates every case class on the real tables and compares with
   this module's Conv evaluated in exact rational arithmetic, within a forward error bound. *)
EXTENDS Integers, Sequences, FiniteSets, TLC

(* ---- exact rationals ---- *)
Q(n, d) == <<n, d>>
QInt(k) == <<k, 1>>
RECURSIVE Gcd(_, _)
Gcd(x, y) == IF y = 0 THEN x ELSE Gcd(y, x % y)
Abs(x) == IF x < 0 THEN -x ELSE x
Norm(q) == LET g == Gcd(Abs(q[1]), q[2]) IN IF g = 0 THEN q ELSE <<q[1] \div g, q[2] \div g>>   \* lowest terms (TLC integers are 32 bit)
QAdd(a, b) == Norm(<<a[1] * b[2] + b[1] * a[2], a[2] * b[2]>>)
QSub(a, b) == Norm(<<a[1] * b[2] - b[1] * a[2], a[2] * b[2]>>)
QMul(a, b) == Norm(<<a[1] * b[1], a[2] * b[2]>>)
QDiv(a, b) == Norm(IF b[1] > 0 THEN <<a[1] * b[2], a[2] * b[1]>> ELSE <<-(a[1] * b[2]), a[2] * (-b[1])>>)
QEq(a, b) == a[1] * b[2] = b[1] * a[2]

(* ---- the table of the model ---- *)
Dims == {"Length", "Temperature", "Time"}
Table == [ m    |-> [dim |-> "Length", scale |-> Q(1, 1), off |-> Q(0, 1)],
           hm   |-> [dim |-> "Length", scale |-> Q(1, 2), off |-> Q(0, 1)],
           ft   |-> [dim |-> "Length", scale |-> Q(3, 10), off |-> Q(0, 1)],
           K    |-> [dim |-> "Temperature", scale |-> Q(1, 1), off |-> Q(0, 1)],
           degC |-> [dim |-> "Temperature", scale |-> Q(1, 1), off |-> Q(-273, 1)],
           degF |-> [dim |-> "Temperature", scale |-> Q(5, 9), off |-> Q(-460, 1)],
           s    |-> [dim |-> "Time", scale |-> Q(1, 1), off |-> Q(0, 1)],
           min  |-> [dim |-> "Time", scale |-> Q(60, 1), off |-> Q(0, 1)] ]
Known == DOMAIN Table
AllUnits == Known \cup {"bogus"}
Vals == {QInt(k) : k \in -3..3} \cup {Q(1, 2), Q(-7, 3)}

(* ---- abstract ---- *)
Refuse(kind) == [refused |-> kind]
CanConvert(a, b) == a \in Known /\ b \in Known /\ Table[a].dim = Table[b].dim
Conv(v, a, b) == QAdd(QDiv(QMul(QSub(v, Table[a].off), Table[a].scale), Table[b].scale), Table[b].off)
Convert(v, a, b) == IF a \notin Known \/ b \notin Known THEN Refuse("UnknownUnit")
                    ELSE IF Table[a].dim # Table[b].dim THEN Refuse("DifferentDimension")
                    ELSE [value |-> Conv(v, a, b)]

(* ---- design variants ---- *)
HasOffset(u) == ~QEq(Table[u].off, QInt(0))
(* common/units._convert: the offsets are skipped when neither unit has one *)
ConvOsdd(v, a, b) == IF HasOffset(a) \/ HasOffset(b) THEN Conv(v, a, b)
                     ELSE QDiv(QMul(v, Table[a].scale), Table[b].scale)
(* LIS/core/Units.UnitConvert.convert: an absent offset is not applied *)
ConvLis(v, a, b) == LET v1 == IF HasOffset(a) THEN QSub(v, Table[a].off) ELSE v
                        r  == QDiv(QMul(v1, Table[a].scale), Table[b].scale)
                    IN IF HasOffset(b) THEN QAdd(r, Table[b].off) ELSE r

(* ---- laws (constant level) ---- *)
SameDimPairs == {p \in Known \X Known : CanConvert(p[1], p[2])}
DesignsAgree == \A p \in SameDimPairs, v \in Vals : QEq(ConvOsdd(v, p[1], p[2]), Conv(v, p[1], p[2])) /\ QEq(ConvLis(v, p[1], p[2]), Conv(v, p[1], p[2]))
Identity     == \A u \in Known, v \in Vals : QEq(Conv(v, u, u), v)
Invertible   == \A p \in SameDimPairs, v \in Vals : QEq(Conv(Conv(v, p[1], p[2]), p[2], p[1]), v)
Transitive   == \A p \in SameDimPairs, c \in Known, v \in Vals :
                   CanConvert(p[1], c) => QEq(Conv(Conv(v, p[1], c), c, p[2]), Conv(v, p[1], p[2]))
Gate         == \A a \in AllUnits, b \in AllUnits, v \in Vals :
                   ("value" \in DOMAIN Convert(v, a, b)) = CanConvert(a, b)

(* ---- the in-place array conversion as a machine; histories of conversions ---- *)
VARIABLES arr, orig, unit, unit0, pc, target
vars == <<arr, orig, unit, unit0, pc, target>>
Arrays == {<<v, w>> : v \in {QInt(0), QInt(2), Q(1, 2)}, w \in {QInt(-3), Q(-7, 3)}}
Init == arr \in Arrays /\ orig = arr /\ unit \in Known /\ unit0 = unit /\ pc = "idle" /\ target = unit
Map(a, F(_)) == [i \in 1..Len(a) |-> F(a[i])]
Start(b) == /\ pc = "idle" /\ CanConvert(unit, b) /\ target' = b
            /\ pc' = (IF HasOffset(unit) \/ HasOffset(b) THEN "sub" ELSE "ratio") /\ UNCHANGED <<arr, orig, unit, unit0>>
StepSub  == pc = "sub"  /\ arr' = Map(arr, LAMBDA x : QSub(x, Table[unit].off)) /\ pc' = "mul" /\ UNCHANGED <<orig, unit, unit0, target>>
StepMul  == pc = "mul"  /\ arr' = Map(arr, LAMBDA x : QMul(x, Table[unit].scale)) /\ pc' = "div" /\ UNCHANGED <<orig, unit, unit0, target>>
StepDiv  == pc = "div"  /\ arr' = Map(arr, LAMBDA x : QDiv(x, Table[target].scale)) /\ pc' = "add" /\ UNCHANGED <<orig, unit, unit0, target>>
StepAdd  == pc = "add"  /\ arr' = Map(arr, LAMBDA x : QAdd(x, Table[target].off)) /\ pc' = "idle" /\ unit' = target /\ UNCHANGED <<orig, unit0, target>>
StepRatio == pc = "ratio" /\ arr' = Map(arr, LAMBDA x : QMul(x, QDiv(Table[unit].scale, Table[target].scale))) /\ pc' = "idle" /\ unit' = target
             /\ UNCHANGED <<orig, unit0, target>>
Next == (\E b \in Known : Start(b)) \/ StepSub \/ StepMul \/ StepDiv \/ StepAdd \/ StepRatio
Spec == Init /\ [][Next]_vars
(* after any history of in-place conversions the array is the element-wise conversion of the original *)
InPlaceIsElementwise == pc = "idle" => \A i \in 1..Len(arr) : QEq(arr[i], Conv(orig[i], unit0, unit))
StaysInDimension == Table[unit].dim = Table[unit0].dim
Bounded == \A i \in 1..Len(arr) : arr[i][2] < 10000 /\ arr[i][2] > 0 /\ Abs(arr[i][1]) < 100000
=============================================================================
