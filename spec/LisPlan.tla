------------------------------- MODULE LisPlan -------------------------------
(* The frame-set planner of one LIS data record (LIS/core/Type01Plan.py FrameSetPlan.genEvents, _retFrameEvents,
   _retMergedPostFramePre), transcribed operator by operator - "Be aware: This code is tricky" says its docstring.

   A record holds (after its header) an optional indirect X value of Indr bytes and then frames of channels with sizes
   Sizes[1..n].  For a frame slice (start, stop, step) and a sorted non-empty channel subset chs (0-based, as in the code)
   the planner emits events  [t, siz, fr, c0, c1]:
        read         siz bytes holding channels c0..c1 of frame fr (c0 = NoneC: the indirect X comes first)
        skip         siz bytes
        extrapolate  advance the implied X by siz frames (fr = frame now current)
   Design = Plan(...) below.  Abstract = what an interpreter with a byte cursor must see: every read lands exactly on the
   channels it names, the cells read are exactly (selected frames) x chs, the indirect X is read exactly once and first,
   the extrapolations add up to the frame number of every frame read, and the cursor never leaves the frames of the slice.
   TLC checks PlanOK for every case in the bound (ASSUME AllPlansOK); LisPlanTable exports every case with its plan and
   the harness compares the real planner's events with it one by one. *)
EXTENDS Integers, Sequences, FiniteSets, SequencesExt, TLC

CONSTANTS SizeMenu,     \* channel sizes to choose from
          MaxCh,        \* channels per frame 1..MaxCh
          IndrMenu,     \* indirect X sizes (0 = explicit X)
          MaxStart, MaxStop, MaxStep

NoneC == -1
NoneF == -1
Ev(t, siz, fr, c0, c1) == [t |-> t, siz |-> siz, fr |-> fr, c0 |-> c0, c1 |-> c1]

(* ---- geometry ---- *)
RECURSIVE Sum(_)
Sum(s) == IF s = <<>> THEN 0 ELSE s[1] + Sum(Tail(s))
FrameSize(S) == Sum(S)
ToStart(S, c) == Sum(SubSeq(S, 1, c))                 \* bytes from the frame start to channel c (0-based c)
ToEnd(S, c) == Sum(SubSeq(S, c + 2, Len(S)))          \* bytes from the end of channel c to the frame end
Size(S, c) == S[c + 1]

(* ---- _retFrameEvents: [pre, evts, post]; an absent pre/post is <<>>; frame events are <<t, siz, c0, c1>> ---- *)
RECURSIVE FrameEvts(_, _, _, _, _, _)
FrameEvts(S, chs, i, chStart, chStop, siz) ==
    IF i > Len(chs)
    THEN IF chStop >= chStart THEN << <<"read", siz, chStart, chStop>> >> ELSE <<>>
    ELSE LET c == chs[i] IN
         IF c = chStop + 1
         THEN FrameEvts(S, chs, i + 1, chStart, c, siz + Size(S, c))
         ELSE (IF chStop >= chStart THEN << <<"read", siz, chStart, chStop>> >> ELSE <<>>)
              \o << <<"skip", ToStart(S, c) - ToStart(S, chStop + 1), chStop + 1, c - 1>> >>
              \o FrameEvts(S, chs, i + 1, c, c, Size(S, c))
Pre(S, chs) == IF chs[1] > 0 THEN << <<"skip", ToStart(S, chs[1]), 0, chs[1] - 1>> >> ELSE <<>>
Post(S, chs) == LET last == chs[Len(chs)] IN
                IF ToEnd(S, last) > 0 THEN << <<"skip", ToEnd(S, last), last + 1, Len(S) - 1>> >> ELSE <<>>
Fevts(S, chs) == FrameEvts(S, chs, 1, chs[1], chs[1] - 1, 0)

(* ---- _retMergedPostFramePre: <<>> or one <<t, siz, c0, c1>> ---- *)
Merged(S, pre, post, step) ==
    LET siz == (IF step > 1 THEN (step - 1) * FrameSize(S) ELSE 0)
               + (IF post # <<>> THEN post[1][2] ELSE 0) + (IF pre # <<>> THEN pre[1][2] ELSE 0)
    IN IF post # <<>>
       THEN (IF pre # <<>> THEN << <<"skip", siz, post[1][3], pre[1][4]>> >> ELSE << <<"skip", siz, post[1][3], post[1][4]>> >>)
       ELSE IF pre # <<>> THEN << <<"skip", siz, pre[1][3], pre[1][4]>> >>
       ELSE IF siz > 0 THEN << <<"skip", siz, NoneC, NoneC>> >> ELSE <<>>

(* ---- genEvents ---- *)
RECURSIVE Frames(_, _, _, _, _, _, _, _, _)
Frames(S, indr, fevts, post, inter, f, stop, step, lazy) ==
    \* lazy: the indirect X read is still pending and is merged with the first read of this frame
    LET this == [k \in 1..Len(fevts) |->
                    IF lazy /\ k = 1 THEN Ev(fevts[k][1], indr + fevts[k][2], f, NoneC, fevts[k][4])
                    ELSE Ev(fevts[k][1], fevts[k][2], f, fevts[k][3], fevts[k][4])]
        nf == f + step
    IN IF nf >= stop
       THEN this \o (IF post # <<>> THEN <<Ev(post[1][1], post[1][2], f, post[1][3], post[1][4])>> ELSE <<>>)
       ELSE this
            \o (IF inter # <<>> THEN <<Ev(inter[1][1], inter[1][2], nf, inter[1][3], inter[1][4])>> ELSE <<>>)
            \o (IF indr > 0 THEN <<Ev("extrapolate", step, nf, NoneC, NoneC)>> ELSE <<>>)
            \o Frames(S, indr, fevts, post, inter, nf, stop, step, FALSE)

Plan(S, indr, start, stop, step, chs) ==
    LET pre == Pre(S, chs)  post == Post(S, chs)  fevts == Fevts(S, chs)
        inter == Merged(S, pre, post, step)
        indrRead == Ev("read", indr, NoneF, NoneC, NoneC)
        head == IF indr > 0 /\ pre # <<>>
                THEN <<indrRead>> \o (IF start > 0 THEN <<Ev("extrapolate", start, start, NoneC, NoneC)>> ELSE <<>>)
                ELSE <<>>
        move == IF pre # <<>>
                THEN <<Ev("skip", start * FrameSize(S) + pre[1][2], start, pre[1][3], pre[1][4])>>
                ELSE IF start > 0
                     THEN (IF indr > 0 THEN <<indrRead>> ELSE <<>>)
                          \o <<Ev("skip", start * FrameSize(S), start, NoneC, 0)>>
                          \o (IF indr > 0 THEN <<Ev("extrapolate", start, start, NoneC, NoneC)>> ELSE <<>>)
                     ELSE <<>>
        lazy == indr > 0 /\ pre = <<>> /\ start = 0
    IN head \o move \o Frames(S, indr, fevts, post, inter, start, stop, step, lazy)

-----------------------------------------------------------------------------
(* Abstract interpretation of a plan: fold the events over a byte cursor *)
Selected(start, stop, step) == {f \in start..(stop - 1) : (f - start) % step = 0}
ChOff(S, indr, f, c) == indr + f * FrameSize(S) + ToStart(S, c)
RangeSize(S, c0, c1) == Sum(SubSeq(S, c0 + 1, c1 + 1))

RECURSIVE Run(_, _, _, _, _, _, _)
\* state: cursor, cells read so far, whether X was read, extrapolated frames so far; returns [ok, cur, cells, x, ext]
Run(S, indr, plan, k, cur, acc, ext) ==
    IF k > Len(plan) THEN [ok |-> TRUE, cur |-> cur, cells |-> acc.cells, x |-> acc.x, ext |-> ext, xs |-> acc.xs]
    ELSE LET e == plan[k] IN
         IF e.t = "skip" THEN Run(S, indr, plan, k + 1, cur + e.siz, acc, ext)
         ELSE IF e.t = "extrapolate" THEN Run(S, indr, plan, k + 1, cur, acc, ext + e.siz)
         ELSE \* read
              IF e.fr = NoneF
              THEN (IF cur = 0 /\ e.siz = indr /\ indr > 0 /\ ~acc.x
                    THEN Run(S, indr, plan, k + 1, cur + e.siz, [acc EXCEPT !.x = TRUE], ext)
                    ELSE [ok |-> FALSE, cur |-> cur, cells |-> acc.cells, x |-> acc.x, ext |-> ext, xs |-> acc.xs])
              ELSE LET withX == e.c0 = NoneC
                       c0 == IF withX THEN 0 ELSE e.c0
                       want == IF withX THEN 0 ELSE ChOff(S, indr, e.fr, c0)
                       size == (IF withX THEN indr ELSE 0) + RangeSize(S, c0, e.c1)
                   IN IF cur = want /\ e.siz = size /\ (withX => (e.fr = 0 /\ indr > 0 /\ ~acc.x))
                         /\ (indr > 0 => (ext = e.fr) \/ withX)
                      THEN Run(S, indr, plan, k + 1, cur + e.siz,
                               [cells |-> acc.cells \cup {<<e.fr, c>> : c \in c0..e.c1}, x |-> acc.x \/ withX, xs |-> acc.xs \cup {e.fr}], ext)
                      ELSE [ok |-> FALSE, cur |-> cur, cells |-> acc.cells, x |-> acc.x, ext |-> ext, xs |-> acc.xs]

(* the abstract statement about ANY plan for the case (the transcribed planner's, or one the real planner emitted) *)
PlanJudged(S, indr, start, stop, step, chs, plan) ==
    LET r == Run(S, indr, plan, 1, 0, [cells |-> {}, x |-> FALSE, xs |-> {}], 0)
        sel == Selected(start, stop, step)
        lastf == CHOOSE f \in sel : \A g \in sel : g <= f
    IN /\ r.ok
       /\ r.cells = {<<f, chs[i]>> : f \in sel, i \in 1..Len(chs)}          \* exactly the requested cells
       /\ (indr > 0 => r.x)                                                   \* the indirect X was read (once, first)
       /\ r.cur <= indr + (lastf + 1) * FrameSize(S)                          \* never beyond the last selected frame
       /\ r.cur = indr + (lastf + 1) * FrameSize(S)                           \* and left at a frame boundary (not mid-frame)
PlanOK(S, indr, start, stop, step, chs) == PlanJudged(S, indr, start, stop, step, chs, Plan(S, indr, start, stop, step, chs))

ChSeqs == UNION {[1..n -> SizeMenu] : n \in 1..MaxCh}
SubsetsOf(n) == {SetToSortSeq(T, <) : T \in (SUBSET (0..(n - 1))) \ {{}}}
Cases == {[S |-> S, indr |-> indr, start |-> a, stop |-> b, step |-> c, chs |-> chs] :
            S \in ChSeqs, indr \in IndrMenu, a \in 0..MaxStart, b \in 1..MaxStop, c \in 1..MaxStep, chs \in SubsetsOf(MaxCh)}
ValidCase(k) == k.stop > k.start /\ \A i \in 1..Len(k.chs) : k.chs[i] < Len(k.S)
AllPlansOK == \A k \in Cases : ValidCase(k) => PlanOK(k.S, k.indr, k.start, k.stop, k.step, k.chs)

VARIABLE z
Spec == z = 0 /\ [][UNCHANGED z]_z
=============================================================================
