------------------------------- MODULE LisPhys -------------------------------
(* Design of the LIS physical record reader (PhysRec.PhysRecRead behind File.FileRead) and writer
   (PhysRecWrite.writeLr + TifMarkerWrite), checked by TLC against LisPhysAbs.

   The layout is a constant sequence PRS of physical records [lr, n, last]; the reader's state is the
   code's: current PR, index into its logical data, mustReadHead, EOF, start of LR, successor bit of
   the last header read.  Every public operation is applied to the abstract cursor and to the design
   state side by side; TLC explores every operation sequence (the state space is finite without any
   history) and checks that results, tellLr and the projected cursor always agree. *)
EXTENDS LisPhysAbs, TLC

CONSTANTS Layouts,    \* set of layouts; each a sequence of [lr, n, last]
          Sizes       \* sized read/skip arguments offered (each >= 1)

VARIABLES PRS, a, d, res, ares
vars == <<PRS, a, d, res, ares>>

RECURSIVE LensOfRec(_, _)
LensOfRec(prs, k) == IF ~\E i \in 1..Len(prs) : prs[i].lr = k THEN <<>>
                     ELSE <<SumN(PrsOf(prs, k))>> \o LensOfRec(prs, k + 1)
Lens == LensOfRec(PRS, 1)
FirstPr(k) == CHOOSE i \in 1..Len(PRS) : PRS[i].lr = k /\ (i = 1 \/ PRS[i - 1].lr # k)
RECURSIVE Before(_)      \* payload bytes of the same record in earlier PRs
Before(i) == IF i = 1 \/ PRS[i - 1].lr # PRS[i].lr THEN 0 ELSE PRS[i - 1].n + Before(i - 1)

(* ---- design state: d = [pi, di, mrh, nxt, eof, solr, succ, ldlen] ---- *)
DInit == [pi |-> 0, di |-> 0, mrh |-> TRUE, nxt |-> 1, eof |-> FALSE, solr |-> 0, succ |-> FALSE, ldlen |-> 0]

ReadHead(s) ==          \* PhysRecRead._readHead
    IF s.nxt > Len(PRS) THEN [s EXCEPT !.eof = TRUE]
    ELSE LET isStart == ~s.succ IN
         [s EXCEPT !.pi = s.nxt, !.di = 0, !.mrh = FALSE, !.succ = ~PRS[s.nxt].last, !.ldlen = PRS[s.nxt].n,
                   !.solr = IF isStart THEN s.nxt ELSE s.solr]
ReadTail(s) == [s EXCEPT !.mrh = TRUE, !.nxt = s.pi + 1]      \* _readTail
HasLd(s) == s.ldlen > s.di \/ s.succ

Chunk(s, n) == IF n = 0 THEN Empty ELSE <<PRS[s.pi].lr, Before(s.pi) + s.di + 1, Before(s.pi) + s.di + n>>
Join(r1, r2) == IF r1 = Empty THEN r2 ELSE IF r2 = Empty THEN r1 ELSE <<r1[1], r1[2], r2[3]>>

(* __readOrSkip with theSize < 0 *)
RECURSIVE LoopAll(_, _)
LoopAll(s, acc) ==
    LET acc1 == Join(acc, Chunk(s, s.ldlen - s.di))
        s1   == ReadTail([s EXCEPT !.di = s.ldlen])
    IN IF s.succ THEN LoopAll(ReadHead(s1), acc1) ELSE [d |-> s1, r |-> acc1]
(* __readOrSkip with theSize >= 0 *)
RECURSIVE LoopPart(_, _, _)
LoopPart(s, want, acc) ==
    IF want <= 0 THEN [d |-> s, r |-> acc]
    ELSE IF want <= s.ldlen - s.di
         THEN [d |-> [s EXCEPT !.di = s.di + want], r |-> Join(acc, Chunk(s, want))]
         ELSE LET got == s.ldlen - s.di
                  acc1 == Join(acc, Chunk(s, got))
                  s1 == [s EXCEPT !.di = s.ldlen]
              IN IF s.succ THEN LoopPart(ReadHead(ReadTail(s1)), want - got, acc1)
                           ELSE [d |-> s1, r |-> acc1]

(* _readOrSkipPreamble *)
Preamble(s) == LET s1 == IF s.mrh THEN ReadHead(s) ELSE s
               IN IF ~HasLd(s1) \/ s1.eof
                  THEN [d |-> IF s1.eof THEN s1 ELSE ReadTail(s1), go |-> FALSE]
                  ELSE [d |-> s1, go |-> TRUE]
DTake(s, n) == LET p == Preamble(s) IN
               IF ~p.go THEN [d |-> p.d, r |-> Empty]
               ELSE IF n = All THEN LoopAll(p.d, Empty) ELSE LoopPart(p.d, n, Empty)
DToNext(s) == LET t == DTake(s, All)
                  r == Count(t.r)
                  s1 == IF r # 0 /\ ~t.d.mrh THEN ReadTail(t.d) ELSE t.d
              IN [d |-> ReadHead(s1), r |-> r]
DSeek(j) == [DInit EXCEPT !.nxt = FirstPr(j)]
DTell(s) == s.solr       \* PR index of the start of the current logical record

(* ---- transition system ---- *)
Init == /\ PRS \in Layouts /\ a = AInit /\ d = DInit /\ res = Empty /\ ares = Empty
OpTake(n) == /\ ~a.mode = "eof" /\ ~d.eof
             /\ LET ta == Take(Lens, a, n) td == DTake(d, n)
                IN a' = ta.a /\ d' = td.d /\ ares' = ta.r /\ res' = td.r
             /\ UNCHANGED PRS
OpToNext == /\ ~a.mode = "eof" /\ ~d.eof
            /\ LET ta == ToNext(Lens, a) td == DToNext(d)
               IN a' = ta.a /\ d' = td.d /\ ares' = <<ta.r>> /\ res' = <<td.r>>
            /\ UNCHANGED PRS
OpSeek(j) == /\ j \in 1..Len(Lens)
             /\ a' = Seek(a, j) /\ d' = DSeek(j) /\ ares' = Empty /\ res' = Empty /\ UNCHANGED PRS
Next == (\E n \in Sizes \cup {All} : OpTake(n)) \/ OpToNext \/ (\E j \in 1..8 : OpSeek(j))
Spec == Init /\ [][Next]_vars

(* ---- refinement ---- *)
ResultsAgree == res = ares
EofAgrees == (a.mode = "eof") = d.eof
TellAgrees == a.told # 0 => (d.solr # 0 /\ d.solr = FirstPr(a.told))
CursorAgrees ==
    CASE a.mode = "in" -> /\ ~d.mrh /\ PRS[d.pi].lr = a.k /\ Before(d.pi) + d.di = a.o
      [] a.mode = "fresh" -> d.mrh /\ (a.j <= Len(Lens) => d.nxt = FirstPr(a.j)) /\ (a.j > Len(Lens) => d.nxt = Len(PRS) + 1)
      [] OTHER -> TRUE

(* ---- writer design: greedy split of PhysRecWrite.writeLr and the TIF accumulators ---- *)
RECURSIVE Greedy(_, _, _)
Greedy(k, L, maxpay) == IF L <= maxpay THEN <<[lr |-> k, n |-> L, last |-> TRUE]>>
                        ELSE <<[lr |-> k, n |-> maxpay, last |-> FALSE]>> \o Greedy(k, L - maxpay, maxpay)
RECURSIVE GreedyAll(_, _, _)
GreedyAll(ls, k, maxpay) == IF k > Len(ls) THEN <<>> ELSE Greedy(k, ls[k], maxpay) \o GreedyAll(ls, k + 1, maxpay)
WriterRefines == \A ls \in UNION {[1..m -> 2..7] : m \in 1..3}, mp \in 1..4 : ValidSplit(ls, GreedyAll(ls, 1, mp))
=============================================================================
