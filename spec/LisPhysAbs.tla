----------------------------- MODULE LisPhysAbs -----------------------------
(* Abstract meaning of the LIS-79 physical layer as seen through TotalDepth.LIS.core.File:
   a file IS a sequence of logical records with payload lengths Lens[k] >= 2 and start positions;
   the reader is a cursor (record, offset) with the end-of-record protocol of FileRead:

     fresh(j)   positioned at the start of record j, nothing of it read yet (initially j = 1; after
                seekLr; after record j-1 has been closed)
     in(k, o)   the head of record k has been read and o of its Lens[k] bytes consumed; o = Lens[k]
                is "drained": the next read/skip returns empty and closes the record
     eof        an operation found no further record

   A result is a byte range <<k, from, to>> (1-based payload offsets, to >= from) or Empty.
   None and b'' are both Empty; skips return counts. *)
EXTENDS Integers, Sequences, FiniteSets

Empty == <<>>
Rng(k, a, b) == IF b < a THEN Empty ELSE <<k, a, b>>
Min2(a, b) == IF a < b THEN a ELSE b
All == -1          \* size argument meaning "the rest of the record"

AInit == [mode |-> "fresh", j |-> 1, k |-> 0, o |-> 0, told |-> 0]

(* enter record j if fresh; at the end of the file turn to eof *)
Enter(Lens, a) == IF a.mode = "fresh"
                  THEN IF a.j > Len(Lens) THEN [a EXCEPT !.mode = "eof"]
                       ELSE [a EXCEPT !.mode = "in", !.k = a.j, !.o = 0, !.told = a.j]
                  ELSE a

(* readLrBytes(n) / skipLrBytes(n), n >= 1 or All: returns [a |-> new state, r |-> range] *)
Take(Lens, a0, n) ==
    LET a == Enter(Lens, a0) IN
    IF a.mode = "eof" THEN [a |-> a, r |-> Empty]
    ELSE LET L == Lens[a.k] IN
         IF a.o = L THEN [a |-> [a EXCEPT !.mode = "fresh", !.j = a.k + 1], r |-> Empty]     \* drained: close
         ELSE IF n = All THEN [a |-> [a EXCEPT !.mode = "fresh", !.j = a.k + 1, !.o = L], r |-> Rng(a.k, a.o + 1, L)]
         ELSE LET hi == Min2(L, a.o + n) IN [a |-> [a EXCEPT !.o = hi], r |-> Rng(a.k, a.o + 1, hi)]

Count(r) == IF r = Empty THEN 0 ELSE r[3] - r[2] + 1

(* skipToNextLr: skip the rest of the current record (a fresh cursor first enters its record), then
   read the head of the following one; returns the number of bytes skipped *)
ToNext(Lens, a0) ==
    LET t == Take(Lens, a0, All) IN
    IF t.a.mode = "eof" THEN [a |-> t.a, r |-> 0]
    ELSE [a |-> Enter(Lens, t.a), r |-> Count(t.r)]

Seek(a, j) == [mode |-> "fresh", j |-> j, k |-> 0, o |-> 0, told |-> 0]
(* tellLr() is the start position of record told, when told # 0 *)

(* ---- format: a valid physical split of record lengths (LIS-79 2.3.1) ---- *)
(* prs: sequence of [lr, n, last] in file order *)
RECURSIVE SumN(_)
SumN(s) == IF s = <<>> THEN 0 ELSE s[1].n + SumN(Tail(s))
PrsOf(prs, k) == SelectSeq(prs, LAMBDA p : p.lr = k)
ValidSplit(Lens, prs) ==
    /\ \A i \in 1..Len(prs) : prs[i].n >= 1 /\ prs[i].lr \in 1..Len(Lens)
    /\ \A i \in 1..(Len(prs) - 1) : prs[i + 1].lr = IF prs[i].last THEN prs[i].lr + 1 ELSE prs[i].lr
    /\ (prs # <<>> => prs[1].lr = 1 /\ prs[Len(prs)].last /\ prs[Len(prs)].lr = Len(Lens))
    /\ \A k \in 1..Len(Lens) : SumN(PrsOf(prs, k)) = Lens[k]
TailLen(p) == 2 * p.rn + 2 * p.fn + 2 * p.ck
PrLen(p) == 4 + p.n + TailLen(p)
=============================================================================
