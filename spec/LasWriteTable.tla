---------------------------- MODULE LasWriteTable ----------------------------
(* Oracle table for C10: the abstract listing Expected(array, request) for every array and request in the bound. *)
EXTENDS LasWrite, Json, IOUtils, SequencesExt
Rows == { [array |-> a, req |-> SetToSeq(r), expected |-> Expected(a, r)] : a \in Arrays, r \in Requests }
ASSUME JsonSerialize(IOEnv.OUT_TABLE, SetToSeq(Rows))
=============================================================================
