------------------------------ MODULE FilmTrack ------------------------------
(* util/plot/FILMCfg.py PhysFilmCfg.interpretTrac: what a LIS PRES table's TRAC string (b'T1  ', b'T23 ', b'LHT2', b'TD  ',
   b'F4  ') means on a film - the left and right edge a curve is scaled into (C19: "within its assigned track") and the pair
   (halfTrackStart, numHalfTracks) that stacks the curve's scale in the plot header and footer.

   A film is a sequence of tracks (index 0..), each with a left and a right edge; one of them is the depth track.  The notation
       [LH|RH] (T|F) (digit|D) [digit]
   T counts the three log tracks 1, 2, 3 around the depth track (T1 is track index 0, the depth track is index 1, T2 is 2,
   T3 is 3), F counts four tracks by index, D is the depth track, a second digit makes a span, LH / RH take a half.

   Design (as coded):
       from := D -> first depth track | T1 -> 0 | otherwise the digit;   hs := 2 * from
       LH: right := centre, nh := 1        RH: left := centre, hs := hs + 1, nh := 1       (a second digit is ignored)
       second digit d:  right := right of track d (NOT renumbered), nh := 2 * (d + 1 - from)
       otherwise nh := 2
       a track index beyond the film raises.

   Abstract: the film is a row of half-track cells, cell k = the left (k even) or right (k odd) half of track k \div 2.  A TRAC
   string names a run of cells [hs, hs + nh): the curve's edges are the left edge of the first and the right edge of the last
   cell of its run (CellsMatchEdges) - the scale in the header sits exactly above the curve; half tracks are halves of the
   whole track (HalvesPartition); a whole-track or half-track string lies inside the film (InsideFilm).

   Named deviations of the code from the simple reading of the notation, each REFUTED by TLC and replayed:
       SpanOrdered          T32: left of T3 .. right of T2 - left > right, no cells
       SecondDigitIsATrack  T11 / T21: the second digit is an index, not a track number: T11 ends at the depth track
       TZeroRefused         T0 is accepted and means T1                                                              *)
EXTENDS Integers, Sequences, FiniteSets, TLC

CONSTANTS Films           \* set of films; a film is a sequence of [l |-> Int, r |-> Int, depth |-> BOOLEAN] (edges in 1/20 inch)

Pre == {"", "LH", "RH"}
Kind == {"T", "F"}
D == -1                                   \* the letter D in the place of the first digit
First == {D, 0, 1, 2, 3, 4, 5}
Second == {-1, 0, 1, 2, 3, 4, 5}          \* -1: no second digit
Tracs == [pre : Pre, kind : Kind, first : First, second : Second]

Err == [ok |-> FALSE, l |-> 0, r |-> 0, hs |-> 0, nh |-> 0]
Idx(film, i) == i + 1                      \* TLA+ sequences start at 1
Has(film, i) == i >= 0 /\ i < Len(film)
Tr(film, i) == film[i + 1]

(* ---- design ---- *)
DepthIdx(film) == IF \E i \in 0..(Len(film) - 1) : Tr(film, i).depth
                  THEN CHOOSE i \in 0..(Len(film) - 1) : Tr(film, i).depth /\ \A j \in 0..(i - 1) : ~Tr(film, j).depth
                  ELSE Len(film) - 1       \* the loop variable after an unsuccessful search: the last index
From(film, t) == IF t.first = D THEN DepthIdx(film)
                 ELSE IF t.kind = "T" /\ t.first = 1 THEN 0 ELSE t.first
Design(film, t) ==
    LET f == From(film, t) IN
    IF ~Has(film, f) THEN Err
    ELSE LET pl == Tr(film, f).l
             pr == Tr(film, f).r
             c2 == pl + pr             \* twice the centre line
         IN IF t.pre = "LH" THEN [ok |-> TRUE, l |-> 2 * pl, r |-> c2, hs |-> 2 * f, nh |-> 1]
            ELSE IF t.pre = "RH" THEN [ok |-> TRUE, l |-> c2, r |-> 2 * pr, hs |-> 2 * f + 1, nh |-> 1]
            ELSE IF t.second # -1
            THEN (IF ~Has(film, t.second) THEN Err
                  ELSE [ok |-> TRUE, l |-> 2 * pl, r |-> 2 * Tr(film, t.second).r, hs |-> 2 * f, nh |-> 2 * (t.second + 1 - f)])
            ELSE [ok |-> TRUE, l |-> 2 * pl, r |-> 2 * pr, hs |-> 2 * f, nh |-> 2]
\* (edges are kept doubled so that centre lines stay integers)

(* ---- abstract: half-track cells ---- *)
CellL(film, k) == LET tr == Tr(film, k \div 2) IN IF k % 2 = 0 THEN 2 * tr.l ELSE tr.l + tr.r
CellR(film, k) == LET tr == Tr(film, k \div 2) IN IF k % 2 = 0 THEN tr.l + tr.r ELSE 2 * tr.r
NCells(film) == 2 * Len(film)

WellFormedFilm(film) == /\ Len(film) >= 1
                        /\ \A i \in 1..Len(film) : film[i].l < film[i].r
                        /\ \A i \in 1..(Len(film) - 1) : film[i].r = film[i + 1].l        \* tracks abut
ASSUME \A film \in Films : WellFormedFilm(film)

Forward(film, t) == t.pre # "" \/ t.second = -1 \/ t.second >= From(film, t)

(* must hold *)
CellsMatchEdges == \A film \in Films : \A t \in Tracs :
    LET d == Design(film, t) IN
    (d.ok /\ Forward(film, t)) => /\ d.nh >= 1 /\ d.hs >= 0 /\ d.hs + d.nh <= NCells(film)
                                  /\ d.l = CellL(film, d.hs) /\ d.r = CellR(film, d.hs + d.nh - 1)
HalvesPartition == \A film \in Films : \A k \in Kind : \A f \in First :
    LET w == Design(film, [pre |-> "", kind |-> k, first |-> f, second |-> -1])
        a == Design(film, [pre |-> "LH", kind |-> k, first |-> f, second |-> -1])
        b == Design(film, [pre |-> "RH", kind |-> k, first |-> f, second |-> -1])
    IN /\ a.ok = w.ok /\ b.ok = w.ok
       /\ w.ok => /\ a.l = w.l /\ a.r = b.l /\ b.r = w.r /\ a.r - a.l = b.r - b.l
                  /\ a.hs = w.hs /\ b.hs = w.hs + 1 /\ a.nh + b.nh = w.nh
InsideFilm == \A film \in Films : \A t \in Tracs :
    LET d == Design(film, t) IN (d.ok /\ Forward(film, t)) => d.l >= 2 * film[1].l /\ d.r <= 2 * film[Len(film)].r /\ d.l < d.r
SpanIsUnion == \A film \in Films : \A t \in Tracs :      \* a span covers exactly the tracks from..second, depth track included
    LET d == Design(film, t) IN
    (d.ok /\ t.pre = "" /\ t.second # -1 /\ t.second >= From(film, t)) =>
        d.r - d.l = 2 * (Tr(film, t.second).r - Tr(film, From(film, t)).l)
RaisesOnlyBeyondFilm == \A film \in Films : \A t \in Tracs :
    ~Design(film, t).ok <=> (~Has(film, From(film, t)) \/ (t.pre = "" /\ t.second # -1 /\ ~Has(film, t.second)))

(* named deviations: each must be refuted *)
SpanOrdered == \A film \in Films : \A t \in Tracs : LET d == Design(film, t) IN d.ok => d.l < d.r /\ d.nh >= 1
TrackOf(film, t, digit) == IF t.kind = "T" /\ digit = 1 THEN 0 ELSE digit
SecondDigitIsATrack == \A film \in Films : \A t \in Tracs :
    LET d == Design(film, t) IN
    (d.ok /\ t.pre = "" /\ t.second # -1 /\ Has(film, TrackOf(film, t, t.second))) => d.r = 2 * Tr(film, TrackOf(film, t, t.second)).r
TZeroRefused == \A film \in Films : \A t \in Tracs : (t.kind = "T" /\ t.first = 0) => ~Design(film, t).ok

VARIABLE z
Spec == z = 0 /\ [][UNCHANGED z]_z
=============================================================================
