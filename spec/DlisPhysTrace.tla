---------------------------- MODULE DlisPhysTrace ----------------------------
(* Trace validation for the RP66V1 physical layer (C01, C02).

   A trace has three parts, all judged by this specification:
   1. the LAYOUT as writer events ("seg"*, "endwrite"): each must be an enabled Emit of DlisPhys, so a
      file that is not conformant rejects the INPUT (phase "write": reported as a machinery error, never
      as a violation), and the true positions / extents used below are derived here, by the specification;
   2. what the real sequential reader did: "sul", "yield"*, "eof";
   3. what the real index did: "index"*, "indexlen", and any history of "get" events (with the file reads
      observed between the call and its return).
   Everything is compared with DlisAbs only. *)
EXTENDS DlisPhys, Json, IOUtils

Data == JsonDeserialize(IOEnv.TRACE_FILE)
Traces == Data.traces

VARIABLES tid, l,
          phase,    \* "write" while the layout is being replayed, then "read"
          idx,      \* per record: [vrpos, lrshpos] of its first segment (the truth, from the writer)
          rext,     \* per record: [lo, hi) byte interval of the visible records that hold it (hi = 0: still open)
          ny,       \* records yielded by the sequential reader so far
          ni        \* index entries reported so far
tvars == <<tid, l, phase, idx, rext, ny, ni, fvars>>

R  == Data.recs[tid]
VM == Data.vm[tid]
Ev == Traces[tid][l]
More == l <= Len(Traces[tid])

TInit == /\ tid \in 1..Len(Traces) /\ l = 1 /\ phase = "write"
         /\ idx = <<>> /\ rext = <<>> /\ ny = 0 /\ ni = 0
         /\ PInit

(* close the extents of the finished records that ended in the visible record being closed at p *)
CloseExt(ext, upto, p) == [i \in 1..Len(ext) |-> IF ext[i].hi = 0 /\ i <= upto THEN [lo |-> ext[i].lo, hi |-> p] ELSE ext[i]]

Seg == /\ More /\ Ev.op = "seg" /\ phase = "write"
       /\ LET s == [n |-> Ev.n, pad |-> Ev.pad, ck |-> Ev.ck, tr |-> Ev.tr, padbit |-> Ev.padbit]
              newrec == (off = 0 /\ nseg = 0)
              segpos == IF Ev.nv THEN pos + VRHdr ELSE pos
              vrp    == IF Ev.nv THEN pos ELSE vrpos
              ext1   == IF Ev.nv THEN CloseExt(rext, k - 1, pos) ELSE rext
          IN /\ Emit(R, VM, s, Ev.nv)
             /\ idx' = IF newrec THEN Append(idx, [vrpos |-> vrp, lrshpos |-> segpos]) ELSE idx
             /\ rext' = IF newrec THEN Append(ext1, [lo |-> vrp, hi |-> 0]) ELSE ext1
       /\ UNCHANGED <<phase, ny, ni>>

EndWrite == /\ More /\ Ev.op = "endwrite" /\ phase = "write"
            /\ Finished(R) /\ vrfill >= VRMin /\ YieldExact(R) /\ rerr = ""
            /\ Ev.size = pos
            /\ rext' = CloseExt(rext, Len(rext), pos)
            /\ phase' = "read"
            /\ UNCHANGED <<idx, ny, ni, fvars>>

RQ(cond) == More /\ phase = "read" /\ cond /\ UNCHANGED <<phase, idx, rext, fvars>>

Sul == RQ(Ev.op = "sul" /\ Ev.seq = Data.sul[tid].seq /\ Ev.maxlen = Data.sul[tid].maxlen
          /\ Ev.ident = Data.sul[tid].ident /\ Ev.maxlen = VM) /\ UNCHANGED <<ny, ni>>

Yield == RQ(Ev.op = "yield" /\ ny < Len(R)
            /\ [idx |-> ny + 1, kind |-> Ev.kind, type |-> Ev.type, ranges |-> Ev.ranges] = Expected(R, ny + 1))
         /\ ny' = ny + 1 /\ UNCHANGED ni
Eof == RQ(Ev.op = "eof" /\ ny = Len(R)) /\ UNCHANGED <<ny, ni>>
(* another sequential read on the same reader starts again at the first record, whatever the reader did before *)
Restart == RQ(Ev.op = "restart") /\ ny' = 0 /\ UNCHANGED ni

IndexEntry == RQ(Ev.op = "index" /\ ni < Len(R)
                 /\ Ev.vrpos = idx[ni + 1].vrpos /\ Ev.lrshpos = idx[ni + 1].lrshpos
                 /\ Ev.kind = R[ni + 1].kind /\ Ev.type = R[ni + 1].type)
              /\ ni' = ni + 1 /\ UNCHANGED ny
IndexLen == RQ(Ev.op = "indexlen" /\ Ev.n = Len(R) /\ ni = Len(R)) /\ UNCHANGED <<ny, ni>>

Get == RQ(Ev.op = "get" /\ Ev.k \in 1..Len(R) /\ Ev.off >= 0
          /\ Ev.ranges = GetAbs(R[Ev.k].len, Ev.off, Ev.len)
          /\ Ev.kind = R[Ev.k].kind /\ Ev.type = R[Ev.k].type
          \* locality: the visible records holding a record are contiguous, so every read lies inside them iff
          \* the lowest position read and the highest end of a read do (rlo = rhi = -1: nothing was read)
          /\ (Ev.rlo >= 0 => Ev.rlo >= rext[Ev.k].lo /\ Ev.rhi <= rext[Ev.k].hi))
       /\ UNCHANGED <<ny, ni>>

Done == ~More /\ UNCHANGED <<phase, idx, rext, ny, ni, fvars>>
TNext == \/ (Seg \/ EndWrite \/ Sul \/ Yield \/ Eof \/ Restart \/ IndexEntry \/ IndexLen \/ Get) /\ l' = l + 1 /\ UNCHANGED tid
         \/ Done /\ UNCHANGED <<tid, l>>
TSpec == TInit /\ [][TNext]_tvars
=============================================================================
