---------------------------- MODULE SliceSelTrace ----------------------------
(* Trace validation of TotalDepth.common.Slice: each trace is the sequence of calls made on ONE selector
   object (possibly with many different lengths), recorded with arguments and results; every event must be
   allowed by SliceSelAbs.  A rejected trace deadlocks at (tid, l). *)
EXTENDS SliceSelAbs, Json, IOUtils

Data == JsonDeserialize(IOEnv.TRACE_FILE)
Traces == Data.traces

VARIABLES tid, l, sel
tvars == <<tid, l, sel>>

V(x) == IF Len(x) = 0 THEN NoneV ELSE x[1]
Ev == Traces[tid][l]
More == l <= Len(Traces[tid])

TInit == tid \in 1..Len(Traces) /\ l = 1 /\ sel = [kind |-> "none"]

NewSlice == /\ More /\ Ev.op = "new_slice"
            /\ sel' = [kind |-> "slice", a |-> V(Ev.a), b |-> V(Ev.b), c |-> V(Ev.c)]
NewSample == /\ More /\ Ev.op = "new_sample" /\ Ev.N >= 1
             /\ sel' = [kind |-> "sample", N |-> Ev.N]

(* the abstract answer: for a slice it is unique, for a sample any spread satisfying SampleAbs *)
IdxOK(n, r) == IF sel.kind = "slice" THEN r = PySliceAny(sel.a, sel.b, sel.c, n)
               ELSE SampleAbs(sel.N, n, r)
CountOK(n, r) == IF sel.kind = "slice" THEN r = PyCountAny(sel.a, sel.b, sel.c, n) ELSE r = Min2(sel.N, n)
FirstOK(n, r) == IF sel.kind = "slice" THEN (PyCountAny(sel.a, sel.b, sel.c, n) > 0 => r = PySliceAny(sel.a, sel.b, sel.c, n)[1])
                 ELSE (n > 0 => r = 0)

Indices == More /\ Ev.op \in {"indices", "gen_indices"} /\ sel.kind # "none" /\ IdxOK(Ev.n, Ev.r) /\ UNCHANGED sel
Count   == More /\ Ev.op = "count" /\ sel.kind # "none" /\ CountOK(Ev.n, Ev.r) /\ UNCHANGED sel
First   == More /\ Ev.op = "first" /\ sel.kind # "none" /\ FirstOK(Ev.n, Ev.r) /\ UNCHANGED sel
Done    == ~More /\ UNCHANGED sel

TNext == \/ (NewSlice \/ NewSample \/ Indices \/ Count \/ First) /\ l' = l + 1 /\ UNCHANGED tid
         \/ Done /\ UNCHANGED <<tid, l>>
TSpec == TInit /\ [][TNext]_tvars
=============================================================================
