---------------------------- MODULE SliceSelTrace ----------------------------
(* Trace validation of TotalDepth.common.Slice: each trace is the sequence of calls made on ONE selector
   object (possibly with many different lengths), recorded with arguments and results; every event must be
   allowed by SliceSelAbs.  A rejected trace deadlocks at (tid, l). *)
EXTENDS SliceSelAbs, Json, IOUtils

Data == JsonDeserialize(IOEnv.TRACE_FILE)
Traces == Data.traces

VARIABLES tid, l, sel,
          seen      \* per length n the index list this selector reported first: later reports for the same n must be the same list
tvars == <<tid, l, sel, seen>>

V(x) == IF Len(x) = 0 THEN NoneV ELSE x[1]
Ev == Traces[tid][l]
More == l <= Len(Traces[tid])

TInit == tid \in 1..Len(Traces) /\ l = 1 /\ sel = [kind |-> "none"] /\ seen = <<>>

NewSlice == /\ More /\ Ev.op = "new_slice"
            /\ sel' = [kind |-> "slice", a |-> V(Ev.a), b |-> V(Ev.b), c |-> V(Ev.c)] /\ seen' = <<>>
NewSample == /\ More /\ Ev.op = "new_sample" /\ Ev.N >= 1
             /\ sel' = [kind |-> "sample", N |-> Ev.N] /\ seen' = <<>>

(* the abstract answer: for a slice it is unique, for a sample any spread satisfying SampleAbs *)
IdxOK(n, r) == IF sel.kind = "slice" THEN r = PySliceAny(sel.a, sel.b, sel.c, n)
               ELSE SampleAbs(sel.N, n, r)
CountOK(n, r) == IF sel.kind = "slice" THEN r = PyCountAny(sel.a, sel.b, sel.c, n) ELSE r = Min2(sel.N, n)
FirstOK(n, r) == IF sel.kind = "slice" THEN (PyCountAny(sel.a, sel.b, sel.c, n) > 0 => r = PySliceAny(sel.a, sel.b, sel.c, n)[1])
                 ELSE (n > 0 => r = 0)

(* "the generated indices and the index list agree with each other": a sample admits several valid spreads, but one selector must
   report ONE of them for a given length, through indices() and gen_indices() alike.  seen is a sequence of <<n, list>> pairs. *)
SeenFor(n) == {k \in 1..Len(seen) : seen[k][1] = n}
Indices == /\ More /\ Ev.op \in {"indices", "gen_indices"} /\ sel.kind # "none" /\ IdxOK(Ev.n, Ev.r)
           /\ IF SeenFor(Ev.n) = {} THEN seen' = Append(seen, <<Ev.n, Ev.r>>)
              ELSE (\A k \in SeenFor(Ev.n) : seen[k][2] = Ev.r) /\ UNCHANGED seen
           /\ UNCHANGED sel
Count   == More /\ Ev.op = "count" /\ sel.kind # "none" /\ CountOK(Ev.n, Ev.r) /\ UNCHANGED <<sel, seen>>
First   == More /\ Ev.op = "first" /\ sel.kind # "none" /\ FirstOK(Ev.n, Ev.r) /\ UNCHANGED <<sel, seen>>
Done    == ~More /\ UNCHANGED <<sel, seen>>

TNext == \/ (NewSlice \/ NewSample \/ Indices \/ Count \/ First) /\ l' = l + 1 /\ UNCHANGED tid
         \/ Done /\ UNCHANGED <<tid, l>>
TSpec == TInit /\ [][TNext]_tvars
=============================================================================
