------------------------------- MODULE RleAbs -------------------------------
(* Abstract meaning of the run-length encodings of TotalDepth.common.Rle and TotalDepth.LIS.core.Rle:
   an RLE *is* the sequence of values that were added; the LIS frame index *is* the sequence of
   (position, frames, x) record triples.  How runs are formed is not part of the meaning. *)
EXTENDS Integers, Sequences, FiniteSets

(* ---- RLE over integers: state is the sequence vals ---- *)
ValueAbs(vals, i)   == IF i >= 0 THEN vals[i + 1] ELSE vals[Len(vals) + i + 1]   \* Python indexing
ValidIndex(vals, i) == i >= -Len(vals) /\ i < Len(vals)
CountAbs(vals)      == Len(vals)
FirstAbs(vals)      == vals[1]
LastAbs(vals)       == vals[Len(vals)]
Ascending(vals)     == \A i \in 1..(Len(vals) - 1) : vals[i] <= vals[i + 1]
StrictlyAscending(vals) == \A i \in 1..(Len(vals) - 1) : vals[i] < vals[i + 1]
Stored(vals)        == {vals[i] : i \in 1..Len(vals)}
HasLE(vals, q)      == \E v \in Stored(vals) : v <= q
LargestLEAbs(vals, q) == CHOOSE v \in Stored(vals) : v <= q /\ \A w \in Stored(vals) : w <= q => w <= v

(* ---- LIS frame index: state is the sequence recs of [pos, frames, x] ---- *)
RECURSIVE FramesBefore(_, _)
FramesBefore(recs, k) == IF k <= 1 THEN 0 ELSE FramesBefore(recs, k - 1) + recs[k - 1].frames
TotalFramesAbs(recs)  == FramesBefore(recs, Len(recs) + 1)
RecOfFrame(recs, f)   == CHOOSE k \in 1..Len(recs) : FramesBefore(recs, k) <= f /\ f < FramesBefore(recs, k + 1)
FrameLocAbs(recs, f)  == LET k == RecOfFrame(recs, f) IN [pos |-> recs[k].pos, off |-> f - FramesBefore(recs, k)]
=============================================================================
