------------------------------ MODULE DlisIndex ------------------------------
(* Random access to one logical record through the index: FileRead.get_file_logical_data(position,
   offset, length) re-walks the record's segments from the recorded position and keeps the slice
   [offset, offset+length) of the record's payload.

   Abstract : GetAbs(L, off, len)  - the slice of a payload of length L.
   Design   : the segment loop with its counters (bytes_read, logical_data_index), one step per segment.
   TLC checks the design against the abstract slice for every split of a payload into <= MaxSegs
   segments with sizes from SegSizes and every (offset, length) in range. *)
EXTENDS DlisAbs, TLC

CONSTANTS SegSizes, MaxSegs, All      \* All = -1 (whole record) passed as a definition

RECURSIVE Sum(_)
Sum(ns) == IF ns = <<>> THEN 0 ELSE ns[1] + Sum(Tail(ns))

VARIABLES ns,          \* payload bytes per segment of the record (after pad stripping)
          goff, glen,  \* the arguments
          i,           \* segment being visited (1-based); Len(ns)+1 when the loop has ended
          base,        \* payload bytes before segment i
          bytesRead,   \* bytes_read
          ldIndex,     \* logical_data_index
          acc,         \* ranges added to the result
          bodyReads    \* number of segment bodies actually read (efficiency, not correctness)
vars == <<ns, goff, glen, i, base, bytesRead, ldIndex, acc, bodyReads>>

SegSeqs == UNION {[1..m -> SegSizes] : m \in 1..MaxSegs}
Init == /\ ns \in SegSeqs
        /\ goff \in 0..(Sum(ns) + 1)
        /\ glen \in {All} \cup 0..(Sum(ns) + 1)
        /\ i = 1 /\ base = 0 /\ bytesRead = 0 /\ ldIndex = 0 /\ acc = <<>> /\ bodyReads = 0

allBytes == goff = 0 /\ glen < 0

Step == /\ i <= Len(ns)
        /\ LET n == ns[i] IN
           IF allBytes \/ bytesRead # glen
           THEN /\ bodyReads' = bodyReads + 1
                /\ IF allBytes
                   THEN /\ acc' = AppendRange(acc, base + 1, base + n)
                        /\ UNCHANGED <<bytesRead, ldIndex>>
                   ELSE LET from == Max2(0, goff - ldIndex)
                            to   == IF glen >= 0 THEN from + glen - bytesRead ELSE n
                            lo   == Min2(from, n)                 \* Python slice clamping
                            hi   == Max2(lo, Min2(to, n))
                        IN /\ acc' = AppendRange(acc, base + lo + 1, base + hi)
                           /\ bytesRead' = bytesRead + (hi - lo)
                           /\ ldIndex' = ldIndex + n
           ELSE UNCHANGED <<acc, bytesRead, ldIndex, bodyReads>>
        /\ base' = base + ns[i]
        /\ i' = i + 1
        /\ UNCHANGED <<ns, goff, glen>>

Spec == Init /\ [][Step]_vars

Done == i = Len(ns) + 1
SliceRefines == Done => acc = GetAbs(Sum(ns), goff, glen)
(* at every step what has been kept is the part of the abstract slice that lies in the visited segments *)
PrefixRefines == LET want == GetAbs(Sum(ns), goff, glen)
                 IN acc = IF want = <<>> \/ want[1][1] > base THEN <<>>
                          ELSE << <<want[1][1], Min2(want[1][2], base)>> >>
NeverOverRead == glen >= 0 => bytesRead <= glen
=============================================================================
