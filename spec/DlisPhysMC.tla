----------------------------- MODULE DlisPhysMC -----------------------------
(* Bounded instance of DlisPhys for TLC: a fixed record sequence, menus of segment choices.
   Design configuration: CONSTRAINT/VIEW hide hist (frontier only).  Export configuration: hist kept,
   every terminal state is one complete conformant layout. *)
EXTENDS DlisPhys

CONSTANTS Recs,      \* the logical records
          VRMax,     \* SUL maximum visible record length
          Chunks,    \* menu of payload chunk sizes (the remainder is always offered too)
          PadExtra,  \* menu of extra pad amounts on top of the minimum legal pad (even numbers)
          MaxSegs    \* at most this many segments per record

VARIABLE hist      \* the layout: sequence of segment choices [n, pad, ck, tr, padbit, nv]
vars == <<fvars, hist>>

Rem == Recs[k].len - off
NChoices == {c \in Chunks : c >= 1 /\ c < Rem} \cup {Rem}
(* minimum pad that makes the segment even and >= 16 *)
MinPad(n, ck, tr) == LET base == SegHdr + n + 2 * ck + 2 * tr
                         need == IF base < SegMin THEN SegMin - base ELSE base % 2
                     IN need
PadChoices(n, ck, tr) ==
    IF k <= Len(Recs) /\ Recs[k].enc THEN {0}
    ELSE LET m == MinPad(n, ck, tr) IN {p \in {m} \cup {m + e : e \in PadExtra} \cup {255 - ((255 + m) % 2)} : p <= 255}
SegChoices == { [n |-> n, pad |-> p, ck |-> c, tr |-> t, padbit |-> b] :
                  n \in NChoices, c \in {0, 1}, t \in {0, 1}, p \in 0..255, b \in BOOLEAN }

MCNext == /\ k <= Len(Recs)
          /\ \E n \in NChoices, c \in {0, 1}, t \in {0, 1} :
               \E p \in PadChoices(n, c, t), b \in BOOLEAN, nv \in BOOLEAN :
                  /\ (nseg + 1 = MaxSegs => n = Rem)
                  /\ Emit(Recs, VRMax, [n |-> n, pad |-> p, ck |-> c, tr |-> t, padbit |-> b], nv)
                  /\ hist' = Append(hist, [n |-> n, pad |-> p, ck |-> c, tr |-> t, padbit |-> b, nv |-> nv])
MCSpec == PInit /\ hist = <<>> /\ [][MCNext]_vars

FrontierView == fvars
MCYieldExact == YieldExact(Recs)
MCYieldInOrder == YieldInOrder(Recs)
MCAllYielded == AllYielded(Recs)
MCVRLegal == VRLegal(VRMax)
(* every record can always be completed (no dead ends in the writer other than the end) *)
MCNoDeadEnd == Finished(Recs) \/ ENABLED MCNext
=============================================================================
