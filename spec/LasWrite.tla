------------------------------ MODULE LasWrite ------------------------------
(* Writing a frame array as a LAS ~Curve section, ~A heading and data rows
   (TotalDepth.LAS.core.WriteLAS.write_curve_and_array_section_to_las).

   A frame array is a sequence of distinct channel names, the first being the X axis.  A request is a set of
   names (possibly naming channels that do not exist); the empty request means "all channels".
   Abstract property (SameChannels): the three listings - curve section, column heading, data columns - are equal
   and are the X axis followed by the requested channels in frame-array order.
   Design: the three predicates of the three writer functions; the request set is a MUTABLE object shared by the
   caller: the X axis name is added to it in place before the heading and the rows are written.
   History part: the same request object is passed to successive frame arrays (several log passes / files in one
   process, as the converters do); RequestUnchanged / SameChannels over such histories is where the in-place
   addition shows (see DESIGN.md, finding F16). *)
EXTENDS Integers, Sequences, FiniteSets, TLC

CONSTANTS Names,        \* channel name universe
          Foreign,      \* a requested name that no frame array has
          MaxChannels, MaxArrays

Arrays == {a \in UNION {[1..n -> Names] : n \in 1..MaxChannels} : \A i, j \in 1..Len(a) : i # j => a[i] # a[j]}
Requests == SUBSET (Names \cup {Foreign})

Filter(a, P(_, _)) == LET F[i \in 0..Len(a)] == IF i = 0 THEN <<>> ELSE IF P(i, a[i]) THEN Append(F[i - 1], a[i]) ELSE F[i - 1]
                      IN F[Len(a)]
(* ---- abstract ---- *)
Expected(a, req) == Filter(a, LAMBDA i, n : req = {} \/ i = 1 \/ n \in req)

VARIABLES req0,     \* what the caller asked for (never changes)
          S,        \* the caller's set object as it is now
          nwritten, \* frame arrays written so far
          last      \* [array, curve, heading, rows] of the last write
vars == <<req0, S, nwritten, last>>

Init == req0 \in Requests /\ S = req0 /\ nwritten = 0 /\ last = [array |-> <<>>, curve |-> <<>>, heading |-> <<>>, rows |-> <<>>]

Write(a) ==
    /\ nwritten < MaxArrays
    /\ LET curve == Filter(a, LAMBDA i, n : S = {} \/ i = 1 \/ n \in S)           \* write_curve_section_to_las
           S1    == IF S # {} THEN S \cup {a[1]} ELSE S                            \* _add_x_axis_to_channels_to_write
           head  == Filter(a, LAMBDA i, n : S1 = {} \/ i = 1 \/ n \in S1)         \* write_array_section_header_to_las
           rows  == Filter(a, LAMBDA i, n : S1 = {} \/ n \in S1)                  \* write_array_section_data_to_las
       IN /\ last' = [array |-> a, curve |-> curve, heading |-> head, rows |-> rows]
          /\ S' = S1
    /\ nwritten' = nwritten + 1 /\ UNCHANGED req0
Next == \E a \in Arrays : Write(a)
Spec == Init /\ [][Next]_vars

(* C10: one frame array with a fresh request *)
SameChannelsFirst == nwritten = 1 =>
    /\ last.curve = last.heading /\ last.heading = last.rows
    /\ last.curve = Expected(last.array, req0)
(* histories: the listings of every later write still answer the ORIGINAL request *)
SameChannelsAlways == nwritten >= 1 =>
    /\ last.curve = last.heading /\ last.heading = last.rows
    /\ last.curve = Expected(last.array, req0)
RequestUnchanged == S = req0
=============================================================================
