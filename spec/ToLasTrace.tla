--------------------------- MODULE ToLasTrace ---------------------------
(* Trace validation for C11: each trace is one real conversion run of single_rp66v1_file_to_las / single_lis_file_to_las /
   single_bit_path_to_las_path on one generated file:

     run     the selector and the ORIGINAL channel request handed to the converter, whether the file is of the
             converter's own format
     pass    one per log pass of the source file, in file order: the pass as generated (n, names, scaled X) and what
             the output file for it contains (projected by the harness from the text: rows -> source frame by unique X,
             columns -> position of the name in the pass, printed STRT/STOP/STEP -> scaled integers)
     result  the LASWriteResult tuple and the number of output files found

   Every event must be allowed by ToLasAbs.  A rejected trace deadlocks at (tid, l). *)
EXTENDS ToLasAbs, Json, IOUtils

Data == JsonDeserialize(IOEnv.TRACE_FILE)
Traces == Data.traces
VARIABLES tid, l, sel, req, mine, okfiles, failed, nodata
tvars == <<tid, l, sel, req, mine, okfiles, failed, nodata>>
Ev == Traces[tid][l]
More == l <= Len(Traces[tid])

V(x) == IF Len(x) = 0 THEN NoneV ELSE x[1]
SetOf(s) == {s[i] : i \in 1..Len(s)}

TInit == tid \in 1..Len(Traces) /\ l = 1 /\ sel = [kind |-> "none"] /\ req = {} /\ mine = TRUE /\ okfiles = 0 /\ failed = 0 /\ nodata = 0

Run == /\ More /\ Ev.op = "run" /\ sel.kind = "none"
       /\ sel' = IF Ev.sel.kind = "slice" THEN [kind |-> "slice", a |-> V(Ev.sel.a), b |-> V(Ev.sel.b), c |-> V(Ev.sel.c)]
                 ELSE [kind |-> "sample", N |-> Ev.sel.N]
       /\ req' = SetOf(Ev.req)
       /\ mine' = Ev.mine
       /\ UNCHANGED <<okfiles, failed, nodata>>

Pass == /\ More /\ Ev.op = "pass" /\ sel.kind # "none" /\ mine
        /\ Len(Ev.xq) = Ev.n
        /\ PassOK([n |-> Ev.n, names |-> Ev.names, xq |-> Ev.xq], sel, req, Ev.out)
        /\ okfiles' = okfiles + (IF Ev.out.status = "ok" THEN 1 ELSE 0)
        /\ failed' = failed + (IF Ev.out.status = "failed" THEN 1 ELSE 0)
        /\ nodata' = nodata + (IF Ev.out.status = "nodata" THEN 1 ELSE 0)
        /\ UNCHANGED <<sel, req, mine>>

(* the result tuple: ignored exactly for foreign files (which produce nothing); the exception flag may only be set when a
   pass could not be written (only allowed for empty selections, see PassOK) and must be set when an output file is
   missing; without a failure las_count counts the files written *)
Result == /\ More /\ Ev.op = "result" /\ sel.kind # "none"
          /\ GateOK(mine, Ev.ignored, Ev.outputs)
          /\ mine => /\ Ev.exception => (failed + nodata > 0)
                     /\ (failed > 0) => Ev.exception
                     /\ ~Ev.exception => Ev.las_count = okfiles + nodata
          /\ ~mine => ~Ev.exception /\ Ev.las_count = 0
          /\ UNCHANGED <<sel, req, mine, okfiles, failed, nodata>>

Done == ~More
TNext == \/ (Run \/ Pass \/ Result) /\ l' = l + 1 /\ UNCHANGED tid
         \/ Done /\ UNCHANGED tvars
TSpec == TInit /\ [][TNext]_tvars
=============================================================================
