---------------------------- MODULE SliceSelTable ----------------------------
(* Oracle table: TLC evaluates the ABSTRACT operators of SliceSelAbs on the whole bounded domain and
   writes the expected results as JSON; the harness replays every row on the real code. *)
EXTENDS SliceSelAbs, Json, IOUtils, SequencesExt

O(v) == IF v = NoneV THEN <<>> ELSE <<v>>          \* optional value as a 0/1-element sequence

SliceRows == { [a |-> O(a), b |-> O(b), c |-> O(c), n |-> n, idx |-> PySliceAny(a, b, c, n)] :
                 a \in Opt(-MaxN..MaxN), b \in Opt(-MaxN..MaxN), c \in Opt(Steps), n \in 0..MaxN }

PartSet == {PartInt(k) : k \in {-2, -1, 0, 1, 2, MaxN}} \cup {PartEmpty, PartNone, PartJunk}
PartSeqs == UNION {[1..m -> PartSet] : m \in 1..4}
OSel(s) == IF s.kind = "slice" THEN [kind |-> "slice", a |-> O(s.a), b |-> O(s.b), c |-> O(s.c)] ELSE s
ParseRows == { [parts |-> ps, res |-> OSel(ParseAbs(ps))] : ps \in PartSeqs }

ASSUME JsonSerialize(IOEnv.OUT_SLICES, SetToSeq(SliceRows))
ASSUME JsonSerialize(IOEnv.OUT_PARSE, SetToSeq(ParseRows))

VARIABLE z
Init == z = 0
Next == UNCHANGED z
Spec == Init /\ [][Next]_z
=============================================================================
