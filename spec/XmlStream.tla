------------------------------ MODULE XmlStream ------------------------------
(* TotalDepth.util.XmlWrite.XmlStream as a state machine over its public API, with the character
   encoding abstracted to character classes.

   Character classes of a string:
     "plain"     ASCII that needs no escaping          "markup"   < > &          "quote"  ' "
     "ws"        TAB LF CR (legal C0 controls)         "nonascii" any legal character above 0x7F
     "nl"        LF where it matters: XhtmlStream.charactersWithBr() writes text with every LF replaced by <br/>
     "cr"        the other line-boundary characters (CR, NEL U+0085, LS U+2028, PS U+2029): ordinary text for charactersWithBr
     "ctl"       any other C0 control (NOT an XML 1.0 character)
     "nonchar"   U+FFFE, U+FFFF, lone surrogates (NOT XML 1.0 characters)
   A string is a sequence of classes.  Tokens written for a character:
     [t |-> "raw", c]  the character itself     [t |-> "ent", c]  a predefined entity
     [t |-> "cref", c] a numeric character reference; c = "repl" is the replacement character

   Indentation white space that the writer inserts between elements of element-only content is abstracted
   away (the harness drops white-space-only text where no text is expected).

   Abstract property (Faithful / WellFormed): after the stream is closed the token sequence parses, by the
   XML grammar, into exactly the events implied by the calls, where a character of a representable class
   decodes to itself and an unrepresentable one to the replacement character. *)
EXTENDS Integers, Sequences, FiniteSets, TLC

CONSTANTS Names,       \* element names offered
          AttrVals,    \* attribute value strings offered (sequences of classes)
          Texts,       \* text strings offered
          BrTexts,     \* strings offered to charactersWithBr (may contain "nl")
          MaxCalls,
          F7           \* TRUE: model the implementation's known deviation (finding F7): a character XML cannot
                       \* represent is written as a numeric reference to itself, which no parser accepts

Representable(c) == c \notin {"ctl", "nonchar"}
(* XmlStream._encode *)
Encode(c) == CASE c = "plain" -> [t |-> "raw", c |-> c]
               [] c \in {"markup", "quote"} -> [t |-> "ent", c |-> c]
               [] c \in {"ws", "nl", "cr"} -> [t |-> "cref", c |-> c]
               [] c = "nonascii" -> [t |-> "cref", c |-> c]
               [] OTHER -> IF F7 THEN [t |-> "cref", c |-> c]            \* &#001; : illegal reference (finding F7)
                           ELSE [t |-> "cref", c |-> "repl"]       \* not an XML character: replaced
EncodeStr(s) == [i \in 1..Len(s) |-> Encode(s[i])]
(* what an XML parser makes of a token *)
TokenLegal(tok) == /\ tok.t \in {"raw", "ent", "cref"}
                   /\ tok.c \in {"plain", "markup", "quote", "ws", "nl", "cr", "nonascii", "repl"}
                   /\ (tok.t = "raw" => tok.c \in {"plain", "nonascii"})      \* raw markup/quote/ws would be misparsed
Decode(tok) == tok.c
Meaning(s) == [i \in 1..Len(s) |-> IF Representable(s[i]) THEN s[i] ELSE "repl"]

VARIABLES stk,      \* open element names, innermost last
          inElem,   \* a start tag is still open (no '>' written yet)
          out,      \* tokens written so far
          expect,   \* the events the calls imply: <<"start", name, attrs>>, <<"chars", classes>>, <<"end", name>>
          calls,    \* number of API calls made
          state,    \* "new" | "open" | "closed"
          raised,   \* the last call raised (endElement on empty stack / mismatch)
          hist      \* the calls made, for replay on the real class (identical information to out + raised calls)
vars == <<stk, inElem, out, expect, calls, state, raised, hist>>

Init == stk = <<>> /\ inElem = FALSE /\ out = <<>> /\ expect = <<>> /\ calls = 0 /\ state = "new" /\ raised = FALSE /\ hist = <<>>

CloseIfOpen(o) == IF inElem THEN Append(o, [k |-> "gt"]) ELSE o
AddChars(ex, s) == IF s = <<>> THEN ex
                   ELSE IF ex # <<>> /\ ex[Len(ex)][1] = "chars"
                        THEN [ex EXCEPT ![Len(ex)] = <<"chars", @[2] \o Meaning(s)>>]
                        ELSE Append(ex, <<"chars", Meaning(s)>>)

Enter == /\ state = "new" /\ state' = "open" /\ out' = <<[k |-> "decl"]>>
         /\ UNCHANGED <<stk, inElem, expect, calls, raised, hist>>

StartElement(n, hasAttr, v) ==
    /\ state = "open" /\ calls < MaxCalls /\ (stk = <<>> => expect = <<>>)        \* one root element
    /\ out' = Append(CloseIfOpen(out), [k |-> "open", name |-> n,
                                        attrs |-> IF hasAttr THEN <<[key |-> "a", val |-> EncodeStr(v)]>> ELSE <<>>])
    /\ expect' = Append(expect, <<"start", n, IF hasAttr THEN <<[key |-> "a", val |-> Meaning(v)]>> ELSE <<>>>>)
    /\ stk' = Append(stk, n) /\ inElem' = TRUE /\ calls' = calls + 1 /\ raised' = FALSE /\ UNCHANGED state
    /\ hist' = Append(hist, [op |-> "start", name |-> n, hasAttr |-> hasAttr, v |-> v])

Characters(s) ==
    /\ state = "open" /\ calls < MaxCalls /\ stk # <<>>
    /\ out' = Append(CloseIfOpen(out), [k |-> "text", toks |-> EncodeStr(s)])
    /\ expect' = AddChars(expect, s)
    /\ inElem' = FALSE /\ calls' = calls + 1 /\ raised' = FALSE /\ UNCHANGED <<stk, state>>
    /\ hist' = Append(hist, [op |-> "chars", s |-> s])

(* XhtmlStream.charactersWithBr:  while len(s) > 0: i = s.find(LF); if found: characters(s[:i]); <br/>; s = s[i+1:]
                                                   else: characters(s); break                                        *)
RECURSIVE BrSteps(_), BrOut(_, _), BrExp(_, _)
BrSteps(s) == IF s = <<>> THEN <<>>
              ELSE LET nls == {i \in 1..Len(s) : s[i] = "nl"} IN
                   IF nls = {} THEN << [k |-> "piece", s |-> s] >>
                   ELSE LET i == CHOOSE x \in nls : \A y \in nls : x <= y IN
                        << [k |-> "piece", s |-> SubSeq(s, 1, i - 1)], [k |-> "br"] >> \o BrSteps(SubSeq(s, i + 1, Len(s)))
BrOut(o, st) == IF st = <<>> THEN o
                ELSE BrOut(IF st[1].k = "piece" THEN Append(o, [k |-> "text", toks |-> EncodeStr(st[1].s)])
                           ELSE Append(Append(o, [k |-> "open", name |-> "br", attrs |-> <<>>]), [k |-> "selfclose"]), Tail(st))
BrExp(ex, st) == IF st = <<>> THEN ex
                 ELSE BrExp(IF st[1].k = "piece" THEN AddChars(ex, st[1].s)
                            ELSE Append(Append(ex, <<"start", "br", <<>>>>), <<"end", "br">>), Tail(st))
CharsBr(s) ==
    /\ state = "open" /\ calls < MaxCalls /\ stk # <<>>
    /\ out' = IF s = <<>> THEN out ELSE BrOut(CloseIfOpen(out), BrSteps(s))
    /\ expect' = BrExp(expect, BrSteps(s))
    /\ inElem' = (IF s = <<>> THEN inElem ELSE FALSE) /\ calls' = calls + 1 /\ raised' = FALSE /\ UNCHANGED <<stk, state>>
    /\ hist' = Append(hist, [op |-> "charsbr", s |-> s])

Comment(s) ==
    /\ state = "open" /\ calls < MaxCalls /\ stk # <<>>
    /\ out' = Append(CloseIfOpen(out), [k |-> "comment", toks |-> EncodeStr(s)])
    /\ inElem' = FALSE /\ calls' = calls + 1 /\ raised' = FALSE /\ UNCHANGED <<stk, state, expect>>
    /\ hist' = Append(hist, [op |-> "comment", s |-> s])

EndElement(n) ==
    /\ state = "open" /\ calls < MaxCalls
    /\ hist' = Append(hist, [op |-> "end", name |-> n])
    /\ IF stk = <<>> \/ stk[Len(stk)] # n
       THEN raised' = TRUE /\ calls' = calls + 1 /\ UNCHANGED <<stk, inElem, out, expect, state>>
       ELSE /\ out' = IF inElem THEN Append(out, [k |-> "selfclose"]) ELSE Append(out, [k |-> "close", name |-> n])
            /\ expect' = Append(expect, <<"end", n>>)
            /\ stk' = SubSeq(stk, 1, Len(stk) - 1) /\ inElem' = FALSE
            /\ calls' = calls + 1 /\ raised' = FALSE /\ UNCHANGED state

(* __exit__ closes every open element *)
RECURSIVE CloseAll(_, _, _, _)
CloseAll(s, ie, o, ex) ==
    IF s = <<>> THEN [out |-> o, expect |-> ex]
    ELSE CloseAll(SubSeq(s, 1, Len(s) - 1), FALSE,
                  IF ie THEN Append(o, [k |-> "selfclose"]) ELSE Append(o, [k |-> "close", name |-> s[Len(s)]]),
                  Append(ex, <<"end", s[Len(s)]>>))
Exit == /\ state = "open" /\ expect # <<>>
        /\ LET c == CloseAll(stk, inElem, out, expect) IN out' = c.out /\ expect' = c.expect
        /\ stk' = <<>> /\ inElem' = FALSE /\ state' = "closed" /\ UNCHANGED <<calls, raised, hist>>

Next == \/ Enter \/ Exit
        \/ \E n \in Names : EndElement(n)
        \/ \E n \in Names, v \in AttrVals, h \in BOOLEAN : StartElement(n, h, v)
        \/ \E s \in Texts : Characters(s) \/ Comment(s)
        \/ \E s \in BrTexts : CharsBr(s)
Spec == Init /\ [][Next]_vars

(* ---- an XML parser over the token sequence ---- *)
DecodeStr(toks) == [i \in 1..Len(toks) |-> Decode(toks[i])]
AllLegal(toks) == \A i \in 1..Len(toks) : TokenLegal(toks[i])
RECURSIVE Parse(_, _, _, _, _)
(* i: next token; tags: open names; pend: a start tag awaiting '>' or '/>'; ev: events; Parse returns [ok, ev] *)
Parse(o, i, tags, pend, ev) ==
    IF i > Len(o) THEN [ok |-> tags = <<>> /\ ~pend, ev |-> ev]
    ELSE LET tk == o[i] IN
      CASE tk.k = "decl" -> IF i = 1 THEN Parse(o, i + 1, tags, pend, ev) ELSE [ok |-> FALSE, ev |-> ev]
        [] tk.k = "open" ->
             IF pend \/ (tags = <<>> /\ ev # <<>>) \/ ~\A j \in 1..Len(tk.attrs) : AllLegal(tk.attrs[j].val)
             THEN [ok |-> FALSE, ev |-> ev]
             ELSE Parse(o, i + 1, Append(tags, tk.name), TRUE,
                        Append(ev, <<"start", tk.name, [j \in 1..Len(tk.attrs) |-> [key |-> tk.attrs[j].key, val |-> DecodeStr(tk.attrs[j].val)]]>>))
        [] tk.k = "gt" -> IF pend THEN Parse(o, i + 1, tags, FALSE, ev) ELSE [ok |-> FALSE, ev |-> ev]
        [] tk.k = "selfclose" -> IF pend THEN Parse(o, i + 1, SubSeq(tags, 1, Len(tags) - 1), FALSE, Append(ev, <<"end", tags[Len(tags)]>>))
                                 ELSE [ok |-> FALSE, ev |-> ev]
        [] tk.k = "close" -> IF ~pend /\ tags # <<>> /\ tags[Len(tags)] = tk.name
                             THEN Parse(o, i + 1, SubSeq(tags, 1, Len(tags) - 1), FALSE, Append(ev, <<"end", tk.name>>))
                             ELSE [ok |-> FALSE, ev |-> ev]
        [] tk.k = "text" -> IF pend \/ tags = <<>> \/ ~AllLegal(tk.toks) THEN [ok |-> FALSE, ev |-> ev]
                            ELSE Parse(o, i + 1, tags, FALSE,
                                       IF tk.toks = <<>> THEN ev
                                       ELSE IF ev # <<>> /\ ev[Len(ev)][1] = "chars"
                                            THEN [ev EXCEPT ![Len(ev)] = <<"chars", @[2] \o DecodeStr(tk.toks)>>]
                                            ELSE Append(ev, <<"chars", DecodeStr(tk.toks)>>))
        [] tk.k = "comment" -> IF pend \/ ~AllLegal(tk.toks) THEN [ok |-> FALSE, ev |-> ev] ELSE Parse(o, i + 1, tags, FALSE, ev)
        [] OTHER -> [ok |-> FALSE, ev |-> ev]

Parsed == Parse(out, 1, <<>>, FALSE, <<>>)
WellFormed == state = "closed" => Parsed.ok
Faithful   == state = "closed" => Parsed.ev = expect
StackMatchesOutput == state = "open" => Len(stk) >= 0 /\ (inElem => stk # <<>>)
BoundOK == calls <= MaxCalls
=============================================================================
