---------------------------- MODULE ToLasAbs ----------------------------
(* Conversion of one log pass (RP66V1 frame array, LIS log pass, BIT pass) to one LAS file: what the written file
   must contain, as a function of the pass, the frame selector and the ORIGINAL channel request of the conversion run.

   A pass is  [n |-> number of frames, names |-> <<X name, channel names...>>, xq |-> <<scaled integer X of every frame>>].
   An output is [status, rows, cols, strt, stop, steplo, stephi] where
     rows  = 0-based source frame index of every data row written (in file order),
     cols  = 1-based position in pass.names of every column written (1 = X),
     strt/stop = scaled integer X values printed in the well section (NoX: absent / not a number),
     steplo..stephi = the scaled integers k for which the printed step equals k / (number of rows - 1) within the print
             precision (so that no rational is needed; NoX: absent / "N/A"; the design module uses steplo = stephi).
   Conformance of the three converters is judged against this module only. *)
EXTENDS SliceSelAbs

CONSTANT NoX        \* integer sentinel: "no such value"

-----------------------------------------------------------------------------
StrictlyIncreasing(s) == \A i \in 1..(Len(s) - 1) : s[i] < s[i + 1]
InRange(s, n) == \A i \in 1..Len(s) : s[i] >= 0 /\ s[i] < n

(* "for a sample of N at most N frames in increasing order starting with the first" *)
SampleLoose(N, n, rows) ==
    /\ Len(rows) <= N
    /\ InRange(rows, n) /\ StrictlyIncreasing(rows)
    /\ (n > 0) => (Len(rows) >= 1 /\ rows[1] = 0)

RowsOK(sel, n, rows) ==
    IF sel.kind = "slice" THEN rows = PySliceAny(sel.a, sel.b, sel.c, n)       \* either sign of the step: exactly Python slice semantics
    ELSE SampleLoose(sel.N, n, rows)

(* the selection is empty: no frame to write, start/stop/step are undefined *)
EmptySelection(sel, n) == IF sel.kind = "slice" THEN PyCountAny(sel.a, sel.b, sel.c, n) = 0 ELSE n = 0

-----------------------------------------------------------------------------
(* columns: X first, then the requested channels that the pass has, in pass order; an empty request means all *)
Wanted(names, req) == {i \in 1..Len(names) : i = 1 \/ req = {} \/ names[i] \in req}
ColsOK(names, req, cols) ==
    /\ StrictlyIncreasing(cols)
    /\ {cols[i] : i \in 1..Len(cols)} = Wanted(names, req)

-----------------------------------------------------------------------------
(* well section: first X, last X, mean spacing of the rows actually written *)
WellOK(xq, rows, strt, stop, steplo, stephi) ==
    /\ Len(rows) >= 1 => /\ strt = xq[rows[1] + 1]
                         /\ stop = xq[rows[Len(rows)] + 1]
    /\ Len(rows) >= 2 => /\ steplo # NoX
                         /\ steplo <= xq[rows[Len(rows)] + 1] - xq[rows[1] + 1]
                         /\ xq[rows[Len(rows)] + 1] - xq[rows[1] + 1] <= stephi
    \* with one row the mean spacing is undefined: any printed step (or none) is accepted

(* The whole judgement for one pass of a run with selector sel and original request req.
   An empty selection may be reported as a failed conversion or as a file without rows; a non-empty one must be written. *)
PassOK(pass, sel, req, o) ==
    IF EmptySelection(sel, pass.n)
    THEN o.status \in {"failed", "nodata"} \/ (o.status = "ok" /\ o.rows = <<>> /\ ColsOK(pass.names, req, o.cols))
    ELSE /\ o.status = "ok"
         /\ RowsOK(sel, pass.n, o.rows)
         /\ ColsOK(pass.names, req, o.cols)
         /\ WellOK(pass.xq, o.rows, o.strt, o.stop, o.steplo, o.stephi)

(* file type gate: a file of another format is ignored and produces nothing *)
GateOK(isMine, ignored, nOutputs) == IF isMine THEN ~ignored ELSE (ignored /\ nOutputs = 0)
=============================================================================
