------------------------------ MODULE LasReadMC ------------------------------
(* LasRead with the emitted line tokens recorded (hist): every terminal state is one complete layout. *)
EXTENDS LasRead
VARIABLE hist
mvars == <<vars, hist>>
Tok(t) == hist' = Append(hist, t)
MCInit == Init /\ hist = <<>>
MCNext == \/ EmitHead /\ Tok(<<"head", Sec>>)
          \/ EmitHdr /\ Tok(<<"hdr", Sec, li + 1>>)
          \/ NextSection /\ UNCHANGED hist
          \/ \E k \in {"comment", "blank", "spaces"} : EmitExtra /\ Tok(<<k>>)
          \/ EmitDataUnwrapped /\ Tok(<<"data", li + 1, 1, NC>>)
          \/ \E n \in 1..NC : EmitDataWrapped(n) /\ Tok(<<"data", li + 1, cell + 1, cell + n>>)
          \/ Finish /\ UNCHANGED hist
          \/ (si = 6 /\ UNCHANGED mvars)
MCSpec == MCInit /\ [][MCNext]_mvars
=============================================================================
