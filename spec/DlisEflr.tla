------------------------------ MODULE DlisEflr ------------------------------
(* RP66V1 explicitly formatted logical records (3.2.2): SET, TEMPLATE, OBJECTS as a component stream
   (TotalDepth.RP66V1.core.LogicalRecord.EFLR).

   Content: a template of NT attributes, each ordinary (ATTRIB) or invariant (INVATR) with any subset of the
   characteristics count / representation code / units / value present (the label always is); NO objects, each with
   one cell per ordinary column: present with any subset of overriding characteristics, ABSENT, or OMITTED (only as a
   suffix of the object's columns - the remaining attributes then come from the template).
   Writer: the component stream: tattr tokens, then per object an obj token and one oattr token per cell that is
   neither omitted nor under an invariant column.
   Reader design: the parse machine: template attributes until an object descriptor; per object, columns in order -
   an invariant column takes the template attribute without consuming a component; otherwise a component is consumed
   and dispatched on ITS descriptor (attribute: overriding characteristics, the rest from the template, then the
   global defaults; absent attribute: the cell is absent); the object ends at the next object descriptor or at the
   end of the record and its remaining columns are filled from the template.
   Property: the parsed table equals Resolve(content): for every cell where each of count, representation code, units
   and value comes from ("obj", "tmpl", "global"), or "absent". *)
EXTENDS Integers, Sequences, FiniteSets, TLC

CONSTANTS NT, NO, HasMenu      \* HasMenu: the subsets of {"C","R","U","V"} offered

Chars == {"C", "R", "U", "V"}
VARIABLES tmpl, objs,          \* the content
          stream,              \* the component tokens
          i, col, ob, row, table, phase
vars == <<tmpl, objs, stream, i, col, ob, row, table, phase>>

CellMenu == {[k |-> "present", has |-> h] : h \in HasMenu} \cup {[k |-> "absent"], [k |-> "omitted"], [k |-> "none"]}
(* a legal object row: "none" exactly under invariant columns; "omitted" only as a suffix of the other columns *)
RowOK(t, r) == /\ \A c \in 1..NT : (r[c].k = "none") = (t[c].role = "INVATR")
               /\ \A c \in 1..NT : r[c].k = "omitted" => \A d \in c..NT : r[d].k \in {"omitted", "none"}

TmplSrc(t, c, x) == IF x \in t[c].has THEN "tmpl" ELSE "global"
TemplateCell(t, c) == [k |-> "template", count |-> TmplSrc(t, c, "C"), rc |-> TmplSrc(t, c, "R"), units |-> TmplSrc(t, c, "U"),
                       value |-> IF "V" \in t[c].has THEN "tmpl" ELSE "none"]
ResolveCell(t, c, cell) ==
    CASE cell.k \in {"none", "omitted"} -> TemplateCell(t, c)
      [] cell.k = "absent" -> [k |-> "absent"]
      [] OTHER -> [k |-> "cell",
                   count |-> IF "C" \in cell.has THEN "obj" ELSE TmplSrc(t, c, "C"),
                   rc    |-> IF "R" \in cell.has THEN "obj" ELSE TmplSrc(t, c, "R"),
                   units |-> IF "U" \in cell.has THEN "obj" ELSE TmplSrc(t, c, "U"),
                   value |-> IF "V" \in cell.has THEN "obj" ELSE (IF "V" \in t[c].has THEN "tmpl" ELSE "none")]
Resolve(t, os) == [o \in 1..Len(os) |-> [c \in 1..NT |-> ResolveCell(t, c, os[o][c])]]

RECURSIVE ObjTokens(_, _, _)
ObjTokens(o, r, c) == IF c > NT THEN <<>>
                      ELSE (IF r[c].k \in {"none", "omitted"} THEN <<>> ELSE <<[t |-> "oattr", o |-> o, cell |-> r[c]]>>) \o ObjTokens(o, r, c + 1)
RECURSIVE AllObjTokens(_, _)
AllObjTokens(os, o) == IF o > Len(os) THEN <<>> ELSE <<[t |-> "obj", o |-> o]>> \o ObjTokens(o, os[o], 1) \o AllObjTokens(os, o + 1)
Encode(t, os) == <<[t |-> "set"]>> \o [c \in 1..NT |-> [t |-> "tattr", c |-> c]] \o AllObjTokens(os, 1)

Init == /\ tmpl \in [1..NT -> [role : {"ATTRIB", "INVATR"}, has : HasMenu]]
        /\ objs \in [1..NO -> [1..NT -> CellMenu]]
        /\ \A o \in 1..NO : RowOK(tmpl, objs[o])
        /\ stream = Encode(tmpl, objs)
        /\ i = 1 /\ col = 0 /\ ob = 0 /\ row = <<>> /\ table = <<>> /\ phase = "set"

AtEnd == i > Len(stream)
NextIsObj == ~AtEnd /\ stream[i].t = "obj"
(* columns of the current object filled from the template: invariant ones on the way, the rest at the end *)
ReadSet == phase = "set" /\ stream[i].t = "set" /\ i' = i + 1 /\ phase' = "template" /\ UNCHANGED <<tmpl, objs, stream, col, ob, row, table>>
ReadTAttr == /\ phase = "template" /\ ~AtEnd /\ stream[i].t = "tattr"
             /\ i' = i + 1 /\ UNCHANGED <<tmpl, objs, stream, col, ob, row, table, phase>>
StartObj == /\ phase \in {"template", "between"} /\ NextIsObj
            /\ ob' = stream[i].o /\ col' = 1 /\ row' = <<>> /\ i' = i + 1 /\ phase' = "object"
            /\ UNCHANGED <<tmpl, objs, stream, table>>
SkipInvariant == /\ phase = "object" /\ col <= NT /\ tmpl[col].role = "INVATR"
                 /\ row' = Append(row, TemplateCell(tmpl, col)) /\ col' = col + 1
                 /\ UNCHANGED <<tmpl, objs, stream, i, ob, table, phase>>
ReadOAttr == /\ phase = "object" /\ col <= NT /\ tmpl[col].role # "INVATR" /\ ~AtEnd /\ stream[i].t = "oattr"
             /\ row' = Append(row, ResolveCell(tmpl, col, stream[i].cell))
             /\ col' = col + 1 /\ i' = i + 1 /\ UNCHANGED <<tmpl, objs, stream, ob, table, phase>>
EndObj == /\ phase = "object" /\ (AtEnd \/ NextIsObj) /\ (col <= NT => tmpl[col].role # "INVATR")
          /\ table' = Append(table, row \o [c \in 1..(NT - Len(row)) |-> TemplateCell(tmpl, Len(row) + c)])
          /\ phase' = IF AtEnd THEN "done" ELSE "between"
          /\ UNCHANGED <<tmpl, objs, stream, i, col, ob, row>>
Finish == phase = "template" /\ AtEnd /\ phase' = "done" /\ UNCHANGED <<tmpl, objs, stream, i, col, ob, row, table>>
Next == ReadSet \/ ReadTAttr \/ StartObj \/ SkipInvariant \/ ReadOAttr \/ EndObj \/ Finish \/ (phase = "done" /\ UNCHANGED vars)
Spec == Init /\ [][Next]_vars

TableIsResolve == phase = "done" => table = Resolve(tmpl, objs)
RowsInOrder == Len(table) <= NO
=============================================================================
