--------------------------------- MODULE Rle ---------------------------------
(* Design of TotalDepth.common.Rle.RLE / RLEItem and TotalDepth.LIS.core.Rle.RLEType01: values are
   kept as runs [datum, stride, repeat]; Add extends the last run when the value continues it.
   Queries walk the runs exactly as the code does.  TLC checks the design against RleAbs for every
   sequence over Vals of length <= MaxLen (equal neighbours give stride 0; negative strides;
   irregular runs) and every record-triple sequence of length <= MaxRecs. *)
EXTENDS RleAbs, TLC

CONSTANTS Vals, MaxLen,             \* integer RLE bounds
          PosSteps, FrameCounts, MaxRecs   \* frame index bounds

VARIABLES vals, runs,               \* abstract / design state of the integer RLE
          recs, items                \* abstract / design state of the LIS frame index
vars == <<vals, runs, recs, items>>

(* ------------------------------------------------------------------ integer RLE *)
NewRun(v) == [datum |-> v, stride |-> 0, repeat |-> 0]
Continues(r, v) == r.repeat = 0 \/ v = r.datum + r.stride * (r.repeat + 1)
Extend(r, v) == [datum |-> r.datum, stride |-> IF r.repeat = 0 THEN v - r.datum ELSE r.stride,
                 repeat |-> r.repeat + 1]
AddRun(rs, v) == IF rs # <<>> /\ Continues(rs[Len(rs)], v)
                 THEN [rs EXCEPT ![Len(rs)] = Extend(@, v)]
                 ELSE Append(rs, NewRun(v))

RunLen(r) == r.repeat + 1
RunVals(r) == [i \in 1..RunLen(r) |-> r.datum + (i - 1) * r.stride]
RECURSIVE Expand(_)
Expand(rs) == IF rs = <<>> THEN <<>> ELSE Expand(SubSeq(rs, 1, Len(rs) - 1)) \o RunVals(rs[Len(rs)])

(* RLE.value(i): walk forward for i >= 0, backward for i < 0, each run either answers or passes on the
   reduced index (RLEItem.value) *)
RECURSIVE WalkFwd(_, _, _)
WalkFwd(rs, k, i) == IF k > Len(rs) THEN [found |-> FALSE]
                     ELSE IF i > rs[k].repeat THEN WalkFwd(rs, k + 1, i - rs[k].repeat - 1)
                     ELSE [found |-> TRUE, v |-> rs[k].datum + i * rs[k].stride]
RECURSIVE WalkBack(_, _, _)
WalkBack(rs, k, i) == IF k < 1 THEN [found |-> FALSE]
                      ELSE IF -i > rs[k].repeat + 1 THEN WalkBack(rs, k - 1, i + rs[k].repeat + 1)
                      ELSE [found |-> TRUE, v |-> rs[k].datum + (rs[k].repeat + i + 1) * rs[k].stride]
ValueDesign(rs, i) == IF i >= 0 THEN WalkFwd(rs, 1, i) ELSE WalkBack(rs, Len(rs), i)

RECURSIVE SumLens(_)
SumLens(rs) == IF rs = <<>> THEN 0 ELSE SumLens(Tail(rs)) + RunLen(rs[1])
RunLast(r) == r.datum + r.stride * r.repeat

(* RLE.largest_le: bisect_right on the run datums, then index inside the run by floor division;
   a run of equal values (stride 0) answers with its datum *)
RunsLE(rs, q) == {k \in 1..Len(rs) : rs[k].datum <= q}
MaxOf(S) == CHOOSE x \in S : \A y \in S : y <= x
RunLargestLE(r, q) == IF q > RunLast(r) THEN RunLast(r)
                      ELSE IF r.stride = 0 THEN r.datum
                      ELSE r.datum + r.stride * ((q - r.datum) \div r.stride)
LargestLEDesign(rs, q) == RunLargestLE(rs[MaxOf(RunsLE(rs, q))], q)

(* ------------------------------------------------------------------ LIS frame index *)
NewItem(p, f, x) == [datum |-> p, stride |-> 0, repeat |-> 0, frames |-> f, xs |-> <<x>>]
ItemContinues(it, p, f) == f = it.frames /\ Continues(it, p)
AddItem(its, p, f, x) ==
    IF its # <<>> /\ ItemContinues(its[Len(its)], p, f)
    THEN [its EXCEPT ![Len(its)] = [datum |-> @.datum, stride |-> IF @.repeat = 0 THEN p - @.datum ELSE @.stride,
                                    repeat |-> @.repeat + 1, frames |-> @.frames, xs |-> Append(@.xs, x)]]
    ELSE Append(its, NewItem(p, f, x))
ItemFrames(it) == it.frames * (it.repeat + 1)
(* RLEType01.tellLrForFrame: each item answers or passes on the reduced frame number; note the code's
   '<=' test: a frame number equal to the item's total is passed on as 0 by the overrun of value() *)
RECURSIVE Locate(_, _, _)
Locate(its, k, f) == IF k > Len(its) THEN [found |-> FALSE]
                     ELSE IF f < ItemFrames(its[k])
                          THEN [found |-> TRUE, pos |-> its[k].datum + (f \div its[k].frames) * its[k].stride,
                                off |-> f % its[k].frames]
                          ELSE Locate(its, k + 1, f - ItemFrames(its[k]))
RECURSIVE SumFrames(_)
SumFrames(its) == IF its = <<>> THEN 0 ELSE SumFrames(Tail(its)) + ItemFrames(its[1])

(* ------------------------------------------------------------------ transition system *)
Init == vals = <<>> /\ runs = <<>> /\ recs = <<>> /\ items = <<>>

Add(v) == /\ Len(vals) < MaxLen /\ recs = <<>>
          /\ vals' = Append(vals, v) /\ runs' = AddRun(runs, v)
          /\ UNCHANGED <<recs, items>>

AddRec(dp, f) == /\ Len(recs) < MaxRecs /\ vals = <<>>
                 /\ LET p == IF recs = <<>> THEN 100 ELSE recs[Len(recs)].pos + dp
                        x == TotalFramesAbs(recs)          \* x is any tag; the frame number keeps it distinct
                    IN /\ recs' = Append(recs, [pos |-> p, frames |-> f, x |-> x])
                       /\ items' = AddItem(items, p, f, x)
                 /\ UNCHANGED <<vals, runs>>

Next == (\E v \in Vals : Add(v)) \/ (\E dp \in PosSteps, f \in FrameCounts : AddRec(dp, f))
Spec == Init /\ [][Next]_vars

(* ------------------------------------------------------------------ refinement *)
Refines == Expand(runs) = vals
CountRefines == SumLens(runs) = CountAbs(vals)
ValueRefines == \A i \in -Len(vals)..(Len(vals) - 1) :
                    LET r == ValueDesign(runs, i) IN r.found /\ r.v = ValueAbs(vals, i)
OverrunDetected == ~ValueDesign(runs, Len(vals)).found /\ ~ValueDesign(runs, -Len(vals) - 1).found
FirstLastRefine == vals # <<>> => runs[1].datum = FirstAbs(vals) /\ RunLast(runs[Len(runs)]) = LastAbs(vals)
LargestLERefines == (vals # <<>> /\ Ascending(vals)) =>
                      \A q \in (FirstAbs(vals) - 1)..(LastAbs(vals) + 1) :
                         IF HasLE(vals, q) THEN LargestLEDesign(runs, q) = LargestLEAbs(vals, q)
                         ELSE RunsLE(runs, q) = {}

RecExpand == \A k \in 1..Len(recs) : \E j \in 1..Len(items) : TRUE
TotalRefines == SumFrames(items) = TotalFramesAbs(recs)
FrameLocRefines == \A f \in 0..(TotalFramesAbs(recs) - 1) :
                      LET r == Locate(items, 1, f) a == FrameLocAbs(recs, f)
                      IN r.found /\ r.pos = a.pos /\ r.off = a.off
FrameOverrun == ~Locate(items, 1, TotalFramesAbs(recs)).found
XKept == \A j \in 1..Len(items) : Len(items[j].xs) = items[j].repeat + 1
=============================================================================
