---------------------------- MODULE SliceSelAbs ----------------------------
(* Frame selectors of TotalDepth.common.Slice: Slice(start, stop, step), Sample(N) and the
   command-line option parser create_slice_or_sample.

   Abstract part  : PySlice (Python data-model slicing, positive step), SampleAbs (the property's
                    description of a sample: any spread whose gaps differ by at most one is allowed),
                    ParseAbs (what an option string denotes).
   The design part (the stepping machines the code runs) is in SliceSel.tla, which TLC checks to
   refine this module.  Conformance of the implementation is always judged against this module. *)
EXTENDS Integers, Sequences, FiniteSets, TLC

CONSTANTS MaxN,      \* bound on sequence length n and on |start|, |stop|, step, sample size
          NoneV      \* model value: an absent slice part

Opt(S) == S \cup {NoneV}

-----------------------------------------------------------------------------
(* Abstract: Python slice semantics, step >= 1 (Language Reference 3.3.7 / slice.indices) *)
Clamp(v, n, dflt) == IF v = NoneV THEN dflt
                     ELSE IF v < 0 THEN (IF v + n < 0 THEN 0 ELSE v + n)
                     ELSE IF v > n THEN n ELSE v
PyStart(a, n) == Clamp(a, n, 0)
PyStop(b, n)  == Clamp(b, n, n)
PyStep(c)     == IF c = NoneV THEN 1 ELSE c
PyCount(a, b, c, n) == LET s == PyStart(a, n)  e == PyStop(b, n)  st == PyStep(c)
                       IN IF e > s THEN (e - s + st - 1) \div st ELSE 0
PySlice(a, b, c, n) == [i \in 1..PyCount(a, b, c, n) |-> PyStart(a, n) + (i - 1) * PyStep(c)]

(* Python slice semantics for EITHER sign of the step (slice.indices): the operators above are the step >= 1 case.  The
   selector property (C15) and frame-array population (C04) take "every slice", so both are judged with PySliceAny. *)
ClampNeg(v, n, dflt) == IF v = NoneV THEN dflt
                        ELSE IF v < 0 THEN (IF v + n < 0 THEN -1 ELSE v + n)
                        ELSE IF v >= n THEN n - 1 ELSE v
PySliceAny(a, b, c, n) ==
    IF c = NoneV \/ c > 0 THEN PySlice(a, b, c, n)
    ELSE LET s == ClampNeg(a, n, n - 1)  e == ClampNeg(b, n, -1)  st == -c
             k == IF s > e THEN (s - e + st - 1) \div st ELSE 0
         IN [i \in 1..k |-> s - (i - 1) * st]
PyCountAny(a, b, c, n) == Len(PySliceAny(a, b, c, n))
Steps == (-MaxN..MaxN) \ {0}

(* Abstract: what the property says a sample of N out of n is; idx is 0-based indices *)
Min2(x, y) == IF x < y THEN x ELSE y
Gaps(idx) == {idx[i + 1] - idx[i] : i \in 1..(Len(idx) - 1)}
SampleAbs(N, n, idx) ==
    /\ Len(idx) = Min2(N, n)
    /\ Len(idx) > 0 => idx[1] = 0
    /\ \A i \in 1..Len(idx) : idx[i] >= 0 /\ idx[i] < n
    /\ \A i \in 1..(Len(idx) - 1) : idx[i] < idx[i + 1]
    /\ \A g, h \in Gaps(idx) : g - h <= 1 /\ h - g <= 1

-----------------------------------------------------------------------------
(* Option strings: a string is a list of comma separated parts; part classes: *)
PartInt(k) == [cls |-> "int", k |-> k]
PartEmpty  == [cls |-> "empty"]
PartNone   == [cls |-> "none"]
PartJunk   == [cls |-> "junk"]     \* anything int() rejects: letters, floats, signs alone, ...
Reject     == [kind |-> "reject"]

PartVal(p) == IF p.cls = "int" THEN p.k ELSE NoneV
PartOK(p)  == p.cls \in {"int", "empty", "none"}

(* Abstract: what the option denotes *)
ParseAbs(parts) ==
    IF Len(parts) = 1
    THEN IF parts[1].cls = "int" /\ parts[1].k >= 1 THEN [kind |-> "sample", N |-> parts[1].k] ELSE Reject
    ELSE IF Len(parts) = 3 /\ \A i \in 1..3 : PartOK(parts[i])
         THEN [kind |-> "slice", a |-> PartVal(parts[1]), b |-> PartVal(parts[2]), c |-> PartVal(parts[3])]
         ELSE Reject

=============================================================================
