--------------------------- MODULE LisIndexTable ---------------------------
(* Oracle table for the index part of C06: for every valid record sequence in the bound, the records that must be
   listed and the log passes with their frame counts and first data record, as LisIndex's ABSTRACT operators give them. *)
EXTENDS LisIndex, Json, IOUtils, SequencesExt
ValidSeqs == {s \in Candidates : Valid(s)}
Row(s) == [file |-> s,
           listed |-> SetToSortSeq(AbsListed(s), <),
           passes |-> [n \in 1..Cardinality(DOMAIN AbsPasses(s)) |->
                         LET j == SetToSortSeq(DOMAIN AbsPasses(s), <)[n]
                         IN [pos |-> j, frames |-> AbsPasses(s)[j].frames, first |-> AbsPasses(s)[j].first]]]
ASSUME JsonSerialize(IOEnv.OUT_TABLE, SetToSeq({Row(s) : s \in ValidSeqs}))
=============================================================================
