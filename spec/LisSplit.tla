------------------------------ MODULE LisSplit ------------------------------
(* How LIS/ToLAS.py single_lis_file_to_las() cuts the index of a LIS file into "logical files", one LAS file each
   (C11: "one readable LAS file per log pass"):

       logical_file = LisLogicalFile()
       for lis_index in index.genAll():
           if CONS table:
               if logical_file.is_end():  close; logical_file = LisLogicalFile()
           elif log pass and logical_file.is_end() and logical_file.last_log_pass.totalFrames > 0:
               close; logical_file = LisLogicalFile()
           logical_file.add_index(lis_index)
       if len(logical_file): close
       for each closed logical file: write_las_file(...)            # raises => the conversion of the file stops there

       add_index:  log pass:   if last_log_pass is None or last_log_pass.totalFrames == 0: last_log_pass = it
                   CONS table: if last_log_pass is not None: raise;  else cons.append(it)
                   anything else: ignored
       is_end:     last_log_pass is not None

   The entries of an index are abstracted to  "CONS" (a CONS table), "OTHER" (any other entry: headers, trailers, other
   tables), "P0" (a log pass without frames) and "P1" (a log pass with frames).

   Abstract (what the property needs): every log pass with frames gets exactly one LAS file, in file order, and that file
   carries exactly the CONS tables that come after the previous log pass with frames and - if a pass without frames and
   then a CONS table intervene - after that CONS table's predecessor pass; no CONS table is lost; writing never fails.
   WriteFails(lf) says which logical files write_las_file() cannot write: none as coded (a logical file whose pass has no
   frames is written with its parameters only); Variant "abort_on_empty" is the code before fix F30, where loading the
   frames of such a pass raised "no frames to load" and the conversion of the whole LIS file stopped there. *)
EXTENDS Integers, Sequences, FiniteSets, SequencesExt, TLC

CONSTANTS MaxLen,
          Variant        \* "as_coded" | "abort_on_empty" (before fix F30: a logical file whose pass has no frames cannot be written)
                         \* | "no_pass_split" (before fix F24: a pass after a pass does not start a new file)

Kinds == {"CONS", "OTHER", "P0", "P1"}
IsPass(k) == k \in {"P0", "P1"}
Files == UNION {[1..n -> Kinds] : n \in 0..MaxLen}

NoPass == 0
LF(cons, pass) == [cons |-> cons, pass |-> pass]
EmptyLF == LF(<<>>, NoPass)
LenLF(lf) == Len(lf.cons) + (IF lf.pass # NoPass THEN 1 ELSE 0)

(* ---- design: the loop ---- *)
VARIABLES file, i, closed, cur, raised
vars == <<file, i, closed, cur, raised>>

Init == file \in Files /\ i = 1 /\ closed = <<>> /\ cur = EmptyLF /\ raised = FALSE

IsEnd(lf) == lf.pass # NoPass
Frames(f, p) == IF f[p] = "P1" THEN 1 ELSE 0

AddIndex(lf, f, p) ==     \* [lf, raised]
    IF IsPass(f[p])
    THEN [lf |-> IF lf.pass = NoPass \/ Frames(f, lf.pass) = 0 THEN LF(lf.cons, p) ELSE lf, raised |-> FALSE]
    ELSE IF f[p] = "CONS"
    THEN (IF lf.pass # NoPass THEN [lf |-> lf, raised |-> TRUE] ELSE [lf |-> LF(Append(lf.cons, p), lf.pass), raised |-> FALSE])
    ELSE [lf |-> lf, raised |-> FALSE]

Step == /\ i <= Len(file) /\ ~raised
        /\ LET k == file[i]
               split == \/ k = "CONS" /\ IsEnd(cur)
                        \/ Variant # "no_pass_split" /\ IsPass(k) /\ IsEnd(cur) /\ Frames(file, cur.pass) > 0
               base == IF split THEN EmptyLF ELSE cur
               r == AddIndex(base, file, i)
           IN /\ closed' = IF split THEN Append(closed, cur) ELSE closed
              /\ cur' = r.lf
              /\ raised' = r.raised
        /\ i' = i + 1 /\ UNCHANGED file
Finish == /\ i = Len(file) + 1 /\ ~raised
          /\ closed' = IF LenLF(cur) > 0 THEN Append(closed, cur) ELSE closed
          /\ cur' = EmptyLF
          /\ i' = i + 1 /\ UNCHANGED <<file, raised>>
Next == Step \/ Finish
Spec == Init /\ [][Next]_vars

Done == i = Len(file) + 2

(* ---- writing: the LAS files produced, in order; a failing write stops the conversion ---- *)
WriteFails(f, lf) == Variant = "abort_on_empty" /\ lf.pass # NoPass /\ Frames(f, lf.pass) = 0
RECURSIVE Written(_, _, _)
Written(f, lfs, k) == IF k > Len(lfs) \/ WriteFails(f, lfs[k]) THEN <<>> ELSE <<lfs[k]>> \o Written(f, lfs, k + 1)
Aborted(f, lfs) == \E k \in 1..Len(lfs) : WriteFails(f, lfs[k])

(* ---- abstract ---- *)
FullPasses(f) == SelectSeq([p \in 1..Len(f) |-> p], LAMBDA p : f[p] = "P1")
ConsOf(f) == {p \in 1..Len(f) : f[p] = "CONS"}
\* the CONS tables a pass with frames at p describes: those before it, back to (not including) the nearest earlier entry
\* that ends a group - an earlier pass with frames, or an earlier pass of any kind that is followed by a CONS table
GroupStart(f, p) ==
    LET enders == {q \in 1..(p - 1) : \/ f[q] = "P1"
                                      \/ (f[q] = "P0" /\ \E c \in (q + 1)..(p - 1) : f[c] = "CONS")}
    IN IF enders = {} THEN 0 ELSE CHOOSE q \in enders : \A r \in enders : r <= q
AbsCons(f, p) == SelectSeq([c \in 1..Len(f) |-> c], LAMBDA c : f[c] = "CONS" /\ c > GroupStart(f, p) /\ c < p)

(* ---- properties ---- *)
NeverRaises == ~raised
\* the split itself: one logical file per pass with frames, in order, with its CONS tables
SplitOK == Done => LET withData == SelectSeq(closed, LAMBDA lf : lf.pass # NoPass /\ Frames(file, lf.pass) > 0)
                   IN /\ [k \in 1..Len(withData) |-> withData[k].pass] = FullPasses(file)
                      /\ \A k \in 1..Len(withData) : withData[k].cons = AbsCons(file, withData[k].pass)
NoConsLost == Done => \A c \in ConsOf(file) : Cardinality({k \in 1..Len(closed) : \E n \in 1..Len(closed[k].cons) : closed[k].cons[n] = c}) = 1
\* what the user gets: every pass with frames has its LAS file
EveryPassWritten == Done => LET w == Written(file, closed, 1)
                                wd == SelectSeq(w, LAMBDA lf : lf.pass # NoPass /\ Frames(file, lf.pass) > 0)
                            IN [k \in 1..Len(wd) |-> wd[k].pass] = FullPasses(file)
NoAbort == Done => ~Aborted(file, closed)
=============================================================================
