--------------------------------- MODULE Bit ---------------------------------
(* Western Atlas BIT files (TotalDepth.BIT.ReadBIT).

   Abstract content: a file is a sequence of log passes; pass p has nch channels (1..20) and a matrix of
   values V[c][r]; the header gives the channel names and (start, stop, spacing).
   Format (writer): per pass one TIF "first" block (276 byte header) followed by data blocks; block b holds f_b
   frames CHANNEL-MAJOR: all f_b values of channel 1, then channel 2, ...; a type-1 TIF marker ends the pass and
   a second consecutive type-1 marker ends the file.
   Design (reader): the TIF block walker yield_tif_blocks + create_bit_frame_array_from_file + add_block:
   value i of a block with f frames goes to channel i \div f (appended, so frame base + i % f).
   Values are abstract ids <<p, b, c, j>> = pass, block, channel, frame-within-block.

   IBM single precision (ISINGL): word = sign(1) exponent(7, excess 64, base 16) fraction(24);
   value = (-1)^s * fraction * 16^(E-64) / 2^24, an exact dyadic  m * 2^e. *)
EXTENDS Integers, Sequences, FiniteSets, TLC

CONSTANTS Passes      \* sequence of [nch |-> 1..20, blocks |-> sequence of frames-per-block (each >= 1)]

(* ---- the TIF block stream a conformant writer produces ---- *)
PassTokens(p) == <<[t |-> "first", p |-> p]>>
                 \o [b \in 1..Len(Passes[p].blocks) |-> [t |-> "data", p |-> p, b |-> b, f |-> Passes[p].blocks[b]]]
                 \o <<[t |-> "type1"]>>
RECURSIVE AllTokens(_)
AllTokens(p) == IF p > Len(Passes) THEN <<[t |-> "type1"]>> ELSE PassTokens(p) \o AllTokens(p + 1)
Stream == AllTokens(1)

(* ---- abstract expectation ---- *)
RECURSIVE FramesBefore(_, _)
FramesBefore(p, b) == IF b <= 1 THEN 0 ELSE FramesBefore(p, b - 1) + Passes[p].blocks[b - 1]
TotalFrames(p) == FramesBefore(p, Len(Passes[p].blocks) + 1)
BlockOfFrame(p, r) == CHOOSE b \in 1..Len(Passes[p].blocks) : FramesBefore(p, b) < r /\ r <= FramesBefore(p, b + 1)
ExpectedCell(p, c, r) == LET b == BlockOfFrame(p, r) IN <<p, b, c, r - FramesBefore(p, b)>>   \* r is 1-based

(* ---- design: the walker ---- *)
VARIABLES i,        \* index of the next token of Stream
          prev1,    \* the previous marker was of type 1
          cur,      \* pass being assembled (0 = none)
          cols,     \* cols[c] = sequence of value ids of channel c of the pass being assembled
          out,      \* completed passes: sequence of [p, cols]
          done
vars == <<i, prev1, cur, cols, out, done>>

Init == i = 1 /\ prev1 = FALSE /\ cur = 0 /\ cols = <<>> /\ out = <<>> /\ done = FALSE

(* BITFrameArray.add_block: the k-th value (0-based) of a block of f frames belongs to channel k \div f *)
AddBlock(cs, p, b, f) == [c \in 1..Len(cs) |-> cs[c] \o [j \in 1..f |-> <<p, b, c, j>>]]
(* what the file holds at position k of block b: channel-major *)
FileValue(p, b, f, k) == <<p, b, (k \div f) + 1, (k % f) + 1>>
DeinterleaveAgrees(p, b, f, nch) ==
    \A k \in 0..(f * nch - 1) : LET v == FileValue(p, b, f, k) IN AddBlock([c \in 1..nch |-> <<>>], p, b, f)[v[3]][v[4]] = v

Step == /\ ~done /\ i <= Len(Stream)
        /\ LET tk == Stream[i] IN
           CASE tk.t = "first" ->
                  /\ cur = 0                              \* a first block only when no pass is open
                  /\ cur' = tk.p /\ cols' = [c \in 1..Passes[tk.p].nch |-> <<>>]
                  /\ prev1' = FALSE /\ UNCHANGED <<out, done>>
             [] tk.t = "data" ->
                  /\ cur = tk.p
                  /\ cols' = AddBlock(cols, tk.p, tk.b, tk.f)
                  /\ prev1' = FALSE /\ UNCHANGED <<cur, out, done>>
             [] tk.t = "type1" ->
                  IF prev1 THEN done' = TRUE /\ UNCHANGED <<cur, cols, out, prev1>>          \* end of file
                  ELSE /\ out' = IF cur # 0 THEN Append(out, [p |-> cur, cols |-> cols]) ELSE out
                       /\ cur' = 0 /\ cols' = <<>> /\ prev1' = TRUE /\ UNCHANGED done
        /\ i' = i + 1
Next == Step \/ (done /\ UNCHANGED vars)
Spec == Init /\ [][Next]_vars

OnePassEach == done => Len(out) = Len(Passes) /\ \A p \in 1..Len(out) : out[p].p = p
CellsExact == done => \A p \in 1..Len(out) :
                  /\ Len(out[p].cols) = Passes[p].nch
                  /\ \A c \in 1..Passes[p].nch :
                        /\ Len(out[p].cols[c]) = TotalFrames(p)
                        /\ \A r \in 1..TotalFrames(p) : out[p].cols[c][r] = ExpectedCell(p, c, r)
WalkEnds == done => i = Len(Stream) + 1
DeinterleaveOK == \A p \in 1..Len(Passes) : \A b \in 1..Len(Passes[p].blocks) :
                     DeinterleaveAgrees(p, b, Passes[p].blocks[b], Passes[p].nch)

(* ---- IBM single precision as an exact dyadic m * 2^e ---- *)
IbmDyadic(s, E, M) == [m |-> IF s = 1 THEN -M ELSE M, e |-> 4 * (E - 64) - 24]
=============================================================================
