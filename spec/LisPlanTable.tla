---------------------------- MODULE LisPlanTable ----------------------------
(* Oracle table for the planner: every valid case in the bound with the plan LisPlan!Plan gives (already checked PlanOK). *)
EXTENDS LisPlan, Json, IOUtils
Rows == {[S |-> k.S, indr |-> k.indr, start |-> k.start, stop |-> k.stop, step |-> k.step, chs |-> k.chs,
          plan |-> Plan(k.S, k.indr, k.start, k.stop, k.step, k.chs)] : k \in {c \in Cases : ValidCase(c)}}
ASSUME JsonSerialize(IOEnv.OUT_TABLE, SetToSeq(Rows))
=============================================================================
