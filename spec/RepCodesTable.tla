--------------------------- MODULE RepCodesTable ---------------------------
(* Oracle tables: TLC evaluates the reference decoders of RepCodes.tla on (sign, exponent) classes x boundary
   fractions and writes the exact dyadics as JSON; it also checks the encoder laws (ASSUME). *)
EXTENDS RepCodes, Json, IOUtils, SequencesExt

CONSTANTS Step16,    \* 1: every 16-bit word; n: every n-th word plus the boundaries
          VarSeqs    \* byte sequences on which the variable-length consumption operators are evaluated

ASSUME ReencodeLaw
ASSUME PrecisionLaw

Fr23 == {0, 1, 2, 3, 4194303, 4194304, 4194305, 8388606, 8388607}
W68 == { [hi |-> s * 32768 + E * 128 + f \div 65536, lo |-> f % 65536] : s \in {0, 1}, E \in {0, 1, 2, 103, 104, 127, 128, 129, 150, 151, 152, 254, 255}, f \in Fr23 }
T68 == { [code |-> 68, hi |-> w.hi, lo |-> w.lo, d |-> Dec68(w.hi, w.lo)] : w \in W68 }
Halves == {0, 1, 2, 255, 256, 32767, 32768, 32769, 65534, 65535}
T70 == { [code |-> 70, hi |-> h, lo |-> l, d |-> Dec70(h, l)] : h \in Halves, l \in Halves }
T73 == { [code |-> 73, hi |-> h, lo |-> l, d |-> Dec73(h, l)] : h \in Halves, l \in Halves }
T50 == { [code |-> 50, hi |-> h, lo |-> l, d |-> Dec50(h, l)] : h \in {0, 1, 8, 15, 16, 100, 1000, 1023}, l \in Halves }
TFs == { [code |-> 2, hi |-> s * 32768 + E * 128 + f \div 65536, lo |-> f % 65536,
          cls |-> FsClass(s * 32768 + E * 128 + f \div 65536, f % 65536),
          d |-> DecFsingl(s * 32768 + E * 128 + f \div 65536, f % 65536)] : s \in {0, 1}, E \in {0, 1, 2, 126, 127, 128, 149, 150, 253, 254, 255}, f \in Fr23 }
TIs == { [code |-> 5, hi |-> s * 32768 + E * 256 + f \div 65536, lo |-> f % 65536,
          d |-> DecIsingl(s * 32768 + E * 256 + f \div 65536, f % 65536)] : s \in {0, 1}, E \in {0, 1, 63, 64, 65, 66, 127}, f \in {0, 1, 255, 1048576, 7774208, 16777215} }
(* VSINGL: every exponent, both signs, fraction fields with bits at both ends and in every byte; both readings *)
VsFr == {0, 1, 255, 256, 65535, 65536, 819200, 1638400, 4194304, 8388607}
TVs == { [code |-> 6, b |-> <<(E % 2) * 128 + f \div 65536, sg * 128 + E \div 2, f % 256, (f \div 256) % 256>>,
          d24 |-> DecVsingl((E % 2) * 128 + f \div 65536, sg * 128 + E \div 2, f % 256, (f \div 256) % 256, 24),
          d23 |-> DecVsingl((E % 2) * 128 + f \div 65536, sg * 128 + E \div 2, f % 256, (f \div 256) % 256, 23)] :
            sg \in {0, 1}, E \in 1..255, f \in VsFr }
       \cup { [code |-> 6, b |-> <<f \div 65536, 0, f % 256, (f \div 256) % 256>>, d24 |-> D(0, 0), d23 |-> D(0, 0)] : f \in VsFr }
TSl == { [code |-> 14, hi |-> h, lo |-> l, d |-> DecSlong(h, l)] : h \in Halves, l \in Halves }
(* every 16-bit and 8-bit word of the short codes *)
T16 == { [code |-> c, w |-> w, d |-> (CASE c = 49 -> Dec49(w) [] c = 79 -> Dec79(w) [] c = 13 -> DecSnorm(w) [] OTHER -> DecUnorm(w))] :
           c \in {49, 79, 13, 16}, w \in {x \in 0..65535 : x % Step16 = 0 \/ x % 4096 \in {0, 1, 15, 16, 4095} \/ x \in 32760..32776} }
T8 == { [code |-> c, w |-> b, d |-> (CASE c = 56 -> Dec56(b) [] c = 66 -> Dec66(b) [] c = 77 -> Dec77(b) [] c = 12 -> DecSshort(b) [] OTHER -> DecUshort(b))] :
           c \in {56, 66, 77, 12, 15}, b \in 0..255 }
(* variable-length codes: prefixes and their consumption *)
TUv == { [code |-> 18, bytes |-> bs, v |-> Uvari(bs).v, n |-> Uvari(bs).n] :
           bs \in { <<b1, b2, b3, b4>> : b1 \in {0, 1, 127, 128, 129, 191, 192, 193, 255}, b2 \in {0, 255}, b3 \in {0, 1}, b4 \in {0, 254} } }

ASSUME JsonSerialize(IOEnv.OUT_32, SetToSeq(T68 \cup T70 \cup T73 \cup T50 \cup TFs \cup TIs \cup TSl))
ASSUME JsonSerialize(IOEnv.OUT_VS, SetToSeq(TVs))
ASSUME JsonSerialize(IOEnv.OUT_16, SetToSeq(T16))
ASSUME JsonSerialize(IOEnv.OUT_8, SetToSeq(T8))
TVar == { [bytes |-> bs, ident |-> IdentLen(bs), ascii |-> AsciiLen(bs), obname |-> ObnameLen(bs), objref |-> ObjrefLen(bs)] : bs \in VarSeqs }
ASSUME JsonSerialize(IOEnv.OUT_UV, SetToSeq(TUv))
ASSUME JsonSerialize(IOEnv.OUT_VAR, SetToSeq(TVar))
VARIABLE z
Spec == z = 0 /\ [][UNCHANGED z]_z
=============================================================================
