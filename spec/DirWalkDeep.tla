---------------------------- MODULE DirWalkDeep ----------------------------
(* util/DirWalk.py dirWalk over trees of ANY depth.  DirWalk.tla takes one level of sub-directories ("enough to exercise the
   recursion"); seeded change C12-i showed that it is not: a recursive call that forgets to hand the `recursive` flag down still
   walks one level.  Here a tree is a set of files, each a path  <<dir, ..., dir, name>>  with a size; directories are the proper
   prefixes.

   Abstract: recursive -> every file of the tree, once; not recursive -> the files of the top directory only; each with the
   output path  theOut/<relative path>.

   Design (as coded): dirWalk(dir, recursive, bigFirst) lists the directory; alphabetical mode: entries in name order, a file is
   yielded, a directory is walked in place when `recursive`; bigFirst mode: the files by gen_big_first, then every directory in
   name order when `recursive`.  The recursive calls pass BOTH flags on.
   Variant "forget_recursive_big" is the design of C12-i (the biggest-first branch calls itself without `recursive`);
   Variant "forget_big" walks sub-directories alphabetically in bigFirst mode (harmless for C12: the SET is the same). *)
EXTENDS Integers, Sequences, FiniteSets, SequencesExt, TLC

CONSTANTS FileNames, DirNames, MaxDepth, Sizes, Rank, Variant

Paths == UNION {{d \o <<n>> : d \in [1..k -> DirNames], n \in FileNames} : k \in 0..MaxDepth}
Trees == UNION {[S -> Sizes] : S \in SUBSET Paths}

Alpha(a, b) == Rank[a] < Rank[b]
FilesAt(t, dir) == {p \in DOMAIN t : Len(p) = Len(dir) + 1 /\ IsPrefix(dir, p)}
DirsAt(t, dir) == {SubSeq(p, 1, Len(dir) + 1) : p \in {q \in DOMAIN t : Len(q) > Len(dir) + 1 /\ IsPrefix(dir, q)}}

(* ---- abstract ---- *)
Scope(t, rec) == IF rec THEN DOMAIN t ELSE FilesAt(t, <<>>)

(* ---- design ---- *)
RECURSIVE Concat(_)
Concat(ss) == IF ss = <<>> THEN <<>> ELSE ss[1] \o Concat(Tail(ss))
BySize(t, S) == SetToSortSeq(S, LAMBDA a, b : IF t[a] # t[b] THEN t[a] < t[b] ELSE Alpha(Last(a), Last(b)))
ByName(S) == SetToSortSeq(S, LAMBDA a, b : Alpha(Last(a), Last(b)))
RECURSIVE Walk(_, _, _, _)
Walk(t, dir, rec, big) ==
    IF big
    THEN BySize(t, FilesAt(t, dir))
         \o (IF rec THEN LET ds == ByName(DirsAt(t, dir)) IN
                         Concat([i \in 1..Len(ds) |-> Walk(t, ds[i], IF Variant = "forget_recursive_big" THEN FALSE ELSE rec,
                                                           IF Variant = "forget_big" THEN FALSE ELSE big)])
             ELSE <<>>)
    ELSE LET es == ByName(FilesAt(t, dir) \cup (IF rec THEN DirsAt(t, dir) ELSE {})) IN
         Concat([i \in 1..Len(es) |-> IF es[i] \in DOMAIN t THEN <<es[i]>> ELSE Walk(t, es[i], rec, big)])
\* (a file and a directory of one name cannot coexist; names of files and directories are disjoint sets here)

NoDup(s) == \A i, j \in 1..Len(s) : i # j => s[i] # s[j]
RefinesFor(t, rec, big) == LET w == Walk(t, <<>>, rec, big) IN NoDup(w) /\ {w[i] : i \in 1..Len(w)} = Scope(t, rec)
Refines == \A t \in Trees : \A rec \in BOOLEAN : \A big \in BOOLEAN : RefinesFor(t, rec, big)
(* what C12 needs of the two drivers: the sequential one walks alphabetically, the pool one biggest first - same set of tasks *)
SameTasks == \A t \in Trees : \A rec \in BOOLEAN :
    LET a == Walk(t, <<>>, rec, FALSE)  b == Walk(t, <<>>, rec, TRUE) IN {a[i] : i \in 1..Len(a)} = {b[i] : i \in 1..Len(b)}
(* depth at which a variant first differs, for the record *)
OneLevelAgrees == \A t \in Trees : (\A p \in DOMAIN t : Len(p) <= 2) => \A rec \in BOOLEAN : \A big \in BOOLEAN : RefinesFor(t, rec, big)

VARIABLE z
Spec == z = 0 /\ [][UNCHANGED z]_z
=============================================================================
