----------------------------- MODULE DlisLogical -----------------------------
(* RP66V1 logical files (TotalDepth.RP66V1.core.LogicalFile.LogicalIndex): the logical records of a storage unit are
   grouped into logical files; a FILE-HEADER record starts a new logical file, the record after it must be an ORIGIN
   (more ORIGIN-type records may follow anywhere: they are tables like any other),
   encrypted records are skipped, indirectly formatted records are attached to the current file.
   Record kinds: "FH" file header, "OR" origin, "EF" any other explicitly formatted record, "IF" frame data,
   "XE" / "XI" encrypted explicit / indirect records.
   Property: the index lists, per logical file, exactly its unencrypted explicitly formatted records in file order,
   each at its record number; the files are the maximal runs starting at a FILE-HEADER. *)
EXTENDS Integers, Sequences, FiniteSets, TLC
CONSTANTS MaxRecs
Kinds == {"FH", "OR", "EF", "IF", "XE", "XI"}
VARIABLES recs, i, files, bad
vars == <<recs, i, files, bad>>

(* a conformant sequence: starts with FH, every FH is followed (ignoring encrypted records) by an OR *)
RECURSIVE NextPlain(_, _)
NextPlain(s, k) == IF k > Len(s) THEN 0 ELSE IF s[k] \in {"XE", "XI"} THEN NextPlain(s, k + 1) ELSE k
Conformant(s) == /\ Len(s) >= 2 /\ s[1] = "FH"
                 /\ \A k \in 1..Len(s) : s[k] = "FH" => (NextPlain(s, k + 1) # 0 /\ s[NextPlain(s, k + 1)] = "OR")
                 \* further ORIGIN (or WELL-REFERENCE) records anywhere later in the file are conformant: RP66V1 asks for at least one
Init == /\ recs \in UNION {[1..n -> Kinds] : n \in 2..MaxRecs} /\ Conformant(recs)
        /\ i = 1 /\ files = <<>> /\ bad = ""
Step == /\ i <= Len(recs)
        /\ LET k == recs[i] IN
           CASE k \in {"XE", "XI"} -> UNCHANGED <<files, bad>>
             [] k = "FH" -> files' = Append(files, <<i>>) /\ UNCHANGED bad
             [] k \in {"OR", "EF"} -> /\ files' = [files EXCEPT ![Len(files)] = Append(@, i)]
                                      /\ bad' = IF k = "EF" /\ Len(files[Len(files)]) < 2 THEN "record between FILE-HEADER and ORIGIN" ELSE bad
             [] OTHER -> UNCHANGED <<files, bad>>          \* IF: attached to the current file's frame index, not an EFLR entry
        /\ i' = i + 1 /\ UNCHANGED recs
Next == Step \/ (i > Len(recs) /\ UNCHANGED vars)
Spec == Init /\ [][Next]_vars
(* abstract: the files are the runs of unencrypted explicit records between FILE-HEADERs *)
Plain == {k \in 1..Len(recs) : recs[k] \in {"FH", "OR", "EF"}}
FileOf(k) == Cardinality({j \in 1..k : recs[j] = "FH"})
SplitOK == i > Len(recs) =>
             /\ Len(files) = Cardinality({k \in 1..Len(recs) : recs[k] = "FH"})
             /\ \A f \in 1..Len(files) : \A n \in 1..Len(files[f]) : files[f][n] \in Plain /\ FileOf(files[f][n]) = f
             /\ \A k \in Plain : \E n \in 1..Len(files[FileOf(k)]) : files[FileOf(k)][n] = k
             /\ \A f \in 1..Len(files) : \A n \in 1..(Len(files[f]) - 1) : files[f][n] < files[f][n + 1]
NoBad == bad = ""
=============================================================================
