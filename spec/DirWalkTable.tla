---------------------------- MODULE DirWalkTable ----------------------------
(* Oracle table for the directory walk: for every tree in the bound and every (recursive, with/without output directory)
   the abstract set of (input path, output path) pairs. *)
EXTENDS DirWalk, Json, IOUtils
Lst(L) == SetToSeq({<<n, L[n]>> : n \in DOMAIN L})
Row(t, rec) == [files |-> Lst(t.files), dirs |-> SetToSeq({<<d, Lst(t.dirs[d])>> : d \in DOMAIN t.dirs}), rec |-> rec,
                scope |-> SetToSeq(Scope(t, rec))]
ASSUME JsonSerialize(IOEnv.OUT_TABLE, SetToSeq({Row(t, rec) : t \in Trees, rec \in BOOLEAN}))
=============================================================================
