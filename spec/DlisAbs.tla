------------------------------- MODULE DlisAbs -------------------------------
(* Abstract meaning of the RP66V1 physical layer, judged against by every conformance check:
   a file IS the sequence R of logical records R[k] = [kind, type, len, enc]; payload bytes are abstract,
   a byte string is a sequence of ranges <<from, to>> of 1-based payload offsets of one record. *)
EXTENDS Integers, Sequences, FiniteSets

Min2(a, b) == IF a < b THEN a ELSE b
Max2(a, b) == IF a > b THEN a ELSE b

(* merge adjacent ranges (concatenation of byte strings) *)
AppendRange(acc, a, b) ==
    IF b < a THEN acc
    ELSE IF acc # <<>> /\ acc[Len(acc)][2] + 1 = a
         THEN [acc EXCEPT ![Len(acc)] = <<@[1], b>>]
         ELSE Append(acc, <<a, b>>)

(* sequential read: record i is yielded as its kind, type and whole payload *)
WholePayload(L) == IF L = 0 THEN <<>> ELSE << <<1, L>> >>
Expected(R, i) == [idx |-> i, kind |-> R[i].kind, type |-> R[i].type, ranges |-> WholePayload(R[i].len)]

(* random access: the slice [off, off+len) of a payload of length L; len < 0 means to the end *)
GetAbs(L, off, len) ==
    LET hi == IF len < 0 THEN L ELSE Min2(L, off + len)
    IN IF off + 1 > hi THEN <<>> ELSE << <<off + 1, hi>> >>
=============================================================================
