--------------------------- MODULE DictTreeTable ---------------------------
(* util/DictTree.py DictTreeHtmlTable: the rowspan / colspan events that lay a key tree out as an HTML table
   (index pages of common/ToHTML, RP66V1/ScanHTML, PlotLogs, LIS/PlotLogPasses):

       _set_row_span      leaf: 1, else the sum over the children
       _set_column_span   leaf: max_depth - depth (depth of the root is -1), else 1
       gen_row_column_events / ..._from_branch
                          depth first over SORTED keys; ROW_CLOSE, ROW_OPEN between siblings; one cell per node

   A tree is a prefix-closed set of key paths (the root <<>> is not a cell).  Abstract statement, by running the HTML table
   layout algorithm over the events (a cell goes to the first free column of the current row, and occupies
   rowspan x colspan slots): the cells tile a rectangle of (number of leaves) rows x (depth) columns exactly - no overlap,
   no hole - every node is one cell that starts in the column of its depth and in the row of its first leaf, and rows and
   cells come in sorted depth-first order.

   gen_row_column_events_from_branch(b) lays out the sub-tree below b.  Its spans are recomputed relative to the sub-tree
   only when the sub-tree's "valid" flag is off; after the whole tree has been laid out the flag is on and the (root
   relative) spans are reused - Stale = TRUE models that.  The tiling is still exact (StaleStillTiles), but the table is
   wider than the sub-tree is deep (WidthIsDepth is refuted for Stale = TRUE).                                          *)
EXTENDS Integers, Sequences, FiniteSets, SequencesExt, TLC

CONSTANTS KeySeq, MaxDepth

Keys == {KeySeq[i] : i \in 1..Len(KeySeq)}
Rank(k) == CHOOSE i \in 1..Len(KeySeq) : KeySeq[i] = k
Paths == UNION {[1..n -> Keys] : n \in 1..MaxDepth}
PrefixClosed(T) == \A p \in T : \A n \in 1..Len(p) : SubSeq(p, 1, n) \in T
Trees == {T \in SUBSET Paths : PrefixClosed(T)}

Children(T, n) == {p \in T : Len(p) = Len(n) + 1 /\ SubSeq(p, 1, Len(n)) = n}
SortedKids(T, n) == SetToSortSeq(Children(T, n), LAMBDA a, b : Rank(a[Len(a)]) < Rank(b[Len(b)]))
IsLeaf(T, n) == Children(T, n) = {}
Below(T, b) == {p \in T : Len(p) > Len(b) /\ SubSeq(p, 1, Len(b)) = b}
DepthFrom(T, b) == IF Below(T, b) = {} THEN 0
                   ELSE LET S == {Len(p) - Len(b) : p \in Below(T, b)} IN CHOOSE d \in S : \A e \in S : e <= d

(* ---- design ---- *)
RECURSIVE RowSpan(_, _)
RowSpan(T, n) == IF IsLeaf(T, n) THEN 1
                 ELSE LET k == SortedKids(T, n) IN
                      LET RECURSIVE Sum(_)
                          Sum(i) == IF i > Len(k) THEN 0 ELSE RowSpan(T, k[i]) + Sum(i + 1)
                      IN Sum(1)
\* spans computed by set_row_column_span() called on the node `from` (depth of `from` is -1)
ColSpan(T, from, n) == IF IsLeaf(T, n) THEN DepthFrom(T, from) - (Len(n) - Len(from) - 1) ELSE 1

ROpen == [t |-> "open"]
RClose == [t |-> "close"]
Cell(T, from, b, n) == [t |-> "cell", branch |-> SubSeq(n, Len(b) + 1, Len(n)), rs |-> RowSpan(T, n), cs |-> ColSpan(T, from, n)]
RECURSIVE Gen(_, _, _, _)
Gen(T, from, b, n) ==        \* _gen_row_column_events of node n for a table rooted at b with spans relative to `from`
    LET k == SortedKids(T, n) IN
    LET RECURSIVE Each(_)
        Each(i) == IF i > Len(k) THEN <<>>
                   ELSE (IF i # 1 THEN <<RClose, ROpen>> ELSE <<>>) \o <<Cell(T, from, b, k[i])>> \o Gen(T, from, b, k[i]) \o Each(i + 1)
    IN Each(1)
Events(T, from, b) == LET e == Gen(T, from, b, b) IN IF e = <<>> THEN <<>> ELSE <<ROpen>> \o e \o <<RClose>>
EventsRoot(T) == Events(T, <<>>, <<>>)
EventsBranch(T, b, stale) == Events(T, IF stale THEN <<>> ELSE b, b)

(* ---- the HTML table layout algorithm over events: returns [ok, grid] with grid = set of <<row, col>> -> cell index ---- *)
RECURSIVE Layout(_, _, _, _, _, _)
Layout(ev, i, row, inRow, occ, cells) ==
    \* occ: set of occupied <<row, col>>; cells: sequence of [row, col, rs, cs, branch]
    IF i > Len(ev) THEN [ok |-> ~inRow, occ |-> occ, cells |-> cells, rows |-> row]
    ELSE LET e == ev[i] IN
         IF e.t = "open" THEN (IF inRow THEN [ok |-> FALSE, occ |-> occ, cells |-> cells, rows |-> row]
                               ELSE Layout(ev, i + 1, row + 1, TRUE, occ, cells))
         ELSE IF e.t = "close" THEN (IF ~inRow THEN [ok |-> FALSE, occ |-> occ, cells |-> cells, rows |-> row]
                                     ELSE Layout(ev, i + 1, row, FALSE, occ, cells))
         ELSE IF ~inRow \/ e.rs < 1 \/ e.cs < 1 THEN [ok |-> FALSE, occ |-> occ, cells |-> cells, rows |-> row]
         ELSE LET col == CHOOSE c \in 1..(MaxDepth + 2) : <<row, c>> \notin occ /\ \A d \in 1..(c - 1) : <<row, d>> \in occ
                  slots == {<<r, c>> : r \in row..(row + e.rs - 1), c \in col..(col + e.cs - 1)}
              IN IF slots \cap occ # {} THEN [ok |-> FALSE, occ |-> occ, cells |-> cells, rows |-> row]
                 ELSE Layout(ev, i + 1, row, TRUE, occ \cup slots,
                             Append(cells, [row |-> row, col |-> col, rs |-> e.rs, cs |-> e.cs, branch |-> e.branch]))

Leaves(T, b) == {p \in Below(T, b) : IsLeaf(T, p)}
TilesExactly(T, b, ev, width) ==
    LET L == Layout(ev, 1, 0, FALSE, {}, <<>>)
        nrows == Cardinality(Leaves(T, b))
    IN /\ L.ok
       /\ L.rows = nrows
       /\ L.occ = {<<r, c>> : r \in 1..nrows, c \in 1..width}                       \* no hole, nothing outside
       /\ Len(L.cells) = Cardinality(Below(T, b))                                   \* one cell per node
       /\ \A k \in 1..Len(L.cells) : L.cells[k].col = Len(L.cells[k].branch)        \* in the column of its depth
       /\ {L.cells[k].branch : k \in 1..Len(L.cells)} = {SubSeq(p, Len(b) + 1, Len(p)) : p \in Below(T, b)}
       /\ \A k \in 1..Len(L.cells) : IsLeaf(T, b \o L.cells[k].branch) => L.cells[k].col + L.cells[k].cs - 1 = width

RootTiles == \A T \in Trees : TilesExactly(T, <<>>, EventsRoot(T), DepthFrom(T, <<>>))
BranchTiles == \A T \in Trees : \A b \in T : TilesExactly(T, b, EventsBranch(T, b, FALSE), DepthFrom(T, b))
StaleStillTiles == \A T \in Trees : \A b \in T : TilesExactly(T, b, EventsBranch(T, b, TRUE), DepthFrom(T, <<>>) - Len(b))
WidthIsDepth == \A T \in Trees : \A b \in T : TilesExactly(T, b, EventsBranch(T, b, TRUE), DepthFrom(T, b))

VARIABLE z
Spec == z = 0 /\ [][UNCHANGED z]_z
=============================================================================
