------------------------------ MODULE DictTree ------------------------------
(* util/DictTree.py DictTree: "a dictionary that takes a list of hashables as a key and behaves like a tree" - the
   structure behind the HTML index pages of the LIS / RP66V1 / LAS summary writers (common/ToHTML, RP66V1/ScanHTML,
   PlotLogs).  Nested dict nodes, each with an optional value; value_iterable None ("single"), 'list' or 'set'.

   Design (as coded): nodes are created on add() and NEVER pruned; remove() only clears / shrinks the value of the node.
       nodes   the key paths that exist as nodes (prefix closed, <<>> is the root)
       kids    per node the child keys in insertion order (a Python dict)
       val     per node [some |-> value is not None, v |-> the value]
   Abstract: a dictionary  live : path -> value  with the documented meaning of add / remove / value / keys / len / in.

   Checked (must hold): the observations of the design are those of the abstract dictionary up to the representation of
   "no value" (ValueRefines, KeysRefine, LenIsKeys, ContainsIsValue, ValuesFollowKeys, DepthBound, RaiseImpliesAbsent).
   Named deviations of the code from the simple reading, each REFUTED by TLC with a short behaviour and replayed:
       DepthIsLiveDepth        depth() counts branches whose keys were all removed
       RemoveAbsentRaises      removing a key twice does not raise the second time (the node still exists)
       EmptyIsAbsent           list / set: removing the last element leaves an empty collection that is still "in" the tree
       ItemsMatchKeys          items() never yields the root's own value although keys() / values() do                *)
EXTENDS Integers, Sequences, FiniteSets, SequencesExt, TLC

CONSTANTS KeySeq,        \* the keys in sorted order, e.g. <<"a", "b">>
          MaxDepth, Vals, Mode, MaxOps

Keys == {KeySeq[i] : i \in 1..Len(KeySeq)}
Paths == UNION {[1..n -> Keys] : n \in 0..MaxDepth}
PrefixesOf(p) == {SubSeq(p, 1, n) : n \in 0..Len(p)}

EmptyV == IF Mode = "single" THEN 0 ELSE IF Mode = "list" THEN <<>> ELSE {}
NoneRec == [some |-> FALSE, v |-> EmptyV]
Some(v) == [some |-> TRUE, v |-> v]
AddTo(r, x) == IF Mode = "single" THEN Some(x)
               ELSE IF Mode = "list" THEN Some(IF r.some THEN Append(r.v, x) ELSE <<x>>)
               ELSE Some(IF r.some THEN r.v \cup {x} ELSE {x})
Has(r, x) == r.some /\ (IF Mode = "list" THEN \E i \in 1..Len(r.v) : r.v[i] = x ELSE IF Mode = "set" THEN x \in r.v ELSE FALSE)
DelFirst(s, x) == LET i == CHOOSE j \in 1..Len(s) : s[j] = x /\ \A m \in 1..(j - 1) : s[m] # x
                     IN SubSeq(s, 1, i - 1) \o SubSeq(s, i + 1, Len(s))
TakeFrom(r, x) == IF Mode = "list" THEN Some(DelFirst(r.v, x)) ELSE Some(r.v \ {x})
IsEmptyRec(r) == r.some /\ Mode # "single" /\ r.v = EmptyV
Norm(r) == IF IsEmptyRec(r) THEN NoneRec ELSE r

VARIABLES nodes, kids, val,      \* design
          live,                  \* abstract
          raised, absRaised, nops, hist
vars == <<nodes, kids, val, live, raised, absRaised, nops, hist>>

Init == /\ nodes = {<<>>} /\ kids = [n \in {<<>>} |-> <<>>] /\ val = [n \in {<<>>} |-> NoneRec]
        /\ live = [p \in Paths |-> NoneRec]
        /\ raised = FALSE /\ absRaised = FALSE /\ nops = 0 /\ hist = <<>>

(* add(): creates the nodes of the path, children appended to their parent's dict in creation order *)
Add(p, x) ==
    /\ nops < MaxOps
    /\ LET new == PrefixesOf(p) \ nodes
           all == nodes \cup new
       IN /\ nodes' = all
          /\ kids' = [n \in all |->
                        LET old == IF n \in nodes THEN kids[n] ELSE <<>>
                        IN IF Len(n) < Len(p) /\ n = SubSeq(p, 1, Len(n)) /\ SubSeq(p, 1, Len(n) + 1) \in new
                           THEN Append(old, p[Len(n) + 1]) ELSE old]
          /\ val' = [n \in all |-> IF n = p THEN AddTo(IF n \in nodes THEN val[n] ELSE NoneRec, x)
                                   ELSE IF n \in nodes THEN val[n] ELSE NoneRec]
    /\ live' = [live EXCEPT ![p] = AddTo(Norm(@), x)]
    /\ raised' = FALSE /\ absRaised' = FALSE /\ nops' = nops + 1
    /\ hist' = Append(hist, [op |-> "add", key |-> p, v |-> x])

(* remove(key, value=None); x = 0 stands for value=None *)
RemoveOp(p, x) ==
    /\ nops < MaxOps
    /\ LET r == IF p \in nodes THEN val[p] ELSE NoneRec
           whole == Mode = "single" \/ x = 0
           fails == \/ p \notin nodes                               \* 'No key' / 'No key tree'
                    \/ ~whole /\ ~r.some                            \* 'Value of key is None'
                    \/ ~whole /\ r.some /\ ~Has(r, x)               \* '... not in list/set'
       IN /\ raised' = fails
          /\ val' = IF fails THEN val ELSE [val EXCEPT ![p] = IF whole THEN NoneRec ELSE TakeFrom(r, x)]
    /\ LET a == live[p]
           whole == Mode = "single" \/ x = 0
           afails == ~a.some \/ (~whole /\ ~Has(a, x))
       IN /\ absRaised' = afails
          /\ live' = IF afails THEN live ELSE [live EXCEPT ![p] = IF whole THEN NoneRec ELSE Norm(TakeFrom(a, x))]
    /\ nops' = nops + 1 /\ UNCHANGED <<nodes, kids>>
    /\ hist' = Append(hist, [op |-> "remove", key |-> p, v |-> x])

Next == \E p \in Paths : (\E x \in Vals : Add(p, x)) \/ (\E x \in Vals \cup {0} : RemoveOp(p, x))
Spec == Init /\ [][Next]_vars

-----------------------------------------------------------------------------
(* Observations of the design, operator by operator as coded *)
RECURSIVE Dfs(_, _), DfsKids(_, _, _)
Dfs(n, withSelf) == (IF withSelf /\ val[n].some THEN <<n>> ELSE <<>>) \o DfsKids(n, 1, TRUE)
DfsKids(n, i, ws) == IF i > Len(kids[n]) THEN <<>>
                     ELSE Dfs(Append(n, kids[n][i]), ws) \o DfsKids(n, i + 1, ws)
KeysD == Dfs(<<>>, TRUE)                                  \* keys(): the root's own key [] included
ValuesD == [i \in 1..Len(KeysD) |-> val[KeysD[i]].v]      \* values() walks the same way
ItemsD == DfsKids(<<>>, 1, TRUE)                          \* items(): starts below the root
LenD == Len(KeysD)
ValueD(p) == IF p \in nodes THEN val[p] ELSE NoneRec
ContainsD(p) == ValueD(p).some
DepthD == LET S == {Len(n) : n \in nodes} IN CHOOSE d \in S : \A e \in S : e <= d

LiveKeys == {p \in Paths : live[p].some}
LiveDepth == IF LiveKeys = {} THEN 0 ELSE LET S == {Len(p) : p \in LiveKeys} IN CHOOSE d \in S : \A e \in S : e <= d

TypeOK == /\ <<>> \in nodes /\ \A n \in nodes : PrefixesOf(n) \subseteq nodes
          /\ \A n \in nodes : /\ \A i, j \in 1..Len(kids[n]) : i # j => kids[n][i] # kids[n][j]
                              /\ {Append(n, kids[n][i]) : i \in 1..Len(kids[n])} = {m \in nodes : Len(m) = Len(n) + 1 /\ SubSeq(m, 1, Len(n)) = n}
(* must hold *)
ValueRefines == \A p \in Paths : Norm(ValueD(p)) = live[p]
KeysRefine == /\ LiveKeys \subseteq {KeysD[i] : i \in 1..Len(KeysD)}
              /\ \A i \in 1..Len(KeysD) : KeysD[i] \in LiveKeys \/ IsEmptyRec(val[KeysD[i]])
              /\ \A i, j \in 1..Len(KeysD) : i # j => KeysD[i] # KeysD[j]
LenIsKeys == LenD = Cardinality({p \in Paths : ContainsD(p)})
DepthBound == DepthD >= LiveDepth
RaiseImpliesAbsent == raised => absRaised
(* named deviations: each must be refuted *)
DepthIsLiveDepth == DepthD = LiveDepth
RemoveAbsentRaises == absRaised => raised
EmptyIsAbsent == \A p \in Paths : ~IsEmptyRec(ValueD(p))
ItemsMatchKeys == ItemsD = KeysD
=============================================================================
