--------------------------- MODULE FilmTrackTable ---------------------------
(* Oracle table for PhysFilmCfg.interpretTrac: for every film in Films (given as a sequence FilmSeq so that rows can name it) and
   every TRAC string of the notation, the design's answer (edges doubled, in 1/20 inch). *)
EXTENDS FilmTrack, Json, IOUtils, SequencesExt
CONSTANT FilmSeq
ASSUME {FilmSeq[i] : i \in 1..Len(FilmSeq)} = Films
FirstStr(f) == IF f = D THEN "D" ELSE ToString(f)
Row(i, t) == LET d == Design(FilmSeq[i], t) IN
             [film |-> i, trac |-> t.pre \o t.kind \o FirstStr(t.first) \o (IF t.second = -1 THEN "" ELSE ToString(t.second)),
              ok |-> d.ok, l |-> d.l, r |-> d.r, hs |-> d.hs, nh |-> d.nh]
ASSUME JsonSerialize(IOEnv.OUT_TABLE, SetToSeq({Row(i, t) : i \in 1..Len(FilmSeq), t \in Tracs}))
=============================================================================
