---------------------------- MODULE SampleInd ----------------------------
(* Unbounded check (Apalache, inductive invariant) of the error-diffusion sampler of common/Slice.py Sample.gen_indices
   for sample size N < n: after j yields  index * N + rem = j * n  with 0 <= rem < N, hence exactly N indices are yielded,
   the first is 0, they are strictly increasing, below n, and consecutive gaps differ by at most one. *)
EXTENDS Integers

VARIABLES
    \* @type: Int;
    N,
    \* @type: Int;
    n,
    \* @type: Int;
    index,
    \* @type: Int;
    rem,
    \* @type: Int;
    j,
    \* @type: Int;
    last,
    \* @type: Int;
    gap

q == n \div N
m == n % N

Init == /\ N \in Int /\ n \in Int /\ N >= 1 /\ n > N
        /\ index = 0 /\ rem = 0 /\ j = 0 /\ last = -1 /\ gap = 0

Yield == /\ index < n
         /\ LET r == rem + m IN
            /\ index' = index + q + (r \div N)
            /\ rem' = r % N
         /\ j' = j + 1
         /\ last' = index
         /\ gap' = IF last < 0 THEN 0 ELSE index - last
         /\ UNCHANGED <<N, n>>
Next == Yield

IndInv == /\ N >= 1 /\ n > N
          /\ j >= 0 /\ rem >= 0 /\ rem < N
          /\ index * N + rem = j * n
          /\ (j = 0 => last = -1 /\ index = 0)
          /\ (j >= 1 => last >= 0 /\ last < n /\ last < index /\ (last * N <= (j - 1) * n) /\ ((j - 1) * n < last * N + N))
          /\ (j >= 2 => (gap = q \/ gap = q + 1))
          /\ j <= N
          /\ (j = N => index >= n)
IndInit == /\ N \in Int /\ n \in Int /\ index \in Int /\ rem \in Int /\ j \in Int /\ last \in Int /\ gap \in Int
           /\ IndInv
Safety == /\ (index >= n => j = N)           \* exactly N indices when the generator stops
          /\ (j >= 1 => last < n)            \* every yielded index is inside the sequence
(* sanity: the inductive invariant is satisfiable in a non-trivial state and the step is enabled there *)
NotVacuous == ~(j = 3 /\ N = 7 /\ n = 12 /\ index < n)
=============================================================================
