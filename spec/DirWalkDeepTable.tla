-------------------------- MODULE DirWalkDeepTable --------------------------
(* Oracle table for the deep directory walk: every tree in the bound, recursive or not: the abstract set of relative paths. *)
EXTENDS DirWalkDeep, Json, IOUtils
Row(t, rec) == [files |-> SetToSeq({<<p, t[p]>> : p \in DOMAIN t}), rec |-> rec, scope |-> SetToSeq(Scope(t, rec))]
ASSUME JsonSerialize(IOEnv.OUT_TABLE, SetToSeq({Row(t, rec) : t \in Trees, rec \in BOOLEAN}))
=============================================================================
