---------------------------- MODULE LisPlanJudge ----------------------------
(* Judges event plans the REAL planner emitted that differ from the transcription in LisPlan.tla: a different plan is not a
   defect as long as it satisfies the abstract statement (PlanJudged: exactly the requested cells at their true offsets, the
   indirect X once and first, extrapolation to every frame read, ends on a frame boundary).  Input: IN_PLANS, a JSON array
   of [S, indr, start, stop, step, chs, plan]; output: OUT_TABLE, the array of verdicts. *)
EXTENDS LisPlan, Json, IOUtils
Given == JsonDeserialize(IOEnv.IN_PLANS)
WellFormedEv(e) == /\ e.t \in {"read", "skip", "extrapolate"} /\ e.siz \in Int /\ e.fr \in Int /\ e.c0 \in Int /\ e.c1 \in Int
Verdict(k) == /\ \A i \in 1..Len(k.plan) : WellFormedEv(k.plan[i])
              /\ PlanJudged(k.S, k.indr, k.start, k.stop, k.step, k.chs, k.plan)
ASSUME JsonSerialize(IOEnv.OUT_TABLE, [i \in 1..Len(Given) |-> Verdict(Given[i])])
=============================================================================
