------------------------------ MODULE DlisPhys ------------------------------
(* RP66V1 (DLIS) physical layer: Storage Unit Label, visible records, logical record segments.

   WRITER  : every conformant way of laying out a sequence R of logical records
             R[k] = [kind |-> "E"|"I", type |-> 0..255, len |-> payload length, enc |-> BOOLEAN]
             as segments (any even length >= 16; optional pad bytes / checksum / trailing length)
             packed into visible records (length 20..VM where VM <= 16384 is the SUL maximum).
   READER  : the sequential reader of TotalDepth.RP66V1.core.pFile.FileRead.iter_logical_records as a
             machine consuming one segment at a time: header, body length arithmetic, pad stripping,
             accumulation while not last, yield on last, hop to the next visible record.
   The two run in lockstep (the reader consumes each segment as soon as it is emitted) so the state is
   the frontier only; DlisPhysMC adds `hist` (the list of segment choices = the whole layout), hidden by a
   VIEW in the design configuration and kept in the export configurations.

   Payload bytes are abstract: a range [from, to] of 1-based offsets into the payload of record k. *)
EXTENDS DlisAbs, TLC

SULSize == 80
SegMin  == 16      \* minimum segment length (RP66V1 2.2.2.1)
SegHdr  == 4
VRHdr   == 4
VRMin   == 20
VRLimit == 16384   \* RP66V1 2.3.6.5

(* A segment choice s = [n, pad, ck, tr, padbit]:
     n      payload bytes carried
     pad    number of pad bytes INCLUDING the pad count byte (0 = none)
     ck,tr  1 if a checksum / trailing length (2 bytes each) follows the body
     padbit the "padding" attribute bit (= pad > 0, except for encrypted records whose padding is inside
            the opaque body: there the bit may be set and the reader must not strip anything) *)
SegLen(s) == SegHdr + s.n + s.pad + 2 * s.ck + 2 * s.tr
BodyLen(s) == s.n + s.pad                         \* what the reader calls logical_data_length

SegOK(R, k, off, s) ==
    /\ s.ck \in {0, 1} /\ s.tr \in {0, 1} /\ s.pad \in 0..255 /\ s.padbit \in BOOLEAN
    /\ s.n >= 0 /\ s.n <= R[k].len - off
    /\ (s.n = 0 => R[k].len = 0)                  \* an empty segment only for an empty record
    /\ SegLen(s) % 2 = 0 /\ SegLen(s) >= SegMin
    /\ IF R[k].enc THEN s.pad = 0 ELSE s.padbit = (s.pad > 0)

VARIABLES
    k,        \* writer: record being written (Len(R)+1 when finished)
    off,      \* writer: payload bytes of record k already placed
    pos,      \* writer: file position of the next byte to be written
    vrpos,    \* writer: position of the open visible record (0 = none yet)
    vrfill,   \* writer: bytes in the open visible record including its 4 byte header
    nseg,     \* writer: segments emitted so far for record k
    racc,     \* reader: ranges accumulated for the record being read
    rhead,    \* reader: [kind, type] taken from the FIRST segment of the record being read
    nout,     \* reader: records yielded
    last,     \* reader: the last yielded record [idx, kind, type, ranges]
    rerr      \* reader: "" or the reason the reader would raise
fvars == <<k, off, pos, vrpos, vrfill, nseg, racc, rhead, nout, last, rerr>>

NoYield == [idx |-> 0]

PInit == /\ k = 1 /\ off = 0 /\ pos = SULSize /\ vrpos = 0 /\ vrfill = 0 /\ nseg = 0
         /\ racc = <<>> /\ rhead = [kind |-> "", type |-> 0] /\ nout = 0 /\ last = NoYield /\ rerr = ""

(* ---- the reader's step on one segment (pFile: LogicalRecordSegmentHeader.logical_data_length,
        FileRead._read_full_logical_data, iter_logical_records) ---- *)
ReaderBody(R, s, isFirst, isLast) ==
    LET enc    == R[k].enc
        body   == SegLen(s) - SegHdr - 2 * s.ck - 2 * s.tr        \* logical_data_length
        strip  == IF s.padbit /\ ~enc THEN s.pad ELSE 0          \* pad count = last body byte
        keep   == body - strip                                    \* payload bytes kept
        acc0   == IF isFirst THEN <<>> ELSE racc
        acc1   == AppendRange(acc0, off + 1, off + keep)
        head   == IF isFirst THEN [kind |-> R[k].kind, type |-> R[k].type] ELSE rhead
    IN /\ rerr' = IF isFirst # (nseg = 0) THEN "first bit inconsistent" ELSE rerr
       /\ rhead' = head
       /\ IF isLast
          THEN /\ last' = [idx |-> nout + 1, kind |-> head.kind, type |-> head.type, ranges |-> acc1]
               /\ nout' = nout + 1 /\ racc' = <<>>
          ELSE /\ racc' = acc1 /\ UNCHANGED <<last, nout>>

(* ---- one conformant segment is written (opening a new visible record when nv) and read ---- *)
Emit(R, VM, s, nv) ==
    /\ k <= Len(R) /\ rerr = ""
    /\ SegOK(R, k, off, s)
    /\ LET L == SegLen(s)
           isFirst == (off = 0 /\ nseg = 0)
           isLast  == (s.n = R[k].len - off)
       IN /\ IF nv
             THEN /\ (vrfill = 0 \/ vrfill >= VRMin)             \* the closed record is a legal one
                  /\ VRHdr + L <= VM
                  /\ vrpos' = pos /\ vrfill' = VRHdr + L /\ pos' = pos + VRHdr + L
             ELSE /\ vrfill > 0 /\ vrfill + L <= VM
                  /\ vrfill' = vrfill + L /\ pos' = pos + L /\ UNCHANGED vrpos
          /\ ReaderBody(R, s, isFirst, isLast)
          /\ IF isLast THEN k' = k + 1 /\ off' = 0 /\ nseg' = 0
                       ELSE k' = k /\ off' = off + s.n /\ nseg' = nseg + 1

Finished(R) == k = Len(R) + 1

(* ---------------------------------------------------------------- properties *)
(* the abstract property: what is yielded is what was written, in order *)
YieldExact(R)  == last # NoYield => last = Expected(R, last.idx)
YieldInOrder(R) == nout = k - 1 /\ (last # NoYield => last.idx = nout)
NoReaderError  == rerr = ""
AllYielded(R)  == Finished(R) => nout = Len(R)
VRLegal(VM)    == vrfill = 0 \/ (vrfill >= VRMin /\ vrfill <= VM /\ VM <= VRLimit)
PosTrue        == vrfill > 0 => pos = vrpos + vrfill

(* ---------------------------------------------------------------- Storage Unit Label *)
(* field text classes: digits right-justified in a field of width w, padded by zeros or blanks *)
SulSeqNos  == {1, 9, 10, 100, 101, 1000, 1010, 9999}
SulMaxLens == {20, 100, 1000, 1024, 8192, 8200, 10240, 16000, 16384}
SulPads    == {"zero", "blank"}
SulIdents  == {"blank", "printable", "nonascii"}
SulCases   == [seq : SulSeqNos, maxlen : SulMaxLens, padding : SulPads, ident : SulIdents]
(* the abstract property of the label: any conformant label is accepted and reported as written *)
SulReport(c) == [seq |-> c.seq, maxlen |-> c.maxlen, ident |-> c.ident]
=============================================================================
