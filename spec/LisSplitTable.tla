--------------------------- MODULE LisSplitTable ---------------------------
(* Oracle table for the logical-file split of LIS/ToLAS.py: for every entry sequence in the bound the LAS files the
   DESIGN (LisSplit's loop, run to completion by the operator below) produces, in order: the CONS tables each carries
   and the log pass whose frames it holds (0: none).  The design is checked against the abstract statement by TLC
   (MC_LisSplit); the harness renders every sequence as a real LIS file and compares the real converter's output files
   with these rows. *)
EXTENDS LisSplit, Json, IOUtils

RECURSIVE Loop(_, _, _, _)
Loop(f, p, cl, c) ==
    IF p > Len(f) THEN (IF LenLF(c) > 0 THEN Append(cl, c) ELSE cl)
    ELSE LET k == f[p]
             split == \/ k = "CONS" /\ IsEnd(c)
                      \/ Variant # "no_pass_split" /\ IsPass(k) /\ IsEnd(c) /\ Frames(f, c.pass) > 0
             base == IF split THEN EmptyLF ELSE c
         IN Loop(f, p + 1, IF split THEN Append(cl, c) ELSE cl, AddIndex(base, f, p).lf)

Row(f) == LET lfs == Written(f, Loop(f, 1, <<>>, EmptyLF), 1)
          IN [file |-> f,
              las |-> [k \in 1..Len(lfs) |-> [cons |-> lfs[k].cons,
                                              pass |-> IF lfs[k].pass # NoPass /\ Frames(f, lfs[k].pass) > 0 THEN lfs[k].pass ELSE 0]]]
ASSUME JsonSerialize(IOEnv.OUT_TABLE, SetToSeq({Row(f) : f \in Files}))
=============================================================================
