------------------------------ MODULE PlotWrap ------------------------------
(* Curve scaling and wrapping of the log plotter (util/plot/PRESCfg.py LineTransLin/LineTransLog10.wrapPos, Plot.py
   Plot._plotSingleOutput, _interpolateBackup, _retInterpolateWrapPoints, _filterCrossLineList).

   Abstract part: a value with normalised scale position p (a rational num/den; linear: (v - lL)/(rL - lL); logarithmic:
   log(v/lL)/log(rL/lL), supplied as a rational for values lL*(rL/lL)^(i/j)) is drawn at
        wrap = Floor(p),   pos = lP + (p - wrap) * (rP - lP)
   so that  lP <= pos <= rP  (InTrack)  and  pos + wrap * (rP - lP) = lP + p * (rP - lP)  (Unwrap).
   Positions are carried multiplied by den so that everything is an integer.

   Design part: the polyline machine.  Samples <<x, v>> arrive in x order, v may be Absent.  Per curve the machine keeps
   the previous wrap, the previous x and a buffer of points; a wrap change between two samples ends the polyline at the
   track edge, draws crossing lines (bounded) and resumes from the other edge; off-scale wraps (back-up mode) are not drawn.
   TLC checks, for every sample sequence in the bound, that every emitted point lies in the track and in the x interval
   of the step that produced it, that the number of crossing lines per step is bounded, and that nothing is drawn for an
   absent sample.  ResetAtGap selects what an absent sample does to the previous point:
        FALSE  flush the buffer only (as coded): the next sample is joined to the one before the gap
        TRUE   flush and forget the previous point *)
EXTENDS Integers, Sequences, FiniteSets, TLC

CONSTANTS LP, RP,          \* track edges (integers, LP < RP)
          LL, RL,          \* scale edges (integers, LL # RL)
          BU,              \* back-up mode <<left, right>> as in PRESCfg.BACKUP_*
          Values,          \* sample values to choose from (integers)
          Absent,          \* model value
          MaxLen,          \* samples per behaviour
          MaxCross,        \* Plot.MAX_BACKUP_TRACK_CROSSING_LINES
          ResetAtGap

W == RP - LP
Den == RL - LL

-----------------------------------------------------------------------------
(* Abstract: wrap and position (times Den) of a value, floor division for either sign of Den *)
FloorDiv(a, b) == IF b > 0 THEN a \div b ELSE (-a) \div (-b)          \* TLC's \div floors for positive divisors
Wrap(v) == FloorDiv(v - LL, Den)
PosN(v) == LP * Den + ((v - LL) - Wrap(v) * Den) * W                  \* pos * Den
InTrackN(posN) == IF Den > 0 THEN LP * Den <= posN /\ posN <= RP * Den ELSE RP * Den <= posN /\ posN <= LP * Den
UnwrapOK(v) == PosN(v) + Wrap(v) * W * Den = LP * Den + (v - LL) * W

AbstractOK == \A v \in Values : InTrackN(PosN(v)) /\ UnwrapOK(v)

OffScale(w) == IF w < 0 /\ BU[1] # 0 /\ w < BU[1] THEN -1
               ELSE IF w > 0 /\ BU[2] # 0 /\ w > BU[2] THEN 1 ELSE 0

-----------------------------------------------------------------------------
(* Design: the polyline machine.  x of sample i is 2*K*i (even spacing, room for interpolated x). *)
K == 8 * MaxCross + 8
XOf(i) == 2 * K * i

VARIABLES samples,     \* the input, chosen in Init
          i,           \* next sample (1-based)
          prevWrap, havePrev, xPrev,
          buffer,      \* points <<x, posN>> of the open polyline
          lines,       \* emitted polylines
          stepPts,     \* points emitted/appended during the current step, with the step's x interval: <<x, posN, xlo, xhi>>
          crossCount   \* crossing lines drawn in the last step
vars == <<samples, i, prevWrap, havePrev, xPrev, buffer, lines, stepPts, crossCount>>

Init == /\ samples \in UNION {[1..n -> Values \cup {Absent}] : n \in 1..MaxLen}
        /\ i = 1 /\ prevWrap = 0 /\ havePrev = FALSE /\ xPrev = 0
        /\ buffer = <<>> /\ lines = <<>> /\ stepPts = <<>> /\ crossCount = 0

Flush(buf, ls) == IF buf = <<>> THEN ls ELSE Append(ls, buf)

(* _retInterpolateWrapPoints: returns [polyEnd, cross, polyNew] as sequences of <<x, posN>> (x in units of xInc) *)
Abs(n) == IF n < 0 THEN -n ELSE n
EdgeL == LP * Den
EdgeR == RP * Den
RECURSIVE CrossLines(_, _, _, _)
CrossLines(x, d, inc, xstep) ==          \* d: remaining wrap difference, inc: wrapIncrement, xstep: 2 * xInc
    IF Abs(d) > inc
    THEN IF d > 0 THEN <<<<x, EdgeL>>, <<x + xstep, EdgeR>>>> \o CrossLines(x + xstep, d - inc, inc, xstep)
         ELSE <<<<x, EdgeR>>, <<x + xstep, EdgeL>>>> \o CrossLines(x + xstep, d + inc, inc, xstep)
    ELSE <<>>
RECURSIVE Residual(_, _)
Residual(d, inc) == IF Abs(d) > inc THEN (IF d > 0 THEN Residual(d - inc, inc) ELSE Residual(d + inc, inc)) ELSE d

Interp(xP, xN, posNow, wP, wN) ==
    LET bothOff == (OffScale(wP) = -1 /\ OffScale(wN) = -1) \/ (OffScale(wP) = 1 /\ OffScale(wN) = 1)
        d0   == wN - wP
        \* xInc = (xN - xP) / (2 |d0|): x is kept multiplied by |d0| only conceptually; here the spacing 2K guarantees
        \* integer steps for |d0| <= 4 MaxCross + 4, larger differences are reduced by the increment rule first
        inc  == IF Abs(d0) > 2 * MaxCross THEN (Abs(d0) \div 4) * MaxCross ELSE 1
        nseg == 2 * Abs(d0)
        xInc == (xN - xP) \div nseg                      \* floor: only the ordering of x matters for the properties
        x1   == xP + xInc
        cl   == CrossLines(x1, d0, inc, 2 * xInc)
        xe   == x1 + (Len(cl) \div 2) * 2 * xInc
        dr   == Residual(d0, inc)
    IN IF bothOff THEN [polyEnd |-> <<>>, cross |-> <<>>, polyNew |-> <<>>]
       ELSE [polyEnd |-> IF OffScale(wP) = 0 THEN <<<<x1, IF d0 > 0 THEN EdgeR ELSE EdgeL>>>> ELSE <<>>,
             cross   |-> cl,
             polyNew |-> IF OffScale(wN) = 0 THEN <<<<xe, IF dr > 0 THEN EdgeL ELSE EdgeR>>, <<xN, posNow>>>> ELSE <<>>]

(* _filterCrossLineList keeps at most MaxCross (+1) of the crossing lines: modelled as keeping a prefix *)
Filter(cl) == IF Len(cl) \div 2 <= MaxCross THEN cl ELSE SubSeq(cl, 1, 2 * (MaxCross + 1))

Tag(pts, lo, hi) == [k \in 1..Len(pts) |-> <<pts[k][1], pts[k][2], lo, hi>>]

AbsentStep == /\ i <= Len(samples) /\ samples[i] = Absent
              /\ lines' = Flush(buffer, lines) /\ buffer' = <<>>
              /\ havePrev' = (IF ResetAtGap THEN FALSE ELSE havePrev)
              /\ stepPts' = <<>> /\ crossCount' = 0
              /\ i' = i + 1
              /\ UNCHANGED <<samples, prevWrap, xPrev>>

SampleStep == /\ i <= Len(samples) /\ samples[i] # Absent
              /\ LET v == samples[i]  w == Wrap(v)  p == PosN(v)  x == XOf(i)
                     ip == IF havePrev /\ w # prevWrap THEN Interp(xPrev, x, p, prevWrap, w)
                           ELSE [polyEnd |-> <<>>, cross |-> <<>>, polyNew |-> <<>>]
                     doI == havePrev /\ w # prevWrap
                     cl == Filter(ip.cross)
                     \* end the old polyline, one polyline per crossing line, start the new one
                     l1 == IF doI THEN Flush(buffer \o ip.polyEnd, lines) ELSE lines
                     l2 == l1 \o [k \in 1..(Len(cl) \div 2) |-> <<cl[2 * k - 1], cl[2 * k]>>]
                     b1 == IF doI THEN ip.polyNew ELSE buffer
                     b2 == IF OffScale(w) = 0 THEN Append(b1, <<x, p>>) ELSE b1
                 IN /\ lines' = l2 /\ buffer' = b2
                    /\ stepPts' = Tag((IF doI THEN ip.polyEnd \o cl \o ip.polyNew ELSE <<>>)
                                      \o (IF OffScale(w) = 0 THEN <<<<x, p>>>> ELSE <<>>), IF havePrev THEN xPrev ELSE x, x)
                    /\ crossCount' = Len(cl) \div 2
                    /\ prevWrap' = w /\ havePrev' = TRUE /\ xPrev' = x
              /\ i' = i + 1
              /\ UNCHANGED samples

Finish == /\ i = Len(samples) + 1
          /\ lines' = Flush(buffer, lines) /\ buffer' = <<>> /\ i' = i + 1
          /\ stepPts' = <<>> /\ crossCount' = 0
          /\ UNCHANGED <<samples, prevWrap, havePrev, xPrev>>

Next == AbsentStep \/ SampleStep \/ Finish
Spec == Init /\ [][Next]_vars

-----------------------------------------------------------------------------
PointsInTrack == \A k \in 1..Len(stepPts) : InTrackN(stepPts[k][2])
PointsInStep == \A k \in 1..Len(stepPts) : stepPts[k][3] <= stepPts[k][1] /\ stepPts[k][1] <= stepPts[k][4]
CrossBounded == crossCount <= MaxCross + 1
(* nothing is drawn at or across an absent sample: no point of a step has the x of an absent sample, and a step whose
   interval contains an absent sample draws only the plain point of the new sample *)
AbsentXs == {XOf(j) : j \in {k \in 1..Len(samples) : samples[k] = Absent}}
NothingForAbsent == \A k \in 1..Len(stepPts) :
                       /\ stepPts[k][1] \notin AbsentXs
                       /\ (\E a \in AbsentXs : stepPts[k][3] < a /\ a < stepPts[k][4]) => Len(stepPts) <= 1
(* every polyline that is emitted has at least two points or is a lone sample between gaps / wraps *)
LinesInTrack == \A n \in 1..Len(lines) : \A k \in 1..Len(lines[n]) : InTrackN(lines[n][k][2])
=============================================================================
