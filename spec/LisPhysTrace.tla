---------------------------- MODULE LisPhysTrace ----------------------------
(* Trace validation for the LIS physical layer (C05), judged against LisPhysAbs.

   kind "read" : 1. the layout as "pr" events (each must be a legal next physical record: the generator is
                    vetted here; start positions are derived here), "endlayout";
                 2. the history of operations on ONE real File.FileRead: take (read/skip, sized or rest),
                    tonext, seek, tell, eofflag - each with its result.
   kind "write": what the real File.FileWrite produced, parsed by the harness's independent LIS-79 parser:
                 w_lr (payload length, returned position) followed by its w_pr records (position, lengths,
                 attribute bits, trailer, TIF words, payload projection), then w_close and strip. *)
EXTENDS LisPhysAbs, Json, IOUtils, TLC

Data == JsonDeserialize(IOEnv.TRACE_FILE)
Traces == Data.traces

VARIABLES tid, l,
          phase,     \* "layout" | "ops" | "write"
          cur,       \* layout/writer: [k, off] record being laid out and payload bytes placed
          pos,       \* layout/writer: file position of the next byte
          starts,    \* start position of each record laid out so far
          npr,       \* physical records so far
          prevM,     \* position of the previous TIF marker
          a          \* the abstract reader cursor
tvars == <<tid, l, phase, cur, pos, starts, npr, prevM, a>>

Lens == Data.lens[tid]
Tif  == Data.tif[tid]            \* "none" | "le" | "be"
Cfg  == Data.cfg[tid]            \* writer traces: [maxpr, rn, fn, ck]
Ev == Traces[tid][l]
More == l <= Len(Traces[tid])
TifLen == IF Tif = "none" THEN 0 ELSE 12

TInit == /\ tid \in 1..Len(Traces) /\ l = 1
         /\ phase = (IF Data.kind[tid] = "write" THEN "write" ELSE "layout")
         /\ cur = [k |-> 1, off |-> 0] /\ pos = 0 /\ starts = <<>> /\ npr = 0 /\ prevM = 0 /\ a = AInit

Advance(n, prlen) ==
    /\ cur.k <= Len(Lens) /\ n >= 1 /\ n <= Lens[cur.k] - cur.off /\ prlen <= 65535
    /\ starts' = IF cur.off = 0 THEN Append(starts, pos) ELSE starts
    /\ prevM' = pos
    /\ pos' = pos + TifLen + prlen
    /\ npr' = npr + 1
    /\ cur' = IF n = Lens[cur.k] - cur.off THEN [k |-> cur.k + 1, off |-> 0] ELSE [k |-> cur.k, off |-> cur.off + n]

(* ---- layout of a generated file ---- *)
Pr == /\ More /\ Ev.op = "pr" /\ phase = "layout"
      /\ Ev.last = (Ev.n = Lens[cur.k] - cur.off)
      /\ Advance(Ev.n, PrLen(Ev))
      /\ UNCHANGED <<phase, a>>
EndLayout == /\ More /\ Ev.op = "endlayout" /\ phase = "layout" /\ cur.k = Len(Lens) + 1
             /\ Ev.size = pos + 2 * TifLen
             /\ phase' = "ops" /\ UNCHANGED <<cur, pos, starts, npr, prevM, a>>

(* ---- operations on the real reader ---- *)
Op(cond) == More /\ phase = "ops" /\ cond /\ UNCHANGED <<phase, cur, pos, starts, npr, prevM>>
TakeEv == Op(/\ Ev.op = "take" /\ a.mode # "eof" /\ (Ev.n >= 1 \/ Ev.n = All)
             /\ LET t == Take(Lens, a, Ev.n) IN
                /\ (IF Ev.kind = "read" THEN Ev.r = t.r ELSE Ev.cnt = Count(t.r))
                /\ a' = t.a)
ToNextEv == Op(/\ Ev.op = "tonext" /\ a.mode # "eof"
               /\ LET t == ToNext(Lens, a) IN Ev.cnt = t.r /\ a' = t.a)
SeekEv == Op(/\ Ev.op = "seek" /\ Ev.j \in 1..Len(Lens) /\ Ev.p = starts[Ev.j] /\ a' = Seek(a, Ev.j))
SeekCurEv == Op(/\ Ev.op = "seekcur" /\ a.told # 0 /\ Ev.p = starts[a.told] /\ a' = Seek(a, a.told))
TellEv == Op(/\ Ev.op = "tell" /\ a.told # 0 /\ Ev.r = starts[a.told] /\ a' = a)
EofEv == Op(/\ Ev.op = "eofflag" /\ Ev.v = (a.mode = "eof") /\ a' = a)

(* ---- what the real writer produced ---- *)
WLr == /\ More /\ Ev.op = "w_lr" /\ phase = "write" /\ cur.off = 0 /\ cur.k <= Len(Lens)
       /\ Ev.len = Lens[cur.k] /\ Ev.ret = pos
       /\ UNCHANGED <<phase, cur, pos, starts, npr, prevM, a>>
WPr == /\ More /\ Ev.op = "w_pr" /\ phase = "write"
       /\ Ev.rn = Cfg.rn /\ Ev.fn = Cfg.fn /\ Ev.ck = Cfg.ck
       \* trailer contents: physical records are numbered consecutively through the file (LIS-79 does not say from 0 or from 1:
       \* Cfg.rnbase is the number of the first one as written); the file number is the configured one
       \* (the checksum value is not judged: its definition could not be checked against the standard offline)
       /\ (Ev.rn = 1 => Cfg.rnbase \in {0, 1} /\ Ev.rnval = (npr + Cfg.rnbase) % 65536) /\ (Ev.fn = 1 => Ev.fnval = Cfg.fnval)
       /\ Ev.prlen = PrLen(Ev) /\ Ev.prlen <= Cfg.maxpr
       /\ Ev.succ = (Ev.n < Lens[cur.k] - cur.off) /\ Ev.pred = (cur.off > 0)
       /\ Ev.hdrpos = pos + TifLen
       /\ Ev.ranges = <<cur.k, cur.off + 1, cur.off + Ev.n>>
       /\ (Tif # "none" => Ev.tif = <<0, IF npr = 0 THEN 0 ELSE prevM, pos + 12 + Ev.prlen>>)
       /\ Advance(Ev.n, Ev.prlen)
       /\ UNCHANGED <<phase, a>>
WClose == /\ More /\ Ev.op = "w_close" /\ phase = "write" /\ cur.k = Len(Lens) + 1
          /\ Ev.size = pos + 2 * TifLen
          /\ (Tif # "none" => /\ Ev.eof1 = <<1, prevM, pos + 12>>
                              /\ Ev.eof2 = <<1, pos, pos + 24>>)
          /\ UNCHANGED <<phase, cur, pos, starts, npr, prevM, a>>
(* strip_tif(TIF file) = the same records written without TIF markers *)
Strip == /\ More /\ Ev.op = "strip" /\ cur.k = Len(Lens) + 1
         /\ Ev.equal /\ Ev.markers = npr + 2 /\ Ev.bytes = pos - 12 * npr
         /\ UNCHANGED <<phase, cur, pos, starts, npr, prevM, a>>

Done == ~More /\ UNCHANGED <<phase, cur, pos, starts, npr, prevM, a>>
TNext == \/ (Pr \/ EndLayout \/ TakeEv \/ ToNextEv \/ SeekEv \/ SeekCurEv \/ TellEv \/ EofEv \/ WLr \/ WPr \/ WClose \/ Strip)
            /\ l' = l + 1 /\ UNCHANGED tid
         \/ Done /\ UNCHANGED <<tid, l>>
TSpec == TInit /\ [][TNext]_tvars
=============================================================================
