---------------------------- MODULE BatchTrace ----------------------------
(* Trace validation for C12: each trace is one real batch run of WriteLAS.convert_dir_or_file_to_las ("seq") or
   convert_dir_or_file_to_las_multiprocessing ("pool", jobs = J) with a traced, picklable conversion function:

     start    the files of the directory (in no particular order), the mode, and for every file what converting it ON ITS OWN
              gives: iso[i] = [status, fields, outs] (outs = <<[path, digest]...>>, digest of the content without the creation-time line)
     take     worker process w starts file f          (per-process event files with sequence numbers; the per-worker
     finish   worker w returns the result of file f    sequences are concatenated, which is a valid linearisation because
     escape   an exception left the conversion function  Take may pick any pending file, see Batch.tla)
     end      the dictionary returned by the driver and the output tree found on disk (or "raised" if the driver raised)

   The actions are those of Batch.tla (Take, Finish, Escape); the run must end with one result per file, equal to the
   isolated one, and with exactly the isolated output tree.  A rejected trace deadlocks at (tid, l). *)
EXTENDS Integers, Sequences, FiniteSets, TLC, Json, IOUtils

Data == JsonDeserialize(IOEnv.TRACE_FILE)
Traces == Data.traces
VARIABLES tid, l, files, iso, pending, running, result, phase
tvars == <<tid, l, files, iso, pending, running, result, phase>>
Ev == Traces[tid][l]
More == l <= Len(Traces[tid])
SetOf(s) == {s[i] : i \in 1..Len(s)}
Put(t, k, v) == [x \in DOMAIN t \cup {k} |-> IF x = k THEN v ELSE t[x]]

TInit == /\ tid \in 1..Len(Traces) /\ l = 1 /\ files = {} /\ iso = <<>> /\ pending = {} /\ running = <<>> /\ result = <<>>
         /\ phase = "new"

Start == /\ More /\ Ev.op = "start" /\ phase = "new"
         /\ Len(Ev.iso) = Len(Ev.files)
         /\ Cardinality(SetOf(Ev.files)) = Len(Ev.files)
         /\ files' = SetOf(Ev.files)
         /\ iso' = [f \in SetOf(Ev.files) |-> Ev.iso[CHOOSE i \in 1..Len(Ev.files) : Ev.files[i] = f]]
         /\ pending' = SetOf(Ev.files)
         /\ running' = <<>> /\ result' = <<>> /\ phase' = "run"

Idle(w) == IF w \in DOMAIN running THEN running[w] = "" ELSE TRUE      \* (IF, not \/: inside an action TLC splits disjunctions)
Take == /\ More /\ Ev.op = "take" /\ phase = "run"
        /\ Ev.f \in pending /\ Idle(Ev.w)
        /\ pending' = pending \ {Ev.f}
        /\ running' = Put(running, Ev.w, Ev.f)
        /\ UNCHANGED <<files, iso, result, phase>>

(* the worker's answer is the isolated answer *)
Finish == /\ More /\ Ev.op = "finish" /\ phase = "run"
          /\ ~Idle(Ev.w) /\ running[Ev.w] = Ev.f
          /\ Ev.status = iso[Ev.f].status
          /\ Ev.fields = iso[Ev.f].fields
          /\ running' = Put(running, Ev.w, "")
          /\ result' = Put(result, Ev.f, Ev.status)
          /\ UNCHANGED <<files, iso, pending, phase>>

(* Batch!Escape is only enabled without the per-file guard: a real run must never show it *)
Escape == FALSE /\ UNCHANGED tvars

AllOuts == UNION {SetOf(iso[f].outs) : f \in files}
End == /\ More /\ Ev.op = "end" /\ phase = "run"
       /\ ~Ev.raised
       /\ pending = {} /\ \A w \in DOMAIN running : running[w] = ""
       /\ DOMAIN result = files
       \* the returned dictionary: one entry per file with the isolated status
       /\ Cardinality(SetOf(Ev.results)) = Len(Ev.results)
       /\ SetOf(Ev.results) = {[f |-> f, status |-> iso[f].status, fields |-> iso[f].fields] : f \in files}
       \* the tree: exactly the isolated outputs (paths are distinct across files in the generated directories)
       /\ Cardinality(SetOf(Ev.tree)) = Len(Ev.tree)
       /\ SetOf(Ev.tree) = AllOuts
       /\ phase' = "done"
       /\ UNCHANGED <<files, iso, pending, running, result>>

Done == ~More
TNext == \/ (Start \/ Take \/ Finish \/ Escape \/ End) /\ l' = l + 1 /\ UNCHANGED tid
         \/ Done /\ UNCHANGED tvars
TSpec == TInit /\ [][TNext]_tvars
=============================================================================
