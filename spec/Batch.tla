------------------------------- MODULE Batch -------------------------------
(* Batch conversion of a directory to LAS (LAS/core/WriteLAS.py):

     convert_dir_or_file_to_las                  one process walks the directory and converts file after file, handing every
                                                 conversion the SAME mutable request-set object
     convert_dir_or_file_to_las_multiprocessing  one task per file on a pool of worker processes (each task gets a pickled
                                                 copy of the arguments), results collected with r.get() in submission order

   A conversion of file f is a function of the file alone:  Status[f] in {"ok", "failed", "ignored"} and the set Out[f] of
   (path, content) pairs it writes - EXCEPT for the two mechanisms that this model makes explicit:

     Guard   TRUE: the per-file try/except turns every exception into a "failed" result (as coded in single_*_to_las);
             FALSE: the exception of a "failed" file reaches r.get() / the loop and aborts the batch.
     Carry   TRUE: state written by one conversion is seen by the next one in the same process (the shared request set of the
             sequential driver: a file of class "leaky" changes what a later "sensitive" file writes); FALSE: no such state.
     Paths   output paths of different files may coincide (Out is keyed by path): the last writer wins.

   The properties: one result per file; a bad file never prevents or alters the others; results and output tree are the
   same for every schedule and equal to the isolated conversions. *)
EXTENDS Integers, FiniteSets, Sequences, TLC

CONSTANTS Files,        \* set of file ids
          Workers,      \* set of worker ids (pool mode)
          Mode,         \* "seq" | "pool"
          Guard, Carry,
          Class,        \* [Files -> {"good", "bad", "foreign", "leaky", "sensitive"}]
          PathOf        \* [Files -> output path]: equal paths collide

Status(f) == CASE Class[f] = "bad" -> "failed" [] Class[f] = "foreign" -> "ignored" [] OTHER -> "ok"
(* the content a conversion writes: a sensitive file writes something else when it has seen a leak *)
Content(f, sawLeak) == IF Class[f] = "sensitive" /\ sawLeak THEN <<f, "tainted">> ELSE <<f, "clean">>
Writes(f) == Status(f) = "ok"

VARIABLES pending,      \* files not yet taken
          running,      \* [Workers -> file or "idle"]
          leak,         \* [Workers -> BOOLEAN]: process-local state left behind by a leaky conversion
          result,       \* [file -> status] for finished files
          tree,         \* [path -> content] written so far
          aborted
vars == <<pending, running, leak, result, tree, aborted>>

W == IF Mode = "seq" THEN {CHOOSE w \in Workers : TRUE} ELSE Workers

Init == /\ pending = Files
        /\ running = [w \in Workers |-> "idle"]
        /\ leak = [w \in Workers |-> FALSE]
        /\ result = <<>> /\ tree = <<>> /\ aborted = FALSE

(* any pending task may be taken by any idle worker: the queue order is not part of the property *)
Take(w, f) == /\ ~aborted /\ w \in W /\ f \in pending /\ running[w] = "idle"
              /\ running' = [running EXCEPT ![w] = f]
              /\ pending' = pending \ {f}
              /\ UNCHANGED <<leak, result, tree, aborted>>

Put(t, k, v) == [x \in DOMAIN t \cup {k} |-> IF x = k THEN v ELSE t[x]]

Finish(w, f) == /\ ~aborted /\ running[w] = f
                /\ Guard \/ Status(f) # "failed"
                /\ result' = Put(result, f, Status(f))
                /\ tree' = IF Writes(f) THEN Put(tree, PathOf[f], Content(f, Carry /\ Mode = "seq" /\ leak[w])) ELSE tree
                /\ leak' = [leak EXCEPT ![w] = @ \/ Class[f] = "leaky"]
                /\ running' = [running EXCEPT ![w] = "idle"]
                /\ UNCHANGED <<pending, aborted>>

(* without the per-file guard the exception escapes and the driver stops *)
Escape(w, f) == /\ ~aborted /\ running[w] = f /\ ~Guard /\ Status(f) = "failed"
                /\ aborted' = TRUE
                /\ UNCHANGED <<pending, running, leak, result, tree>>

Next == \E w \in Workers, f \in Files : Take(w, f) \/ Finish(w, f) \/ Escape(w, f)
Spec == Init /\ [][Next]_vars /\ WF_vars(Next)

-----------------------------------------------------------------------------
Done == pending = {} /\ \A w \in Workers : running[w] = "idle"

(* what converting each file on its own gives *)
IsoResult == [f \in Files |-> Status(f)]
IsoTree(p) == {Content(f, FALSE) : f \in {g \in Files : Writes(g) /\ PathOf[g] = p}}

TypeOK == /\ pending \subseteq Files
          /\ DOMAIN result \subseteq Files
          /\ \A f \in DOMAIN result : result[f] \in {"ok", "failed", "ignored"}

OneResultPerFile == /\ \A f \in DOMAIN result : f \notin pending /\ \A w \in Workers : running[w] # f
                    /\ Done => DOMAIN result = Files
AtMostOneWorkerPerFile == \A w1, w2 \in Workers : (w1 # w2 /\ running[w1] # "idle") => running[w1] # running[w2]
NeverAborted == ~aborted
(* results and tree at the end are the isolated ones, whatever the schedule *)
ScheduleFree == Done => /\ result = IsoResult
                        /\ \A p \in DOMAIN tree : tree[p] \in IsoTree(p)
                        /\ \A f \in Files : Writes(f) => PathOf[f] \in DOMAIN tree
(* with distinct paths the tree is exactly the union of the isolated outputs; with colliding paths it is only one of them *)
TreeExact == Done => \A p \in DOMAIN tree : IsoTree(p) = {tree[p]}
(* liveness: every batch finishes and every good file gets its result *)
Isolation == <>(Done /\ \A f \in Files : Status(f) = "ok" => (f \in DOMAIN result /\ result[f] = "ok"))
=============================================================================
