---------------------------- MODULE ToLas ----------------------------
(* Design of the three LAS converters (RP66V1/ToLAS.py, LIS/ToLAS.py, BIT/ToLAS.py) as one pipeline per log pass,
   with the design choices as constants so that TLC can say which combinations refine ToLasAbs:

     Mech    "indices"  rows are produced by walking the selector's own index generator
                         (RP66V1 populate_frame_array; BIT after the repair)
             "range"    rows are the Python slice  first : StopFn : step  of the pass
                         (LIS setFrameSet; BIT as found)
     StopFn  "last+1"   exclusive stop = selector.last(n) + 1 with last() exactly as coded (and pinned by the unit tests)
             "count"    exclusive stop = first + count * step
     WellFn  "rows"     STRT/STOP/STEP from the X of the first/last written row           (BIT)
             "last"     STRT = X[first(n)], STOP = X[last(n)] with last() as coded          (RP66V1 as found)
             "indices"  STRT = X[indices[1]], STOP = X[indices[last]]                       (RP66V1 after the repair)
             "pass"     STRT/STOP = first/last X of the whole pass, STEP = pass spacing * selector step (LIS as found)
     Share   TRUE       one mutable request-set object is handed to every pass of the run and the X name of each
                         written pass is added to it in place (WriteLAS._add_x_axis_to_channels_to_write)
             FALSE      every pass sees the original request

   A run converts the passes of one file in order. *)
EXTENDS ToLasAbs, SequencesExt

CONSTANTS Mech, StopFn, WellFn, Share,
          NameMenu,      \* channel names to choose from
          MaxPasses,     \* passes per run
          MaxCh,         \* channels per pass (including X)
          Regular        \* TRUE: X regularly spaced; FALSE: irregular (direct X channels may be)

VARIABLES sel, passes, req0, req, p, phase, cur, out
vars == <<sel, passes, req0, req, p, phase, cur, out>>

XQ(i) == IF Regular THEN 3 * i + 7 ELSE i * i + 2 * i + 7          \* X of frame i (0-based), strictly increasing

Sels == [kind : {"slice"}, a : Opt(-MaxN..MaxN), b : Opt(-MaxN..MaxN), c : Opt(1..MaxN)]
        \cup [kind : {"sample"}, N : 1..(MaxN + 1)]

NameSeqs == UNION {{s \in [1..k -> NameMenu] : \A i, j \in 1..k : i # j => s[i] # s[j]} : k \in 1..MaxCh}
PassSet == [n : 0..MaxN, names : NameSeqs]
Pass(pd) == [n |-> pd.n, names |-> pd.names, xq |-> [i \in 1..pd.n |-> XQ(i - 1)]]

-----------------------------------------------------------------------------
(* the selector API exactly as coded in common/Slice.py *)
CodeFirst(s, n) == IF s.kind = "slice" THEN PyStart(s.a, n) ELSE 0
CodeStep(s, n)  == IF s.kind = "slice" THEN PyStep(s.c) ELSE IF s.N >= n THEN 1 ELSE n \div s.N
CodeLast(s, n)  == IF s.kind = "slice"
                   THEN PyStep(s.c) * (PyStop(s.b, n) \div PyStep(s.c)) - 1      \* 'length < stop' can never hold after clamping
                   ELSE IF s.N >= n THEN n - 1 ELSE n - s.N
(* gen_indices: range() for a slice, integer error diffusion for a sample (closed form of SliceSel!SampleDiffuse) *)
CodeIndices(s, n) == IF s.kind = "slice" THEN PySlice(s.a, s.b, s.c, n)
                     ELSE IF s.N >= n THEN [i \in 1..n |-> i - 1]
                     ELSE [i \in 1..s.N |-> ((i - 1) * n) \div s.N]
CodeCount(s, n) == Len(CodeIndices(s, n))

(* Python list[f:e:st] on a list of length n, f >= 0, st >= 1 *)
RangeRows(f, e, st, n) == LET ee == IF e > n THEN n ELSE e
                              k  == IF ee > f THEN (ee - f + st - 1) \div st ELSE 0
                          IN [i \in 1..k |-> f + (i - 1) * st]

Stop(s, n) == IF StopFn = "last+1" THEN CodeLast(s, n) + 1
              ELSE CodeFirst(s, n) + CodeCount(s, n) * CodeStep(s, n)

DesignRows(s, n) == IF Mech = "indices" THEN CodeIndices(s, n)
                    ELSE RangeRows(CodeFirst(s, n), Stop(s, n), CodeStep(s, n), n)

XAt(i, n) == IF i >= 0 /\ i < n THEN XQ(i) ELSE NoX                 \* an index outside the pass raises IndexError in the code
DesignWell(s, n, rows) ==
    CASE WellFn = "rows" ->
           [strt |-> XAt(rows[1], n), stop |-> XAt(Last(rows), n),
            stepk |-> IF Len(rows) > 1 THEN XAt(Last(rows), n) - XAt(rows[1], n) ELSE NoX]
      [] WellFn = "last" ->
           [strt |-> XAt(CodeFirst(s, n), n), stop |-> XAt(CodeLast(s, n), n),
            \* (stop - strt) / (count - 1) printed; stepk = printed * (rows - 1)
            stepk |-> IF CodeCount(s, n) > 1 /\ Len(rows) = CodeCount(s, n)
                      THEN XAt(CodeLast(s, n), n) - XAt(CodeFirst(s, n), n) ELSE NoX]
      [] WellFn = "indices" ->
           [strt |-> XAt(CodeIndices(s, n)[1], n), stop |-> XAt(Last(CodeIndices(s, n)), n),
            stepk |-> IF CodeCount(s, n) > 1 /\ Len(rows) = CodeCount(s, n)
                      THEN XAt(Last(CodeIndices(s, n)), n) - XAt(CodeIndices(s, n)[1], n) ELSE NoX]
      [] WellFn = "pass" ->
           [strt |-> XAt(0, n), stop |-> XAt(n - 1, n),
            stepk |-> IF n > 1 THEN ((XQ(n - 1) - XQ(0)) \div (n - 1)) * CodeStep(s, n) * (Len(rows) - 1) ELSE NoX]

-----------------------------------------------------------------------------
Init == /\ sel \in Sels
        /\ passes \in UNION {[1..k -> PassSet] : k \in 1..MaxPasses}
        /\ req0 \in SUBSET NameMenu
        /\ req = req0
        /\ p = 1 /\ phase = "select" /\ cur = [rows |-> <<>>] /\ out = <<>>

PD == passes[p]
Busy == p <= Len(passes)

(* populate / slice the frames *)
Select == /\ Busy /\ phase = "select"
          /\ cur' = [rows |-> DesignRows(sel, PD.n)]
          /\ phase' = "well"
          /\ UNCHANGED <<sel, passes, req0, req, p, out>>

(* an empty selection: RP66V1 and LIS index X[first] of an empty/short pass and fail; BIT writes no sections *)
Well == /\ Busy /\ phase = "well"
        /\ IF cur.rows = <<>>
           THEN /\ out' = Append(out, [status |-> "failed", rows |-> <<>>, cols |-> <<>>, strt |-> NoX, stop |-> NoX, steplo |-> NoX, stephi |-> NoX])
                /\ p' = p + 1 /\ phase' = "select" /\ cur' = [rows |-> <<>>]
           ELSE /\ cur' = [rows |-> cur.rows, well |-> DesignWell(sel, PD.n, cur.rows)]
                /\ phase' = "columns" /\ UNCHANGED <<out, p>>
        /\ UNCHANGED <<sel, passes, req0, req>>

(* curve section + array section: both read the request set AFTER the X name has been added to it *)
Columns == /\ Busy /\ phase = "columns"
           /\ LET r2 == IF req = {} THEN {} ELSE req \cup {PD.names[1]}
                  cols == SetToSortSeq({i \in 1..Len(PD.names) : r2 = {} \/ PD.names[i] \in r2}, <)
              IN /\ out' = Append(out, [status |-> "ok", rows |-> cur.rows, cols |-> cols, strt |-> cur.well.strt,
                                        stop |-> cur.well.stop, steplo |-> cur.well.stepk, stephi |-> cur.well.stepk])
                 /\ req' = IF Share THEN r2 ELSE req0
           /\ p' = p + 1 /\ phase' = "select" /\ cur' = [rows |-> <<>>]
           /\ UNCHANGED <<sel, passes, req0>>

Next == Select \/ Well \/ Columns
Spec == Init /\ [][Next]_vars

-----------------------------------------------------------------------------
(* Refinement: every pass written so far is what ToLasAbs demands for the ORIGINAL request *)
Refines == \A i \in 1..Len(out) : PassOK(Pass(passes[i]), sel, req0, out[i])
RowsRefine == \A i \in 1..Len(out) :
                 ~EmptySelection(sel, passes[i].n) => (out[i].status = "ok" /\ RowsOK(sel, passes[i].n, out[i].rows))
ColsRefine == \A i \in 1..Len(out) : out[i].status = "ok" => ColsOK(passes[i].names, req0, out[i].cols)
WellRefines == \A i \in 1..Len(out) : out[i].status = "ok" =>
                 WellOK(Pass(passes[i]).xq, out[i].rows, out[i].strt, out[i].stop, out[i].steplo, out[i].stephi)
(* the design never reports an empty answer for a non-empty selection, nor rows for an empty one *)
EmptyIffEmpty == \A i \in 1..Len(out) : (out[i].status = "failed") <=> EmptySelection(sel, passes[i].n)
=============================================================================
