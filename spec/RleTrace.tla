------------------------------ MODULE RleTrace ------------------------------
(* Trace validation for the run-length encodings: each trace is the call history of ONE real object
   (adds interleaved with queries), judged against RleAbs only - the run structure is never compared.
   kind "rle": TotalDepth.common.Rle.RLE;  kind "t01": TotalDepth.LIS.core.Rle.RLEType01. *)
EXTENDS RleAbs, Json, IOUtils, TLC

Data == JsonDeserialize(IOEnv.TRACE_FILE)
Traces == Data.traces

VARIABLES tid, l, vals, recs
tvars == <<tid, l, vals, recs>>
Ev == Traces[tid][l]
More == l <= Len(Traces[tid])

TInit == tid \in 1..Len(Traces) /\ l = 1 /\ vals = <<>> /\ recs = <<>>

Add == More /\ Ev.op = "add" /\ vals' = Append(vals, Ev.v) /\ UNCHANGED recs
Q(cond) == More /\ cond /\ UNCHANGED <<vals, recs>>
Value  == Q(Ev.op = "value" /\ ValidIndex(vals, Ev.i) /\ Ev.ok /\ Ev.r = ValueAbs(vals, Ev.i))
Values == Q(Ev.op = "values" /\ Ev.ok /\ Ev.r = vals)
Count  == Q(Ev.op = "num_values" /\ Ev.ok /\ Ev.r = CountAbs(vals))
First  == Q(Ev.op = "first" /\ vals # <<>> /\ Ev.ok /\ Ev.r = FirstAbs(vals))
Last   == Q(Ev.op = "last" /\ vals # <<>> /\ Ev.ok /\ Ev.r = LastAbs(vals))
LargestLE == Q(Ev.op = "largest_le" /\ Ascending(vals) /\ HasLE(vals, Ev.q) /\ Ev.ok
               /\ Ev.r = LargestLEAbs(vals, Ev.q))

AddRec == /\ More /\ Ev.op = "add_rec" /\ Ev.frames >= 1
          /\ (recs # <<>> => Ev.pos > recs[Len(recs)].pos)
          /\ recs' = Append(recs, [pos |-> Ev.pos, frames |-> Ev.frames, x |-> Ev.x]) /\ UNCHANGED vals
Tell  == Q(Ev.op = "tell" /\ Ev.f >= 0 /\ Ev.f < TotalFramesAbs(recs) /\ Ev.ok
           /\ LET a == FrameLocAbs(recs, Ev.f) IN Ev.pos = a.pos /\ Ev.off = a.off)
Total == Q(Ev.op = "total" /\ Ev.ok /\ Ev.r = TotalFramesAbs(recs))

Done == ~More /\ UNCHANGED <<vals, recs>>
TNext == \/ (Add \/ Value \/ Values \/ Count \/ First \/ Last \/ LargestLE \/ AddRec \/ Tell \/ Total)
            /\ l' = l + 1 /\ UNCHANGED tid
         \/ Done /\ UNCHANGED <<tid, l>>
TSpec == TInit /\ [][TNext]_tvars
=============================================================================
