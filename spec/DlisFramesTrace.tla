--------------------------- MODULE DlisFramesTrace ---------------------------
(* Trace validation for C04: histories of populate_frame_array calls on ONE real LogicalFile / frame array.
   Per call the harness reports the returned count and, per channel, the array length and for every row the record
   the row's values came from (values are unique per record, channel and element, so the projection is exact; -1 =
   values of no record / mixed rows).  Judged against the abstract answer of DlisFrames (Indices, Wanted).
   The index itself is an "index" event: per non-empty record its frame number and X value id. *)
EXTENDS SliceSelAbs, Json, IOUtils

Data == JsonDeserialize(IOEnv.TRACE_FILE)
Traces == Data.traces
VARIABLES tid, l
tvars == <<tid, l>>
Ev == Traces[tid][l]
More == l <= Len(Traces[tid])
Cse == Data.cases[tid]           \* [n |-> non-empty records, nch |-> channels, frameNos |-> ..., ]

V(x) == IF Len(x) = 0 THEN NoneV ELSE x[1]
Indices(sel, n) == CASE sel.kind = "slice" -> PySliceAny(V(sel.a), V(sel.b), V(sel.c), n)
                     [] sel.kind = "all" -> [i \in 1..n |-> i - 1]
                     [] OTHER -> <<>>
SetOf(s) == {s[i] : i \in 1..Len(s)}
Wanted(ev, ch) == ev.all \/ ch = 1 \/ ch \in SetOf(ev.req)

TInit == tid \in 1..Len(Traces) /\ l = 1
Populate == /\ More /\ Ev.op = "populate"
            /\ LET n == Cse.n IN
               /\ IF Ev.sel.kind = "sample"
                  THEN /\ SampleAbs(Ev.sel.n, n, Ev.rows[1]) /\ Ev.ret = Min2(Ev.sel.n, n)     \* any valid spread, the same for every channel
                  ELSE /\ Ev.rows[1] = Indices(Ev.sel, n) /\ Ev.ret = Len(Indices(Ev.sel, n))
               /\ Ev.ret >= 1
               /\ \A ch \in 1..Cse.nch : IF Wanted(Ev, ch) THEN Ev.rows[ch] = Ev.rows[1] ELSE Ev.rows[ch] = <<>>
Index == /\ More /\ Ev.op = "index"
         /\ Ev.frames = Cse.n
         /\ Ev.frameNos = Cse.frameNos
         /\ Ev.xrecs = [i \in 1..Cse.n |-> i - 1]            \* the X value of entry i is the first-channel value of record i
Done == ~More
TNext == \/ (Populate \/ Index) /\ l' = l + 1 /\ UNCHANGED tid
         \/ Done /\ UNCHANGED <<tid, l>>
TSpec == TInit /\ [][TNext]_tvars
=============================================================================
