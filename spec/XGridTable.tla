---------------------------- MODULE XGridTable ----------------------------
(* Oracle table for util/plot/XGrid.py: for every interval map, start and direction in the bound the first N grid events
   as the ABSTRACT statement gives them (every multiple of any interval, once, with the largest dividing interval). *)
EXTENDS XGrid, Json, IOUtils
Row(m, x, inc) == [m |-> SetToSortSeq(m, <), x |-> x, inc |-> inc, first |-> FirstPos(x, m, inc),
                   ev |-> AbsFrom(m, FirstPos(x, m, inc), inc, N)]
ASSUME JsonSerialize(IOEnv.OUT_TABLE, SetToSeq({Row(m, x, inc) : m \in Maps, x \in Starts, inc \in BOOLEAN}))
=============================================================================
