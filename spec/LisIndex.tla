------------------------------ MODULE LisIndex ------------------------------
(* The LIS file indexer (LIS/core/FileIndexer.py FileIndex.__init__): one pass over the logical records of a file.

   Abstract (what C06 states): the index lists every header, trailer and table record in file order, and finds every
   log pass - a data format specification record (DFSR) for data records of type t owns every following data record of
   type t up to the next DFSR of that type or the next file/tape/reel delimiter - with its true number of frames and the
   first X value.

   Design (as coded): a list of entries and a map  data type -> index of the current log pass entry;  a delimiter
   resets the map, a DFSR appends an entry and takes over the map slot of its data type, a data record is added to the
   entry its type maps to (or skipped when there is none), records of unknown type are skipped.

   TLC checks that the design gives the abstract answer for every valid record sequence in the bound; the same
   sequences are exported (LisIndexTable) and rendered as real files for the real indexer. *)
EXTENDS Integers, Sequences, FiniteSets, TLC

CONSTANTS MaxLen,       \* records after the leading file header
          MaxFrames     \* frames per data record 1..MaxFrames

Delims == {"FH", "FT", "TH", "TT", "RH", "RT"}
Listed == Delims \cup {"TAB"}                 \* what the property says must be listed
Indexed == Listed \cup {"MISC", "MARK", "DFSR0", "DFSR1"}     \* what the code lists
Kinds == Indexed \cup {"UNK", "DATA0", "DATA1"}
DataType(k) == IF k \in {"DATA0", "DFSR0"} THEN 0 ELSE 1
IsData(k) == k \in {"DATA0", "DATA1"}
IsDfsr(k) == k \in {"DFSR0", "DFSR1"}

Rec(k, f) == [k |-> k, f |-> f]
Recs == {Rec(k, 0) : k \in Kinds \ {"DATA0", "DATA1"}} \cup {Rec(k, f) : k \in {"DATA0", "DATA1"}, f \in 1..MaxFrames}

(* a conformant file: starts with a file header; a data record only where a DFSR of its type is in force *)
RECURSIVE InForce(_, _, _)
InForce(s, i, t) ==        \* is a DFSR of type t in force just before position i ?
    IF i = 1 THEN FALSE
    ELSE LET p == s[i - 1] IN
         IF p.k \in Delims THEN FALSE
         ELSE IF IsDfsr(p.k) /\ DataType(p.k) = t THEN TRUE
         ELSE InForce(s, i - 1, t)
Valid(s) == /\ Len(s) >= 1 /\ s[1].k = "FH"
            /\ \A i \in 1..Len(s) : IsData(s[i].k) => InForce(s, i, DataType(s[i].k))

-----------------------------------------------------------------------------
(* Abstract *)
Owner(s, i) ==             \* position of the DFSR that owns the data record at i (Valid(s) guarantees one)
    LET t == DataType(s[i].k) IN
    CHOOSE j \in 1..(i - 1) : /\ IsDfsr(s[j].k) /\ DataType(s[j].k) = t
                              /\ \A m \in (j + 1)..(i - 1) : ~(s[m].k \in Delims) /\ ~(IsDfsr(s[m].k) /\ DataType(s[m].k) = t)
RECURSIVE SumF(_, _)
SumF(s, S) == IF S = {} THEN 0 ELSE LET i == CHOOSE x \in S : TRUE IN s[i].f + SumF(s, S \ {i})
PassFrames(s, j) == SumF(s, {i \in 1..Len(s) : IsData(s[i].k) /\ Owner(s, i) = j})
PassFirst(s, j) == LET own == {i \in 1..Len(s) : IsData(s[i].k) /\ Owner(s, i) = j}
                   IN IF own = {} THEN 0 ELSE CHOOSE i \in own : \A m \in own : i <= m       \* position of its first data record
AbsPasses(s) == [j \in {i \in 1..Len(s) : IsDfsr(s[i].k)} |-> [frames |-> PassFrames(s, j), first |-> PassFirst(s, j)]]
AbsListed(s) == {i \in 1..Len(s) : s[i].k \in Listed}

-----------------------------------------------------------------------------
(* Design *)
VARIABLES file, i, idx, map
vars == <<file, i, idx, map>>
NoneIx == 0
(* every conformant file starts with a file header: only the MaxLen records after it are enumerated *)
Candidates == {<<Rec("FH", 0)>> \o t : t \in UNION {[1..n -> Recs] : n \in 0..MaxLen}}
Init == /\ file \in {s \in Candidates : Valid(s)}
        /\ i = 1 /\ idx = <<>> /\ map = [t \in {0, 1} |-> NoneIx]

Step == /\ i <= Len(file)
        /\ LET r == file[i] IN
           IF IsData(r.k)
           THEN /\ idx' = IF map[DataType(r.k)] # NoneIx
                          THEN [idx EXCEPT ![map[DataType(r.k)]] = [@ EXCEPT !.frames = @ + r.f,
                                                                            !.first = IF @ = 0 THEN i ELSE @]]
                          ELSE idx                                     \* no DFSR: skipped with a warning
                /\ UNCHANGED map
           ELSE IF r.k \notin Indexed
           THEN UNCHANGED <<idx, map>>                                 \* unknown type: skipped
           ELSE /\ idx' = Append(idx, [pos |-> i, k |-> r.k, frames |-> 0, first |-> 0])
                /\ map' = IF r.k \in Delims THEN [t \in {0, 1} |-> NoneIx]
                          ELSE IF IsDfsr(r.k) THEN [map EXCEPT ![DataType(r.k)] = Len(idx) + 1]
                          ELSE map
        /\ i' = i + 1 /\ UNCHANGED file
Next == Step
Spec == Init /\ [][Next]_vars

Done == i = Len(file) + 1
(* every record the property names is listed once, in file order, at its position; every log pass has its frames *)
ListedOK == Done => LET L == {n \in 1..Len(idx) : idx[n].k \in Listed} IN
                    /\ {idx[n].pos : n \in L} = AbsListed(file)
                    /\ \A a, b \in 1..Len(idx) : a < b => idx[a].pos < idx[b].pos
                    /\ \A n \in 1..Len(idx) : file[idx[n].pos].k = idx[n].k
PassesOK == Done => LET P == {n \in 1..Len(idx) : IsDfsr(idx[n].k)} IN
                    /\ {idx[n].pos : n \in P} = DOMAIN AbsPasses(file)
                    /\ \A n \in P : /\ idx[n].frames = AbsPasses(file)[idx[n].pos].frames
                                    /\ idx[n].first = AbsPasses(file)[idx[n].pos].first
NoDataLost == Done => \A p \in 1..Len(file) : IsData(file[p].k) =>
                         \E n \in 1..Len(idx) : IsDfsr(idx[n].k) /\ idx[n].pos = Owner(file, p)
=============================================================================
