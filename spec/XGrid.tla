------------------------------- MODULE XGrid -------------------------------
(* util/plot/XGrid.py: the depth grid of a log plot.  An interval map {interval -> stroke} (e.g. FEET at 1:200: every 2 ft
   a thin line, every 10 ft a medium one, every 50 ft a heavy one) is turned into ONE monotone stream of (x, stroke) events
   by a recursive merge of the per-interval streams (_genEvents / _genEventsRec), the coarser interval winning where lines
   coincide; genXAxisRange cuts the stream at the end of the plotted range.

       _firstVal(x, i, inc)    i * ceil(x / i) going up, i * floor(x / i) going down
       _genEventsRec(x, inc, l, m)   l = intervals, largest first:
            one interval: v, v +- i, v +- 2i, ...
            else: merge the stream of l[0] (from _firstVal(x, l[0], inc)) into the stream of l[1:]:
                  before an inner event that lies beyond v: emit v first, then the inner event; at a tie emit v only

   Abstract: the events of the first N positions are exactly, in order, every multiple of ANY interval at or beyond the
   start, once, each with the stroke of the LARGEST interval that divides it.

   TLC compares design and abstract for every interval map in the menu (nested maps as the code defines them, and maps whose
   intervals do not divide one another), every start in the bound, both directions.  Maps are sets of intervals; the stroke
   is identified with its interval. *)
EXTENDS Integers, Sequences, FiniteSets, SequencesExt, TLC

CONSTANTS Maps,        \* set of sets of positive integers
          Starts,      \* integer start values (the code starts at a multiple of the smallest interval: FirstPos below)
          N            \* number of events compared

Abs(x) == IF x < 0 THEN -x ELSE x
\* floor and ceiling of x / i for i > 0 and any integer x (TLC's \div floors for a positive divisor)
FloorDiv(x, i) == x \div i
CeilDiv(x, i) == -((-x) \div i)
FirstVal(x, i, inc) == IF inc THEN i * CeilDiv(x, i) ELSE i * FloorDiv(x, i)
Desc(m) == SetToSortSeq(m, LAMBDA a, b : a > b)
MinOf(m) == CHOOSE a \in m : \A b \in m : a <= b
\* _genXAxisStroke starts the merge at the first multiple of the smallest interval
FirstPos(x, m, inc) == FirstVal(x, MinOf(m), inc)

(* ---- abstract ---- *)
IsLine(m, v) == \E i \in m : v % i = 0
StrokeOf(m, v) == CHOOSE i \in m : v % i = 0 /\ \A j \in m : v % j = 0 => j <= i
RECURSIVE AbsFrom(_, _, _, _)
AbsFrom(m, v, inc, n) ==      \* the first n grid lines at or beyond v
    IF n = 0 THEN <<>>
    ELSE IF IsLine(m, v) THEN <<[x |-> v, s |-> StrokeOf(m, v)]>> \o AbsFrom(m, IF inc THEN v + 1 ELSE v - 1, inc, n - 1)
    ELSE AbsFrom(m, IF inc THEN v + 1 ELSE v - 1, inc, n)

(* ---- design: the recursive merge, as a function producing the first n events ----
   Stream(l, x, inc, n): first n events of _genEventsRec(x, inc, l, .).  The inner stream is consumed lazily; to produce n
   outer events at most n inner events are needed. *)
Step(v, i, inc) == IF inc THEN v + i ELSE v - i
RECURSIVE Stream(_, _, _, _), Merge(_, _, _, _, _, _)
Stream(l, x, inc, n) ==
    IF n = 0 \/ l = <<>> THEN <<>>
    ELSE LET v == FirstVal(x, l[1], inc) IN
         IF Len(l) = 1 THEN [k \in 1..n |-> [x |-> IF inc THEN v + (k - 1) * l[1] ELSE v - (k - 1) * l[1], s |-> l[1]]]
         ELSE Merge(l[1], v, inc, Stream(Tail(l), x, inc, n), 1, n)
\* merge my stream (interval i, next value v) into the inner events inner[k..], producing at most n events
Merge(i, v, inc, inner, k, n) ==
    IF n <= 0 \/ k > Len(inner) THEN <<>>
    ELSE LET e == inner[k] IN
         IF (inc /\ v < e.x) \/ (~inc /\ v > e.x)
         THEN \* insert my event, then the inner one
              (IF n = 1 THEN <<[x |-> v, s |-> i]>> ELSE <<[x |-> v, s |-> i], e>>) \o Merge(i, Step(v, i, inc), inc, inner, k + 1, n - 2)
         ELSE IF v = e.x
         THEN <<[x |-> v, s |-> i]>> \o Merge(i, Step(v, i, inc), inc, inner, k + 1, n - 1)
         ELSE <<e>> \o Merge(i, v, inc, inner, k + 1, n - 1)

Design(m, x, inc, n) == Stream(Desc(m), FirstPos(x, m, inc), inc, n)

(* ---- checks ---- *)
Refines(m, x, inc) == Design(m, x, inc, N) = AbsFrom(m, FirstPos(x, m, inc), inc, N)
AllRefine == \A m \in Maps : \A x \in Starts : \A inc \in BOOLEAN : Refines(m, x, inc)
Monotone(m, x, inc) == LET d == Design(m, x, inc, N) IN \A k \in 1..(Len(d) - 1) : IF inc THEN d[k].x < d[k + 1].x ELSE d[k].x > d[k + 1].x
AllMonotone == \A m \in Maps : \A x \in Starts : \A inc \in BOOLEAN : Monotone(m, x, inc)
Nested(m) == \A a, b \in m : a <= b => b % a = 0
NestedRefine == \A m \in Maps : Nested(m) => \A x \in Starts : \A inc \in BOOLEAN : Refines(m, x, inc)

VARIABLE z
Spec == z = 0 /\ [][UNCHANGED z]_z
=============================================================================
