------------------------------- MODULE FileType -------------------------------
(* File type identification (TotalDepth.util.bin_file_type.binary_file_type): an ordered decision list over
   features of the first bytes / a trial parse; the first test that matches wins.

   A file is abstracted to a feature record.  For each supported well-log format the set Valid(T) of feature
   records of conformant files is defined from the FORMAT (not from the classifier); OwnType says no earlier
   entry of the list shadows a valid file of a later type.  Stated exclusion: a TIF-marked LIS file whose first
   physical record is exactly 276 bytes has the BIT signature.
   Robustness (any byte string): the result is one of the documented codes or "", nothing is raised, the file is
   left at position 0 - these are checked on the implementation by fault enumeration, see the harness. *)
EXTENDS Integers, Sequences, FiniteSets, TLC

Codes == {"RCD", "STK", "BIT", "CFBF", "PDS", "XML", "PDF", "PS", "ZIP", "TIFF", "JPEG", "LAS1.2", "LAS2.0", "LAS3.0",
          "RP66V1", "RP66V1t", "RP66V1tr", "RP66V2", "DAT", "SEGY", "LISVER", "ASCII", "LISt", "LIStr", "LIS"}

(* features *)
Feature == [ magic : {"none", "rcd", "stk", "cfbf", "pds", "xml", "pdf", "ps", "zip", "tiff", "jpeg"},
             tif   : {"none", "le", "be"},         \* first 8 bytes zero + a plausible third word, and its byte order
             third276 : BOOLEAN,                   \* the first TIF block is 276 bytes (third word 0x120)
             len288 : BOOLEAN,                     \* at least 12 + 276 bytes long
             sul   : BOOLEAN,                      \* bytes 0..79 form a storage unit label with a printable identifier
             sulAfterTif : BOOLEAN,                \* ... at offset 12 and the first TIF block is 80 bytes
             las   : {"none", "1.2", "2.0", "3.0"},\* first two significant lines are ~V and VERS. <v> :
             dat   : BOOLEAN,                      \* ASCII text that parses as DAT with one data row
             ascii256 : BOOLEAN,                   \* the first 256 bytes are all below 0x80
             segy  : BOOLEAN, lisver : BOOLEAN,
             lis   : BOOLEAN ]                     \* a LIS index with at least one entry can be built

(* the decision list, in the order of FUNCTION_ID_MAP *)
Classify(f) ==
    CASE f.magic = "rcd" -> "RCD"
      [] f.magic = "stk" -> "STK"
      [] f.tif # "none" /\ f.third276 /\ f.len288 -> "BIT"
      [] f.magic = "cfbf" -> "CFBF"  [] f.magic = "pds" -> "PDS"   [] f.magic = "xml" -> "XML"
      [] f.magic = "pdf" -> "PDF"    [] f.magic = "ps" -> "PS"     [] f.magic = "zip" -> "ZIP"
      [] f.magic = "tiff" -> "TIFF"  [] f.magic = "jpeg" -> "JPEG"
      [] f.las = "1.2" -> "LAS1.2"   [] f.las = "2.0" -> "LAS2.0"  [] f.las = "3.0" -> "LAS3.0"
      [] f.sul -> "RP66V1"
      [] f.tif = "le" /\ f.sulAfterTif -> "RP66V1t"
      [] f.tif = "be" /\ f.sulAfterTif -> "RP66V1tr"
      [] f.dat -> "DAT"
      [] f.segy -> "SEGY"
      [] f.lisver -> "LISVER"
      [] f.ascii256 -> "ASCII"
      [] f.lis /\ f.tif = "le" -> "LISt"
      [] f.lis /\ f.tif = "be" -> "LIStr"
      [] f.lis -> "LIS"
      [] OTHER -> ""

Base == [magic |-> "none", tif |-> "none", third276 |-> FALSE, len288 |-> TRUE, sul |-> FALSE, sulAfterTif |-> FALSE,
         las |-> "none", dat |-> FALSE, ascii256 |-> FALSE, segy |-> FALSE, lisver |-> FALSE, lis |-> FALSE]

(* what conformant files of each format look like; fields a format does not determine range over all values *)
ValidRP66V1 == { [Base EXCEPT !.sul = TRUE, !.ascii256 = a, !.len288 = l] : a \in BOOLEAN, l \in BOOLEAN }
(* LIS files begin, as the standard requires, with a reel, tape or file header: logical record type >= 0x80 is
   inside the first 256 bytes, so they are not ASCII; a plain LIS file does not start with 8 zero bytes *)
ValidLIS  == { [Base EXCEPT !.lis = TRUE, !.len288 = l] : l \in BOOLEAN }
ValidLISt == { [Base EXCEPT !.lis = TRUE, !.tif = "le", !.len288 = l, !.third276 = t] : l \in BOOLEAN, t \in BOOLEAN }
ValidLIStr == { [Base EXCEPT !.lis = TRUE, !.tif = "be", !.len288 = l, !.third276 = t] : l \in BOOLEAN, t \in BOOLEAN }
ValidLAS(v) == { [Base EXCEPT !.las = v, !.ascii256 = a, !.len288 = l] : a \in BOOLEAN, l \in BOOLEAN }   \* non-ASCII text is allowed in comments
ValidBIT == { [Base EXCEPT !.tif = "le", !.third276 = TRUE, !.len288 = TRUE, !.lis = x] : x \in BOOLEAN }
ValidDAT == { [Base EXCEPT !.dat = TRUE, !.ascii256 = TRUE, !.len288 = l] : l \in BOOLEAN }

Excluded(f) == f.tif # "none" /\ f.third276 /\ f.lis /\ f.len288       \* TIF-marked LIS whose first record is 276 bytes
OwnType ==
    /\ \A f \in ValidRP66V1 : Classify(f) = "RP66V1"
    /\ \A f \in ValidLIS : Classify(f) = "LIS"
    /\ \A f \in ValidLISt : ~Excluded(f) => Classify(f) = "LISt"
    /\ \A f \in ValidLIStr : ~Excluded(f) => Classify(f) = "LIStr"
    /\ \A v \in {"1.2", "2.0"} : \A f \in ValidLAS(v) : Classify(f) = "LAS" \o v
    /\ \A f \in ValidBIT : Classify(f) = "BIT"
    /\ \A f \in ValidDAT : Classify(f) = "DAT"
(* the stated exclusion really is needed: this is the counterexample the assumption removes *)
ExclusionIsReal == \E f \in ValidLISt : Excluded(f) /\ Classify(f) = "BIT"
AlwaysDocumented == \A f \in Feature : Classify(f) \in Codes \cup {""}

VARIABLE z
Spec == z = 0 /\ [][UNCHANGED z]_z
=============================================================================
