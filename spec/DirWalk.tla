------------------------------ MODULE DirWalk ------------------------------
(* util/DirWalk.py dirWalk(theIn, theOut, theFnMatch, recursive, bigFirst): the task list of the batch tools (C12:
   "one result per input file", "output path derived only from the input path").

   A tree is  [files |-> [name -> size], dirs |-> [dirname -> [name -> size]]]  (one level of sub-directories is enough
   to exercise the recursion; names are chosen so that alphabetical order interleaves files and directories).

   Abstract: the walk yields every file in scope exactly once - the files of the top directory and, when recursive, of
   the sub-directories - that matches the pattern, each with the output path  theOut/<path relative to theIn>  (or ''
   when theOut is ''); nothing else.  The ORDER is not part of C12 (Batch.tla takes any pending task); the documented
   orders are stated here as separate predicates so that deviations are visible without being violations.

   Design: the generator as coded - alphabetical listing with in-place recursion, or (bigFirst) the files of a directory
   ordered by gen_big_first followed by its sub-directories in alphabetical order. *)
EXTENDS Integers, Sequences, FiniteSets, SequencesExt, TLC

CONSTANTS FileNames, DirNames, Sizes,
          Match,           \* set of file names the pattern matches ({} stands for "no pattern": everything matches)
          BigFirstOrder    \* "ascending" (as coded: sorted((size, name))) | "descending" (as documented)

Listing == UNION {[S -> Sizes] : S \in SUBSET FileNames}
Trees == [files : Listing, dirs : UNION {[D -> Listing] : D \in SUBSET DirNames}]

Matches(n) == Match = {} \/ n \in Match

(* ---- abstract ---- *)
Rel(d, n) == IF d = "" THEN <<n>> ELSE <<d, n>>              \* a relative path as a sequence of components
Scope(t, rec) == {Rel("", n) : n \in {m \in DOMAIN t.files : Matches(m)}}
                 \cup (IF rec THEN UNION {{Rel(d, n) : n \in {m \in DOMAIN t.dirs[d] : Matches(m)}} : d \in DOMAIN t.dirs} ELSE {})
OutPath(out, rel) == IF out = "" THEN <<>> ELSE <<out>> \o rel
AbsWalk(t, rec, out) == {[fin |-> r, fout |-> OutPath(out, r)] : r \in Scope(t, rec)}

(* ---- design ---- *)
CONSTANT Rank                  \* [name -> position in alphabetical order]
Alpha(a, b) == Rank[a] < Rank[b]
SortBy(S, lt(_, _)) == SetToSortSeq(S, lt)
BySize(L) == LET lt(a, b) == IF L[a] # L[b]
                             THEN (IF BigFirstOrder = "ascending" THEN L[a] < L[b] ELSE L[a] > L[b])
                             ELSE Alpha(a, b)
             IN SortBy(DOMAIN L, lt)
FilesOf(L, d, big) == LET names == IF big THEN BySize(L) ELSE SortBy(DOMAIN L, Alpha)
                      IN SelectSeq([i \in 1..Len(names) |-> Rel(d, names[i])], LAMBDA r : Matches(r[Len(r)]))
RECURSIVE Concat(_)
Concat(ss) == IF ss = <<>> THEN <<>> ELSE ss[1] \o Concat(Tail(ss))
DesignWalk(t, rec, big) ==
    IF big
    THEN FilesOf(t.files, "", TRUE)
         \o (IF rec THEN Concat([i \in 1..Cardinality(DOMAIN t.dirs) |-> FilesOf(t.dirs[SortBy(DOMAIN t.dirs, Alpha)[i]], SortBy(DOMAIN t.dirs, Alpha)[i], TRUE)])
             ELSE <<>>)
    ELSE \* alphabetical listing of files and directories together, recursing in place
         LET entries == SortBy(DOMAIN t.files \cup (IF rec THEN DOMAIN t.dirs ELSE {}), Alpha)
         IN Concat([i \in 1..Len(entries) |->
                      IF entries[i] \in DOMAIN t.files
                      THEN (IF Matches(entries[i]) THEN <<Rel("", entries[i])>> ELSE <<>>)
                      ELSE FilesOf(t.dirs[entries[i]], entries[i], FALSE)])

(* ---- TLC: the design yields exactly the abstract set, each path once, for every tree in the bound ---- *)
NoDup(s) == \A i, j \in 1..Len(s) : i # j => s[i] # s[j]
RefinesFor(t, rec, big) == LET w == DesignWalk(t, rec, big) IN NoDup(w) /\ {w[i] : i \in 1..Len(w)} = Scope(t, rec)
Refines == \A t \in Trees : \A rec \in BOOLEAN : \A big \in BOOLEAN : RefinesFor(t, rec, big)
(* the documented order of bigFirst: within a directory no file comes before a strictly larger one *)
LargestFirstFor(t) == LET w == FilesOf(t.files, "", TRUE)
                      IN \A i, j \in 1..Len(w) : i < j => t.files[w[i][1]] >= t.files[w[j][1]]
LargestFirst == \A t \in Trees : LargestFirstFor(t)
(* a trivial behaviour so that TLC evaluates the ASSUMEs of the model-checking wrapper *)
VARIABLE z
Spec == z = 0 /\ [][UNCHANGED z]_z
=============================================================================
