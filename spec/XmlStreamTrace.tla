--------------------------- MODULE XmlStreamTrace ---------------------------
(* Trace validation of the XML writers: the stream of XmlStream API calls made by a real writer
   (captured by wrapping the class in the harness process) is replayed through the element-stack
   discipline of XmlStream.tla, and the document it produced - parsed by an XML parser into
   Data.parsed[tid] - must be exactly the events the calls imply, in order:
      <<"start", name, attrs>>   attrs = sequence of <<key, digest>> sorted by key
      <<"run", digest>>          a maximal run of character data ("*" = not judged: contains a literal()
                                 or characters XML cannot represent; may also be absent)
      <<"end", name>>
   White-space-only runs are dropped on both sides (indentation).  Digests are SHA-1 of the text. *)
EXTENDS Integers, Sequences, Json, IOUtils, TLC

Data == JsonDeserialize(IOEnv.TRACE_FILE)
Traces == Data.traces

VARIABLES tid, l, stk, pend, pi, state
tvars == <<tid, l, stk, pend, pi, state>>
Ev == Traces[tid][l]
P == Data.parsed[tid]
More == l <= Len(Traces[tid])
(* a stream whose document could not be captured, or whose writer raised on purpose (the repository's own tests do that):
   only the element-stack discipline of the calls is judged *)
NoDoc == Data.nodoc[tid]

TInit == tid \in 1..Len(Traces) /\ l = 1 /\ stk = <<>> /\ pend = FALSE /\ pi = 1 /\ state = "new"

AttrsMatch(ea, pa) == /\ Len(ea) = Len(pa)
                      /\ \A i \in 1..Len(ea) : ea[i][1] = pa[i][1] /\ (ea[i][2] = "*" \/ ea[i][2] = pa[i][2])

Enter == More /\ Ev.op = "enter" /\ state = "new" /\ state' = "open" /\ UNCHANGED <<stk, pend, pi>>
(* text-producing calls only mark that a run is pending; the harness reports the merged run before the next
   structural call, and it must do so exactly when text is pending *)
Text == More /\ Ev.op \in {"chars", "literal"} /\ state = "open" /\ stk # <<>> /\ pend' = TRUE /\ UNCHANGED <<stk, pi, state>>
Comment == More /\ Ev.op \in {"comment", "pi"} /\ state = "open" /\ UNCHANGED <<stk, pend, pi, state>>
Run == /\ More /\ Ev.op = "run" /\ pend /\ pend' = FALSE
       /\ IF Ev.ws \/ NoDoc THEN pi' = pi                          \* white-space-only: dropped on both sides
          ELSE IF Ev.dig = "*" THEN pi' = (IF pi <= Len(P) /\ P[pi][1] = "run" THEN pi + 1 ELSE pi)
          ELSE pi <= Len(P) /\ P[pi] = <<"run", Ev.dig>> /\ pi' = pi + 1
       /\ UNCHANGED <<stk, state>>
Start == /\ More /\ Ev.op = "start" /\ state = "open" /\ ~pend
         /\ IF NoDoc THEN TRUE ELSE pi <= Len(P) /\ P[pi][1] = "start" /\ P[pi][2] = Ev.name /\ AttrsMatch(Ev.attrs, P[pi][3])
         /\ stk' = Append(stk, Ev.name) /\ pi' = pi + 1 /\ UNCHANGED <<pend, state>>
End == /\ More /\ Ev.op = "end" /\ state = "open" /\ ~pend
       /\ stk # <<>> /\ stk[Len(stk)] = Ev.name                    \* XmlStream.endElement would raise otherwise
       /\ IF NoDoc THEN TRUE ELSE pi <= Len(P) /\ P[pi] = <<"end", Ev.name>>
       /\ stk' = SubSeq(stk, 1, Len(stk) - 1) /\ pi' = pi + 1 /\ UNCHANGED <<pend, state>>
(* __exit__: every element still open is closed, innermost first; the document ends there *)
RECURSIVE ClosesOK(_, _)
ClosesOK(s, i) == IF s = <<>> THEN i = Len(P) + 1
                  ELSE i <= Len(P) /\ P[i] = <<"end", s[Len(s)]>> /\ ClosesOK(SubSeq(s, 1, Len(s) - 1), i + 1)
Exit == /\ More /\ Ev.op = "exit" /\ state = "open" /\ ~pend
        /\ IF NoDoc THEN TRUE ELSE Data.ok[tid] /\ ClosesOK(stk, pi)
        /\ state' = "closed" /\ stk' = <<>> /\ pi' = Len(P) + 1 /\ UNCHANGED pend

Done == ~More /\ UNCHANGED <<stk, pend, pi, state>>
TNext == \/ (Enter \/ Text \/ Comment \/ Run \/ Start \/ End \/ Exit) /\ l' = l + 1 /\ UNCHANGED tid
         \/ Done /\ UNCHANGED <<tid, l>>
TSpec == TInit /\ [][TNext]_tvars
=============================================================================
