--------------------------------- MODULE Dat ---------------------------------
(* DAT mud-log text files (TotalDepth.DAT.DAT_parser).

   Content model: declarations  NAME description units  in any order; one header line
   "UTIM DATE TIME" + a non-empty ordered subset of the other declared names; 0..MaxRows data rows with one
   value per header name.  Optionally ONE line is corrupted.
   Abstract expectation (Expected): what any faithful parser must answer for the text.
   Design: the two-phase line scanner of _parse_file (declarations until the header, then rows transposed into
   columns, conversion at the end); TLC checks that its outcome always satisfies the expectation. *)
EXTENDS Integers, Sequences, FiniteSets, TLC

CONSTANTS Extra,       \* the declarable channel names other than UTIM, DATE, TIME
          MaxRows

Fixed == <<"UTIM", "DATE", "TIME">>
FixedSet == {"UTIM", "DATE", "TIME"}
Kinds == {"none", "dropcol", "addcol", "undeclared", "garble_decl", "garble_num", "garble_date", "garble_time", "garble_utim"}

(* all orderings of a finite set *)
Orderings(S) == {f \in [1..Cardinality(S) -> S] : \A i, j \in 1..Cardinality(S) : i # j => f[i] # f[j]}

VARIABLES decls,    \* order of declaration lines (sequence of names)
          header,   \* names on the header line
          nrows,
          corr,     \* [kind, line]: line = index into decls (garble_decl), row number (row corruptions) or 0
          ph, ln,   \* scanner: phase "decl" | "data" | "end", next line number (1-based over decls ++ <<header>> ++ rows)
          declared, \* scanner: names declared so far
          defined,  \* scanner: channels defined by the header
          rowsOK,   \* scanner: rows accepted so far
          outcome   \* "" while scanning, then "ok" | "dat_error" | "error"
vars == <<decls, header, nrows, corr, ph, ln, declared, defined, rowsOK, outcome>>

Init == /\ \E D \in (SUBSET Extra) \ {{}} :
              /\ decls \in Orderings(FixedSet \cup D)
              /\ \E H \in (SUBSET D) \ {{}} : \E o \in Orderings(H) : header = Fixed \o o
        /\ nrows \in 0..MaxRows
        /\ corr \in [kind : Kinds, line : 0..6]
        /\ (corr.kind = "none" => corr.line = 0)
        /\ (corr.kind = "undeclared" => corr.line = 0)
        /\ (corr.kind = "garble_decl" => corr.line \in 1..Len(decls))
        /\ (corr.kind \in {"dropcol", "addcol", "garble_num", "garble_date", "garble_time", "garble_utim"} => corr.line \in 1..nrows)
        /\ ph = "decl" /\ ln = 1 /\ declared = {} /\ defined = <<>> /\ rowsOK = 0 /\ outcome = ""

HeaderNames == IF corr.kind = "undeclared" THEN Append(header, "ZZZZ") ELSE header
NLines == Len(decls) + 1 + nrows
RowCols(r) == Len(header) + (IF corr.kind = "addcol" /\ corr.line = r THEN 1 ELSE 0)
                          - (IF corr.kind = "dropcol" /\ corr.line = r THEN 1 ELSE 0)
GarbledCell(r) == corr.line = r /\ corr.kind \in {"garble_num", "garble_date", "garble_time", "garble_utim"}

(* ---- abstract expectation ---- *)
Expected ==
    CASE corr.kind = "none" -> "ok"
      [] corr.kind \in {"dropcol", "addcol", "undeclared"} -> "dat_error"          \* the two cases the property names
      [] corr.kind = "garble_decl" -> IF decls[corr.line] \in {header[i] : i \in 1..Len(header)}
                                      THEN "dat_error"                             \* the header now names an undeclared channel
                                      ELSE "error_or_ok"
      [] OTHER -> "must_not_parse"                                                 \* a value that denotes nothing
Acceptable(o) == CASE Expected = "ok" -> o = "ok"
                   [] Expected = "dat_error" -> o = "dat_error"
                   [] Expected = "error_or_ok" -> o \in {"ok", "dat_error", "error"}
                   [] OTHER -> o \in {"dat_error", "error"}

(* ---- design: one step per line ---- *)
ScanDecl == /\ ph = "decl" /\ ln <= Len(decls) /\ outcome = ""
            /\ IF corr.kind = "garble_decl" /\ corr.line = ln
               THEN outcome' = "dat_error" /\ UNCHANGED <<declared, ph>>          \* no regular expression matches
               ELSE declared' = declared \cup {decls[ln]} /\ UNCHANGED <<outcome, ph>>
            /\ ln' = ln + 1 /\ UNCHANGED <<defined, rowsOK>>
ScanHeader == /\ ph = "decl" /\ ln = Len(decls) + 1 /\ outcome = ""
              /\ IF \E i \in 1..Len(HeaderNames) : HeaderNames[i] \notin declared
                 THEN outcome' = "dat_error" /\ UNCHANGED <<defined, ph>>
                 ELSE defined' = HeaderNames /\ ph' = "data" /\ UNCHANGED outcome
              /\ ln' = ln + 1 /\ UNCHANGED <<declared, rowsOK>>
ScanRow == /\ ph = "data" /\ ln <= NLines /\ outcome = ""
           /\ LET r == ln - Len(decls) - 1 IN
              IF RowCols(r) # Len(defined) THEN outcome' = "dat_error" /\ UNCHANGED rowsOK
              ELSE rowsOK' = rowsOK + 1 /\ UNCHANGED outcome
           /\ ln' = ln + 1 /\ UNCHANGED <<declared, defined, ph>>
(* conversion of the columns happens after the last line *)
Finish == /\ ph = "data" /\ ln = NLines + 1 /\ outcome = ""
          /\ outcome' = IF \E r \in 1..nrows : GarbledCell(r) THEN "dat_error" ELSE "ok"
          /\ ph' = "end" /\ UNCHANGED <<ln, declared, defined, rowsOK>>
Stop == outcome # "" /\ UNCHANGED vars
Next == ((ScanDecl \/ ScanHeader \/ ScanRow \/ Finish) /\ UNCHANGED <<decls, header, nrows, corr>>) \/ Stop
Spec == Init /\ [][Next]_vars

OutcomeAcceptable == outcome # "" => Acceptable(outcome)
OkMeansWhole == outcome = "ok" => defined = header /\ rowsOK = nrows
=============================================================================
