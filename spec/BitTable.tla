------------------------------- MODULE BitTable -------------------------------
(* Oracle table for IBM single precision words: TLC evaluates IbmDyadic on a lattice of (sign, exponent,
   fraction) and writes the exact dyadics as JSON; the harness compares every decoder on those words. *)
EXTENDS Bit, Json, IOUtils, SequencesExt
Exps == {0, 1, 2, 62, 63, 64, 65, 66, 67, 70, 100, 126, 127}
Fracs == {0, 1, 2, 255, 256, 65535, 65536, 1048576, 7774208, 8388608, 16777214, 16777215}
Rows == { [s |-> s, E |-> E, M |-> M, d |-> IbmDyadic(s, E, M)] : s \in {0, 1}, E \in Exps, M \in Fracs }
ASSUME JsonSerialize(IOEnv.OUT_TABLE, SetToSeq(Rows))
=============================================================================
