------------------------------ MODULE RepCodes ------------------------------
(* Representation codes of LIS-79 (Appendix B) and RP66V1 (Appendix B) as exact dyadic values [m, e] = m * 2^e.
   TLC integers are 32-bit, so a 32-bit word is the pair (hi, lo) of its 16-bit halves and every m stays within
   +-2^31.  The operators are the REFERENCE the implementations are compared with; the encoder Enc68 is the
   normalising encoder whose laws (re-encoding a decoded value gives an equivalent word; the error of encoding an
   in-range number is below one part in 2^22) are checked here on a lattice.

   Not specified here (see DESIGN.md): LIS code 50 with a negative exponent field and FDOUBL (64 bits of fraction do not
   fit).  RP66V1 VSINGL is specified in BOTH readings the offline sources support (see DecVsingl). *)
EXTENDS Integers, Sequences, FiniteSets, TLC

P2(n) == 2 ^ n
S16(x) == IF x >= 32768 THEN x - 65536 ELSE x       \* 16-bit two's complement
S8(x)  == IF x >= 128 THEN x - 256 ELSE x
RECURSIVE Canon(_)
Canon(d) == IF d.m = 0 THEN [m |-> 0, e |-> 0] ELSE IF d.m % 2 = 0 THEN Canon([m |-> d.m \div 2, e |-> d.e + 1]) ELSE d
D(m, e) == Canon([m |-> m, e |-> e])

(* ---------------- LIS-79 ---------------- *)
(* 49: 16-bit floating point: 12-bit two's complement fraction, 4-bit unsigned exponent *)
Dec49(w) == D((w \div 16) - (IF w >= 32768 THEN 4096 ELSE 0), (w % 16) - 11)
(* 50: 32-bit low resolution floating point: 16-bit exponent, 16-bit two's complement fraction (exponent field 0..1023 only) *)
Dec50(hi, lo) == D(S16(lo), hi - 15)
Dec56(b) == D(S8(b), 0)
Dec66(b) == D(b, 0)
(* 68: 32-bit floating point: sign, 8-bit excess-128 exponent (one's complemented when negative), 23-bit fraction
   (two's complemented when negative) *)
Exp68(hi) == (hi \div 128) % 256
Frac68(hi, lo) == (hi % 128) * 65536 + lo
Dec68(hi, lo) == IF hi < 32768 THEN D(Frac68(hi, lo), Exp68(hi) - 151)
                 ELSE D(Frac68(hi, lo) - 8388608, 104 - Exp68(hi))
(* 70: 32-bit fixed point, binary point in the middle *)
Dec70(hi, lo) == D(S16(hi) * 65536 + lo, -16)
Dec73(hi, lo) == D(S16(hi) * 65536 + lo, 0)
Dec77(b) == D(b, 0)
Dec79(w) == D(S16(w), 0)

(* ---------------- RP66V1 ---------------- *)
(* FSINGL: IEEE 754 single; classes "zero", "finite", "inf", "nan" *)
FsClass(hi, lo) == LET E == (hi \div 128) % 256 f == (hi % 128) * 65536 + lo
                   IN IF E = 255 THEN (IF f = 0 THEN "inf" ELSE "nan") ELSE IF E = 0 /\ f = 0 THEN "zero" ELSE "finite"
DecFsingl(hi, lo) == LET s == hi \div 32768 E == (hi \div 128) % 256 f == (hi % 128) * 65536 + lo
                         m == IF E = 0 THEN f ELSE 8388608 + f
                         e == IF E = 0 THEN -149 ELSE E - 150
                     IN D(IF s = 1 THEN -m ELSE m, e)
(* ISINGL: IBM single: sign, 7-bit excess-64 base-16 exponent, 24-bit fraction *)
DecIsingl(hi, lo) == LET s == hi \div 32768 E == (hi \div 256) % 128 f == (hi % 256) * 65536 + lo
                     IN D(IF s = 1 THEN -f ELSE f, 4 * (E - 64) - 24)
(* VSINGL: VAX F-floating in RP66V1 byte order b0 b1 b2 b3:  S = b1 bit 7,  E = (b1 mod 128) * 2 + b0 bit 7,
   fraction field F (23 bits) = (b0 mod 128) : b3 : b2.  S = 0, E = 0 is zero (S = 1, E = 0 is a reserved operand: not
   tabulated).  Any other pattern is  (-1)^S * (1/2 + F * 2^-kbits) * 2^(E - 128)  where the sources available offline
   disagree on kbits: the VAX architecture (hidden-bit fraction 0.1F) has kbits = 24; the implementation and its test
   vectors, quoted from RP66V2 11.3.23 (0C 44 00 80 = 153), have kbits = 23.  Both readings are tabulated; an implementation
   must follow ONE of them on every pattern, which still fixes zero, sign, the exponent law and every fraction bit. *)
VsS(b1) == b1 \div 128
VsE(b0, b1) == (b1 % 128) * 2 + b0 \div 128
VsF(b0, b2, b3) == (b0 % 128) * 65536 + b3 * 256 + b2
DecVsingl(b0, b1, b2, b3, kbits) ==
    IF VsE(b0, b1) = 0 /\ VsS(b1) = 0 THEN D(0, 0)
    ELSE LET m == P2(kbits - 1) + VsF(b0, b2, b3) IN D(IF VsS(b1) = 1 THEN -m ELSE m, VsE(b0, b1) - 128 - kbits)
DecSshort(b) == D(S8(b), 0)
DecSnorm(w) == D(S16(w), 0)
DecSlong(hi, lo) == D(S16(hi) * 65536 + lo, 0)
DecUshort(b) == D(b, 0)
DecUnorm(w) == D(w, 0)
(* ULONG does not fit 32 bits signed: two limbs *)
DecUlong(hi, lo) == [hi |-> hi, lo |-> lo]

(* variable-length codes as consumption machines over a byte sequence: [value, consumed] or failure *)
Uvari(bs) == LET b == bs[1] IN
    IF b < 128 THEN [v |-> b, n |-> 1]
    ELSE IF b < 192 THEN [v |-> (b - 128) * 256 + bs[2], n |-> 2]
    ELSE [v |-> ((b - 192) * 256 + bs[2]) * 65536 + bs[3] * 256 + bs[4], n |-> 4]
UvariLen(b) == IF b < 128 THEN 1 ELSE IF b < 192 THEN 2 ELSE 4
IdentLen(bs) == 1 + bs[1]                                  \* IDENT, UNITS: length byte + bytes
AsciiLen(bs) == Uvari(bs).n + Uvari(bs).v                  \* ASCII: UVARI length + bytes
ObnameLen(bs) == LET o == UvariLen(bs[1]) IN o + 1 + 1 + bs[o + 2]   \* ORIGIN (UVARI), COPY (USHORT), IDENT
ObjrefLen(bs) == LET t == 1 + bs[1] IN t + ObnameLen(SubSeq(bs, t + 1, Len(bs)))
DtimeLen == 8

(* ---------------- the LIS 68 encoder ---------------- *)
(* a finite non-zero value v = sgn * q * 2^x with q an odd positive integer (given as [m, e]).  Normalise to a
   23-bit fraction: fraction in [1/2, 1) for positive values, [-1, -1/2) for negative ones, truncating *)
RECURSIVE BitLen(_)
BitLen(n) == IF n = 0 THEN 0 ELSE 1 + BitLen(n \div 2)
Abs(x) == IF x < 0 THEN -x ELSE x
(* floor(m * 2^k) for integer m >= 0 and any k *)
Shift(m, k) == IF k >= 0 THEN m * P2(k) ELSE m \div P2(-k)
Enc68(d) ==            \* returns [hi, lo] for a non-zero value d = [m, e] inside the range of the code
    LET a == Abs(d.m)  n == BitLen(a)
        ex == d.e + n                                     \* 2^(ex-1) <= |v| < 2^ex
        F == Shift(a, 23 - n)                             \* |fraction| * 2^23 truncated: 2^22 <= F < 2^23
    IN IF d.m > 0
       THEN [hi |-> (ex + 128) * 128 + F \div 65536, lo |-> F % 65536]
       ELSE LET fr == 8388608 - F                         \* two's complement of the 23-bit fraction
            IN [hi |-> 32768 + (127 - ex) * 128 + fr \div 65536, lo |-> fr % 65536]

(* lattice of values for the encoder laws *)
LatticeM == {1, 3, 5, 7, 9, 15, 17, 31, 33, 63, 65, 127, 255, 257, 1023, 4097, 65535, 65537, 8388607, 8388609, 16777215}
LatticeE == {-150, -140, -100, -24, -23, -1, 0, 1, 10, 60, 100}
InRange68(d) == LET ex == d.e + BitLen(Abs(d.m)) IN ex >= -127 /\ ex <= 126
(* re-encoding a decoded word gives a word that decodes to the same value *)
ReencodeLaw == \A m \in LatticeM, e \in LatticeE, s \in {1, -1} :
    LET d == D(s * m, e) IN
    (InRange68(d) /\ BitLen(m) <= 23) =>
        LET w == Enc68(d) IN Dec68(w.hi, w.lo) = d
(* encoding loses less than one part in 2^22: |Dec(Enc(v)) - v| * 2^22 < |v| *)
Diff(a, b) == LET e == IF a.e < b.e THEN a.e ELSE b.e IN [m |-> a.m * P2(a.e - e) - b.m * P2(b.e - e), e |-> e]
PrecisionLaw == \A m \in {1, 3, 255, 4097, 65537, 8388609, 16777215}, e \in {-100, -24, 0, 10, 60}, s \in {1, -1} :
    LET d == D(s * m, e) w == Enc68(d) r == Dec68(w.hi, w.lo)
        df == Diff(r, d)
    IN InRange68(d) => Abs(df.m) * P2(22) < Abs(d.m) * P2(d.e - df.e)
=============================================================================
