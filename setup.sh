#!/bin/sh
# MANIFEST.setup_cmd: offline; parse every specification with SANY and pre-build the extension cache.
set -e
cd "$(dirname "$0")"
/venv/bin/python - <<'PY'
import glob, sys
sys.path.insert(0, '.')
from harness import tlc, repo
bad = 0
import os
for p in sorted(glob.glob(os.path.abspath('spec') + '/*.tla')):
    ok, out = tlc.sany(p)
    if not ok:
        bad += 1
        print('SANY FAILED', p); print(out[-1500:])
print('sany: %d modules, %d failed' % (len(glob.glob('spec/*.tla')), bad))
repo.setup()
print('extensions built at', repo.build_extensions())
sys.exit(1 if bad else 0)
PY
