import io, sys, struct
sys.path.insert(0,'/tmp/scratch/repo/src')
from TotalDepth.RP66V1.core import File, Index
from TotalDepth.RP66V1.core.LogicalRecord import EFLR
def sul(seq=1, maxlen=8192): return (b'%04d'%seq)+b'V1.00'+b'RECORD'+(b'%05d'%maxlen)+b'ID'.ljust(60)
def seg(payload, first, last, eflr, typ, pad=0, ck=False, tr=False):
    attr = (0x80 if eflr else 0)|(0 if first else 0x40)|(0 if last else 0x20)|(0x04 if ck else 0)|(0x02 if tr else 0)|(0x01 if pad else 0)
    body = payload + (b'\xEE'*(pad-1)+bytes([pad]) if pad else b'')
    ln = 4+len(body)+(2 if ck else 0)+(2 if tr else 0)
    assert ln%2==0 and ln>=16, ln
    return struct.pack('>HBB', ln, attr, typ)+body+(b'\xCC\xCC' if ck else b'')+(struct.pack('>H',ln) if tr else b'')
def vr(segs): 
    b=b''.join(segs); return struct.pack('>HH', len(b)+4, 0xff01)+b
p = bytes(range(100,160))  # 60 bytes
f = sul()+vr([seg(p[:20],True,False,True,3)])+vr([seg(p[20:40],False,False,True,3,pad=2,ck=True), seg(p[40:],False,True,True,3,tr=True,pad=0)])+vr([seg(bytes(range(12)),True,True,False,0)])
with File.FileRead(io.BytesIO(f)) as fr:
    for fld in fr.iter_logical_records():
        print(fld.lr_is_eflr, fld.lr_type, fld.logical_data.bytes == p, len(fld.logical_data.bytes))
with Index.LogicalRecordIndex(io.BytesIO(f)) as idx:
    print(len(idx), [str(x) for x in idx.lr_pos_desc])
    for off, ln in ((0,-1),(5,10),(15,10),(15,30),(25,-1),(0,60),(59,1),(10,0)):
        try:
            r = idx.get_file_logical_data(0, off, ln).logical_data.bytes
            exp = p[off:] if ln<0 else p[off:off+ln]
            print(off, ln, r==exp, len(r), len(exp))
        except Exception as e:
            print(off, ln, 'EXC', type(e).__name__, e)
