---- MODULE W ----
EXTENDS Integers, Sequences, TLC, FiniteSets
CONSTANTS VRMax
Lens == LENS
Chunks == {12, 14, 26, 9999}
Flags == { <<0,0,0>>, <<1,0,0>>, <<0,1,0>>, <<0,0,1>>, <<1,1,1>> }
VARIABLES k, off, segs, open, nvr, nseg
vars == <<k, off, segs, open, nvr, nseg>>
Init == k = 1 /\ off = 0 /\ segs = <<>> /\ open = 4 /\ nvr = 1 /\ nseg = 0
Rem == Lens[k] - off
\* pad needed to make len even and >= 16
SegLen(n, p, ck, tr) == 4 + n + p + 2*ck + 2*tr
Emit(c, f) ==
  /\ k <= Len(Lens) /\ nseg < 3
  /\ LET n == IF c > Rem THEN Rem ELSE c
         base == 4 + n + 2*f[2] + 2*f[3]
         need == IF base < 16 THEN 16 - base ELSE (IF base % 2 = 1 THEN 1 ELSE 0)
         pads == IF f[1] = 1 THEN {IF need = 0 THEN 2 ELSE need, (IF need = 0 THEN 2 ELSE need) + 2} ELSE (IF need = 0 THEN {0} ELSE {})
     IN /\ (c = 9999 \/ c <= Rem)
        /\ (nseg = 2 => n = Rem)
        /\ \E p \in pads :
            LET ln == base + p IN
            /\ ln % 2 = 0 /\ ln >= 16
            /\ \/ /\ open + ln <= VRMax
                  /\ open' = open + ln /\ nvr' = nvr
               \/ /\ open > 4 /\ 4 + ln <= VRMax
                  /\ open' = 4 + ln /\ nvr' = nvr + 1
            /\ segs' = Append(segs, <<k, off, n, p, f[2], f[3], nvr'>>)
            /\ IF n = Rem THEN k' = k + 1 /\ off' = 0 /\ nseg' = 0 ELSE k' = k /\ off' = off + n /\ nseg' = nseg + 1
Next == \E c \in Chunks, f \in Flags : Emit(c, f)
Spec == Init /\ [][Next]_vars
====
