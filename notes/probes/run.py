import sys, os, glob
sys.path.insert(0,'/tmp/scratch/repo/src'); sys.path.insert(0,'/tmp/scratch/mp/h')
os.environ['TRACE_DIR']='/tmp/scratch/mp/tr'; os.makedirs('/tmp/scratch/mp/tr', exist_ok=True)
import tracer
from TotalDepth.LAS.core import WriteLAS
from TotalDepth.BIT import ToLAS
from TotalDepth.common import Slice
if __name__=='__main__':
    r = WriteLAS.convert_dir_or_file_to_las_multiprocessing('/tmp/scratch/mp/in','/tmp/scratch/mp/out',False,'first',Slice.Slice(),set(),16,'.3f',3,tracer.Traced(ToLAS.single_bit_path_to_las_path))
    for k,v in sorted(r.items()): print(k, v.binary_file_type, v.las_count, v.exception, v.ignored)
    for p in glob.glob('/tmp/scratch/mp/tr/*'): print(open(p).read())
    print(sorted(os.listdir('/tmp/scratch/mp/out')))
