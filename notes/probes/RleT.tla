---- MODULE RleT ----
EXTENDS Integers, Sequences, TLC, Json, IOUtils
Traces == JsonDeserialize(IOEnv.TRACE_FILE)
VARIABLES tid, l, vals
vars == <<tid, l, vals>>
Ev == Traces[tid][l]
Init == tid \in 1..Len(Traces) /\ l = 1 /\ vals = <<>>
Add == l <= Len(Traces[tid]) /\ Ev.op = "add" /\ vals' = Append(vals, Ev.v) /\ l' = l+1 /\ UNCHANGED tid
Value == l <= Len(Traces[tid]) /\ Ev.op = "value" /\ Ev.i + 1 \in 1..Len(vals) /\ Ev.r = vals[Ev.i+1] /\ l' = l+1 /\ UNCHANGED <<tid, vals>>
Done == l > Len(Traces[tid]) /\ UNCHANGED vars
Next == Add \/ Value \/ Done
Spec == Init /\ [][Next]_vars
====
