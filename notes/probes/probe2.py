import io, sys
sys.path.insert(0,'/tmp/scratch/repo/src')
from TotalDepth.util import bin_file_type, EBCDIC
# SEGY: 3200 printable EBCDIC bytes starting with 'C' then non digits
import codecs
card = ('C' + 'AB' + ' '*77)
blk = (card*40).encode('cp037')
try:
    print('segy', repr(bin_file_type.binary_file_type(io.BytesIO(blk))))
except Exception as e:
    print('C20 raises', type(e).__name__, e)
for data in (b'', b'\x00', b'\x00'*11, b'\x00'*12, b'\x00'*8+b'\x20\x01\x00\x00'+b'A'*100, b'~V\nVERS. 2.0 : x\n', b'~V\n', b'\xff'*300):
    try:
        f = io.BytesIO(data)
        r = bin_file_type.binary_file_type(f); print(len(data), repr(r), f.tell())
    except Exception as e:
        print('C20 raises', len(data), type(e).__name__, e)
from TotalDepth.common import units
import numpy as np
a = units.slb_units('DEGC'); b = units.slb_units('FEET') if units.has_slb_units('FEET') else None
print(a, b)
try:
    print(units.convert(1.0, a, b))
except Exception as e: print(type(e).__name__)
print(units.convert_array(np.array([1.0]), a, b))
