import sys, os
from setuptools import setup, Extension
from Cython.Build import cythonize
src = sys.argv[1]; out = sys.argv[2]
os.chdir(src)
exts = cythonize([
    Extension("TotalDepth.LIS.core.cRepCode", ["src/TotalDepth/LIS/core/src/cython/cRepCode.pyx"]),
    Extension("TotalDepth.LIS.core.cFrameSet", ["src/TotalDepth/LIS/core/src/cython/cFrameSet.pyx"]),
], quiet=True, build_dir=out+'/cy') + [
    Extension("TotalDepth.LIS.core.cpRepCode",
        ["src/TotalDepth/LIS/core/src/cp/cpLISRepCode.cpp", "src/TotalDepth/LIS/core/src/cpp/LISRepCode.cpp"],
        extra_compile_args=["-Isrc/TotalDepth/LIS/core/src/cp","-Isrc/TotalDepth/LIS/core/src/cpp","-std=c++14"]),
]
setup(name='x', ext_modules=exts, script_args=['-q','build_ext','--build-lib',out+'/lib','--build-temp',out+'/tmp','-j','4'])
