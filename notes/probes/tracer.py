import os, json, itertools
_seq = itertools.count()
TRACE_DIR = os.environ.get('TRACE_DIR')
class Traced:
    def __init__(self, fn): self.fn = fn
    def __call__(self, *args):
        pid = os.getpid()
        with open(os.path.join(TRACE_DIR, f'{pid}.ndjson'), 'a') as f:
            f.write(json.dumps({'ev':'start','f':args[0],'pid':pid,'seq':next(_seq)})+'\n')
            try:
                r = self.fn(*args)
                f.write(json.dumps({'ev':'finish','f':args[0],'pid':pid,'seq':next(_seq),'exc':r.exception,'ign':r.ignored,'n':r.las_count})+'\n')
                return r
            except BaseException as e:
                f.write(json.dumps({'ev':'escape','f':args[0],'pid':pid,'seq':next(_seq),'err':type(e).__name__})+'\n')
                raise
