import io, sys, traceback
sys.path.insert(0,'/tmp/scratch/repo/src')
import TotalDepth
print(TotalDepth.__file__)
from TotalDepth.RP66V1.core import File
# 1 SUL
for seq, mrl in ((b'0001', b'08192'), (b'0010', b'08192'), (b'0001', b'10240'), (b'   1', b' 8192'),(b'0001', b'00020')):
    by = seq + b'V1.00' + b'RECORD' + mrl + b'X'*60
    try:
        s = File.StorageUnitLabel(by); print('SUL ok', seq, mrl, s.storage_unit_sequence_number, s.maximum_record_length)
    except Exception as e:
        print('SUL FAIL', seq, mrl, type(e).__name__)
# 4 RLE
from TotalDepth.common import Rle
for seq in ([5,5],[1,2,3,3,3,4],[3,3,3]):
    try:
        r = Rle.create_rle(seq); print(seq, str(r), list(r.values()), [r.value(i) for i in range(len(seq))])
    except Exception as e:
        print('RLE FAIL', seq, type(e).__name__, e)
try:
    r = Rle.create_rle([1,1,1,5]); print(r.largest_le(3))
except Exception as e:
    print('RLE largest_le FAIL', type(e).__name__, e)
# 6 gen_floats
from TotalDepth.BIT import ReadBIT
b = b'\xc2\x76\xa0\x00'
print('bit', ReadBIT.bytes_to_float(b), list(ReadBIT.gen_floats(b)))
# 7 LIS units
from TotalDepth.LIS.core import Units
try:
    print(Units.convert(1.0, b'FEET', b'S   '))
except Exception as e:
    print('LIS units', type(e).__name__, e)
# 8 Xml
from TotalDepth.util import XmlWrite
import xml.etree.ElementTree as ET
f = io.StringIO()
with XmlWrite.XmlStream(f) as xs:
    with XmlWrite.Element(xs, 'a', {'k': 'x\x00y\x01'}):
        xs.characters('hello\x02')
print(repr(f.getvalue()))
try:
    ET.fromstring(f.getvalue().encode())
    print('parsed')
except Exception as e:
    print('XML FAIL', e)
# 9 slice
from TotalDepth.common import Slice
for args,n in (((None,None,None),10),((0,10,3),10),((2,9,2),20),((None,None,2),7),((5,None,None),10),((None,-1,None),10)):
    s = Slice.Slice(*args)
    idx = s.indices(n)
    print(args, n, idx, 'first', s.first(n), 'last', s.last(n), 'step', s.step(n), 'count', s.count(n))
sm = Slice.Sample(7)
print(sm.indices(12), sm.first(12), sm.last(12), sm.step(12), sm.count(12))
