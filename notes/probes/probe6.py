import io, sys
sys.path.insert(0,'/tmp/scratch/repo/src')
from TotalDepth.LIS.core import LisGen, LogiRec, File, FileIndexer, RepCode
def build(indirect, frames_per_rec, nrec):
    ebs = LogiRec.EntryBlockSet()
    ebs.setEntryBlock(LogiRec.EntryBlock(LogiRec.EB_TYPE_FRAME_SPACE, 1, 66, 60))
    ebs.setEntryBlock(LogiRec.EntryBlock(LogiRec.EB_TYPE_FRAME_SPACE_UNITS, 4, 65, b'.1IN'))
    ebs.setEntryBlock(LogiRec.EntryBlock(LogiRec.EB_TYPE_UP_DOWN_FLAG, 1, 66, 255))
    if indirect:
        ebs.setEntryBlock(LogiRec.EntryBlock(LogiRec.EB_TYPE_RECORD_MODE, 1, 66, 1))
        ebs.setEntryBlock(LogiRec.EntryBlock(LogiRec.EB_TYPE_DEPTH_UNITS, 4, 65, b'.1IN'))
        ebs.setEntryBlock(LogiRec.EntryBlock(LogiRec.EB_TYPE_DEPTH_REP_CODE, 1, 66, 68))
    chs = [LisGen.Channel(LisGen.ChannelSpec(nm, b'ServID', b'ServOrdN', b'FEET', 45310011, 256, 4, 1, 68),
           LisGen.ChValsSaw(fOffs=0, waveLen=1000, mid=500.0, amp=500.0, numSa=1, noise=None)) for nm in (b'AAAA', b'BBBB')]
    lp = LisGen.LogPassGen(ebs, chs, xStart=1000.0, xRepCode=68, xNoise=None)
    ba = bytearray()
    fh = LisGen.FileHeadTail(b'RUNOne.lis', b'SubLevName', b'Vers num', b'78/03/15', b' 1024', b'AB', b'Prev name.')
    ba += LisGen.retSinglePr(fh.lrBytesFileHead)
    ba += LisGen.retSinglePr(lp.lrBytesDFSR())
    for i in range(nrec):
        ba += LisGen.retSinglePr(lp.lrBytes(i*frames_per_rec, frames_per_rec))
    ba += LisGen.retSinglePr(fh.lrBytesFileTail)
    return bytes(ba)
for indirect in (True, False):
    by = build(indirect, 4, 3)
    f = File.FileRead(io.BytesIO(by), 'id', keepGoing=True)
    idx = FileIndexer.FileIndex(f)
    lp = [l for l in idx.genLogPasses()][0].logPass
    print('indirect', indirect, 'frames', lp.totalFrames, 'first', lp.xAxisFirstVal, 'last', lp.xAxisLastVal)
    lp.setFrameSet(f, slice(0, 12, 1), None)
    full_x = [float(lp.frameSet.xAxisValue(i)) for i in range(lp.frameSet.numFrames)]
    full = lp.frameSet.frames.copy()
    print(' full x', full_x)
    for sl in (slice(0,12,3), slice(1,12,2), slice(5,12,1), slice(2,11,4)):
        try:
            lp.setFrameSet(f, sl, None)
            xs = [float(lp.frameSet.xAxisValue(i)) for i in range(lp.frameSet.numFrames)]
            exp = full_x[sl]
            ok = (lp.frameSet.frames == full[sl]).all()
            print(' ', sl, 'x ok' if xs==exp else f'x BAD {xs} exp {exp}', 'vals ok' if ok else 'vals BAD')
        except Exception as e:
            print(' ', sl, 'EXC', type(e).__name__, e)
