import io, sys
sys.path.insert(0,'/tmp/scratch/repo/src')
from TotalDepth.LIS.core import File, PhysRec
recs = [bytes([128,0])+bytes(range(10,18)), bytes([34,0])+bytes(range(50,55)), bytes([129,0])+bytes(range(90,99))]
for tif in (False, True):
    f = io.BytesIO()
    w = File.FileWrite(f, 'id', hasTif=tif, thePrLen=4+4+2, thePrt=PhysRec.PhysRecTail(hasRecNum=True))
    pos = [w.write(r) for r in recs]
    by = f.getvalue()
    print('tif', tif, 'pos', pos, len(by), by.hex())
    r = File.FileRead(io.BytesIO(by), 'id', keepGoing=False)
    def st(): return (r.tellLr(), r.tell(), r.isEOF, r.hasLd(), r.ldIndex())
    print('init', st())
    for op in [('read',4),('read',6),('read',3),('read',3),('read',-1),('read',-1),('read',2),('skip',-1),('read',-1),('read',1),('read',1)]:
        try:
            if op[0]=='read': res = r.readLrBytes(op[1])
            else: res = r.skipLrBytes(op[1])
        except Exception as e:
            res = ('EXC', type(e).__name__, str(e)[:60])
        print(op, res, st())
    r.seekLr(pos[1]); print('seek', st()); print(r.readLrBytes(2), st()); print(r.skipToNextLr(), st()); print(r.readLrBytes(-1), st())
    r.seekLr(pos[2]); print(r.readLrBytes(4), st()); print(r.skipLrBytes(7), st()); print(r.skipLrBytes(7), st());print(r.skipLrBytes(7), st())
