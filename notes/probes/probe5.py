import io, sys, struct
sys.path.insert(0,'/tmp/scratch/repo/src')
from TotalDepth.RP66V1.core import File
from TotalDepth.RP66V1.core.LogicalRecord import EFLR
def ident(b): return bytes([len(b)])+b
def obname(o,c,i): return bytes([o,c])+ident(i)
def show(name, by):
    try:
        e = EFLR.ExplicitlyFormattedLogicalRecord(5, File.LogicalData(by))
        print(name, 'OK set', e.set.type, 'tmpl', [(a.label, a.count, a.rep_code, a.value) for a in e.template.attrs])
        for o in e.objects:
            print('   obj', o.name.I, [(None if a is None else (a.label, a.count, a.rep_code, a.units, a.value)) for a in o.attrs])
    except Exception as ex:
        print(name, 'EXC', type(ex).__name__, ex)
SET = bytes([0xF0])+ident(b'TOOL')
# template: A (L), B (L,R=USHORT(15)), object1: A=V 'x', B=V 7 ; object2: A absent, B V 9; object3: A V 'y' (B omitted)
T = bytes([0x30])+ident(b'A') + bytes([0x34])+ident(b'B')+bytes([15])
O1 = bytes([0x70])+obname(1,0,b'O1') + bytes([0x21])+ident(b'x') + bytes([0x21])+bytes([7])
O2 = bytes([0x70])+obname(1,0,b'O2') + bytes([0x00]) + bytes([0x21])+bytes([9])
O3 = bytes([0x70])+obname(1,0,b'O3') + bytes([0x21])+ident(b'y')
show('basic', SET+T+O1)
show('absent', SET+T+O1+O2)
show('omit', SET+T+O1+O3+O2)
# invariant attribute in template: I (L,V) value 'inv'
TI = bytes([0x30])+ident(b'A') + bytes([0x51])+ident(b'I')+ident(b'inv') + bytes([0x34])+ident(b'B')+bytes([15])
show('invariant', SET+TI+O1)
# object with no attributes followed by another
O0 = bytes([0x70])+obname(1,0,b'O0')
show('noattr', SET+T+O0+O1)
show('noattr-last', SET+T+O1+O0)
