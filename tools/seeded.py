#!/venv/bin/python
"""Vet and use a seeded change produced by an independent sub-agent.

  tools/seeded.py vet  <out-dir> <name>     confirm in a scratch worktree: patch applies, existing suite passes,
                                            demo passes without / fails with; then store as /verif/seeded/<name>/
  tools/seeded.py run  <name> [tier]        apply to /repo, run the property's check, undo; record the outcome
"""
import json
import os
import shutil
import subprocess
import sys

ROOT = os.path.dirname(os.path.dirname(os.path.abspath(__file__)))


def sh(cmd, **kw):
    return subprocess.run(cmd, shell=True, stdout=subprocess.PIPE, stderr=subprocess.STDOUT, text=True, **kw)


def vet(outdir, name):
    meta = json.load(open(os.path.join(outdir, 'meta.json')))
    wt = '/tmp/vet_' + name
    sh('git -C /repo worktree remove --force %s' % wt)
    r = sh('git -C /repo worktree add -q --detach %s HEAD' % wt)
    assert r.returncode == 0, r.stdout
    try:
        sh('cp /repo/src/TotalDepth/LIS/core/*.so %s/src/TotalDepth/LIS/core/' % wt)
        env = dict(os.environ, PYTHONPATH=wt + '/src', PYTHONDONTWRITEBYTECODE='1')
        demo = os.path.join(outdir, 'demo.py')
        d0 = sh('/venv/bin/python %s' % demo, env=env, cwd=wt)
        r = sh('git -C %s apply %s' % (wt, os.path.join(outdir, 'patch.diff')))
        assert r.returncode == 0, 'patch does not apply: ' + r.stdout
        d1 = sh('/venv/bin/python %s' % demo, env=env, cwd=wt)
        t = sh('/venv/bin/python -m pytest -q -p no:cacheprovider --timeout=900 --continue-on-collection-errors tests 2>&1 | tail -3',
               env=env, cwd=wt)
        ok = d0.returncode == 0 and d1.returncode != 0 and ' failed' not in t.stdout and ' error' not in t.stdout.lower().replace('errors=0', '')
        print('demo without: rc=%d  with: rc=%d\nsuite: %s' % (d0.returncode, d1.returncode, t.stdout.strip().splitlines()[-1]))
        if not ok:
            print('NOT CONFIRMED'); print(d0.stdout[-500:]); print(d1.stdout[-500:])
            return 1
        dst = os.path.join(ROOT, 'seeded', name)
        os.makedirs(dst, exist_ok=True)
        shutil.copy(os.path.join(outdir, 'patch.diff'), dst)
        shutil.copy(demo, dst)
        meta.update(confirmed=dict(demo_without_rc=d0.returncode, demo_with_rc=d1.returncode,
                                   suite_with_change=t.stdout.strip().splitlines()[-1],
                                   ran='scratch worktree of /repo HEAD: demo.py before and after `git apply patch.diff`; '
                                       'pytest tests with the change applied'))
        json.dump(meta, open(os.path.join(dst, 'meta.json'), 'w'), indent=1)
        print('stored', dst)
        return 0
    finally:
        sh('git -C /repo worktree remove --force %s' % wt)
        shutil.rmtree(wt, ignore_errors=True)


def run(name, tier='quick'):
    dst = os.path.join(ROOT, 'seeded', name)
    meta = json.load(open(os.path.join(dst, 'meta.json')))
    prop = meta['property']
    if os.environ.get('SEEDED_SCRATCH'):
        # same thing on a scratch worktree of /repo HEAD (used while something else needs /repo untouched)
        wt = '/tmp/seeded_wt_' + name
        sh('git -C /repo worktree remove --force %s' % wt)
        r = sh('git -C /repo worktree add -q --detach %s HEAD' % wt)
        assert r.returncode == 0, r.stdout
        try:
            r = sh('git -C %s apply %s' % (wt, os.path.join(dst, 'patch.diff')))
            assert r.returncode == 0, r.stdout
            env = dict(os.environ, VERIF_EVIDENCE_DIR='/tmp/seeded_ev_' + name, VERIF_REPO=wt)
            p = sh('%s/check %s --tier %s' % (ROOT, prop, tier), env=env, cwd=ROOT)
        finally:
            sh('git -C /repo worktree remove --force %s' % wt)
            shutil.rmtree(wt, ignore_errors=True)
            shutil.rmtree('/tmp/seeded_ev_' + name, ignore_errors=True)
    else:
        assert sh('git -C /repo status --porcelain').stdout.strip() == '', '/repo is dirty'
        r = sh('git -C /repo apply %s' % os.path.join(dst, 'patch.diff'))
        assert r.returncode == 0, r.stdout
        try:
            env = dict(os.environ, VERIF_EVIDENCE_DIR='/tmp/seeded_ev_' + name)
            p = sh('%s/check %s --tier %s' % (ROOT, prop, tier), env=env, cwd=ROOT)
        finally:
            sh('git -C /repo checkout -- .')
            shutil.rmtree('/tmp/seeded_ev_' + name, ignore_errors=True)
    viol = [l for l in p.stdout.splitlines() if l.startswith('VIOLATION')]
    res = 'CAUGHT' if p.returncode == 1 and viol else ('MACHINERY' if p.returncode == 2 else 'MISSED')
    lines = p.stdout.splitlines()
    detail = ''
    for i, l in enumerate(lines):
        if l.startswith('VIOLATION'):
            detail = '\n'.join(lines[i:i + 2])[:700]
            break
    print(res, name, prop, tier)
    print(detail or p.stdout[-600:])
    key = tier if not os.environ.get('VERIF_SEED') else '%s_seed_%s' % (tier, os.environ['VERIF_SEED'])
    meta.setdefault('detection', {})[key] = dict(result=res, detail=detail[:400])
    json.dump(meta, open(os.path.join(dst, 'meta.json'), 'w'), indent=1)
    return 0 if res == 'CAUGHT' else 1


if __name__ == '__main__':
    if sys.argv[1] == 'vet':
        sys.exit(vet(sys.argv[2], sys.argv[3]))
    sys.exit(run(*sys.argv[2:]))
