#!/venv/bin/python
"""Automatic mutation run: small syntactic mutants of the source files a property is anchored in.

For every mutant (one token change on one line) in a scratch copy of /repo/src:
  1. the repository's own test suite must still pass (otherwise the mutant is not a "change that passes the existing tests");
  2. the property's quick check is run against the scratch copy (VERIF_REPO): CAUGHT (exit 1 + VIOLATION) or SURVIVED.
Survivors are listed for manual triage (equivalent mutant or a gap in the check).

  tools/automut.py <property> <src-relative-file> [--max N] [--seed S] [--jobs J] [--lines a-b]
Results are appended to /verif/mutants/auto_results.jsonl.  Not a manifest check.
"""
import argparse
import json
import os
import random
import re
import shutil
import subprocess
import sys
import tempfile
from concurrent.futures import ThreadPoolExecutor

ROOT = os.path.dirname(os.path.dirname(os.path.abspath(__file__)))

RULES = [
    (r'(?<![<>=!])<=(?!=)', ['<']), (r'(?<![<>=!-])<(?![<=])', ['<=']), (r'(?<![<>=!-])>=(?!=)', ['>']), (r'(?<![<>=!-])>(?![>=])', ['>=']),
    (r'==', ['!=']), (r'!=', ['==']),
    (r'\band\b', ['or']), (r'\bor\b', ['and']),
    (r'\+ 1\b', ['+ 2', '+ 0']), (r'- 1\b', ['- 2', '- 0', '+ 1']),
    (r'\bTrue\b', ['False']), (r'\bFalse\b', ['True']),
    (r'\bnot ', ['']), (r'//', ['/']), (r'\bmin\(', ['max(']), (r'\bmax\(', ['min(']),
    (r'\[0\]', ['[1]', '[-1]']), (r'\[-1\]', ['[0]']), (r'\b0\b', ['1']), (r'\b1\b', ['0', '2']),
    (r'\bcontinue\b', ['break']), (r'\bbreak\b', ['continue']),
]


def candidates(path, lines=None):
    text = open(path).read()
    src = text.split('\n')
    out = []
    # lines covered by docstrings / bare string statements / multi-line strings are not code
    import ast
    skip = set()
    for node in ast.walk(ast.parse(text)):
        if isinstance(node, ast.Expr) and isinstance(node.value, ast.Constant) and isinstance(node.value.value, str):
            skip.update(range(node.lineno, node.end_lineno + 1))
        elif isinstance(node, ast.Constant) and isinstance(node.value, str) and node.end_lineno > node.lineno:
            skip.update(range(node.lineno, node.end_lineno + 1))
    for i, ln in enumerate(src):
        st = ln.strip()
        if (i + 1) in skip:
            continue
        if lines and not (lines[0] <= i + 1 <= lines[1]):
            continue
        if not st or st.startswith('#') or st.startswith(('import ', 'from ', 'logger.', 'logging.', 'print(', 'assert', 'raise ', '@', 'def ', 'class ', '__')):
            continue
        code = ln.split('  #')[0]
        if 'logger.' in code or 'logging.' in code or "f'" in code and 'raise' in code:
            continue
        for pat, reps in RULES:
            for m in re.finditer(pat, code):
                # not inside a string literal (crude: even number of quotes before the match)
                pre = code[:m.start()]
                if pre.count("'") % 2 or pre.count('"') % 2:
                    continue
                for rep in reps:
                    out.append((i, m.start(), m.end(), rep, ln))
    return src, out


def run_one(args):
    prop, rel, src_lines, (i, a, b, rep, ln), idx = args
    scratch = tempfile.mkdtemp(prefix='verif_amut_', dir='/tmp')
    try:
        for sub in ('src', 'tests', 'example_data'):
            shutil.copytree(os.path.join('/repo', sub), os.path.join(scratch, sub), ignore=shutil.ignore_patterns('__pycache__', '*.pyc'))
        for fn in ('setup.cfg', 'pytest.ini', 'conftest.py'):
            if os.path.exists(os.path.join('/repo', fn)):
                shutil.copy(os.path.join('/repo', fn), scratch)
        new = list(src_lines)
        new[i] = ln[:a] + rep + ln[b:]
        with open(os.path.join(scratch, 'src', rel), 'w') as f:
            f.write('\n'.join(new))
        rec = dict(property=prop, file=rel, line=i + 1, old=ln.strip(), new=new[i].strip())
        c = subprocess.run(['/venv/bin/python', '-c', 'import ast,sys; ast.parse(open(sys.argv[1]).read())', os.path.join(scratch, 'src', rel)],
                           stdout=subprocess.PIPE, stderr=subprocess.STDOUT)
        if c.returncode:
            return dict(rec, result='INVALID')
        env = dict(os.environ, PYTHONPATH=os.path.join(scratch, 'src'), PYTHONDONTWRITEBYTECODE='1')
        t = subprocess.run(['/venv/bin/python', '-m', 'pytest', '-q', '-x', '-p', 'no:cacheprovider', '--timeout=300', '--continue-on-collection-errors', 'tests'],
                           env=env, stdout=subprocess.PIPE, stderr=subprocess.STDOUT, text=True, cwd=scratch)
        tail = t.stdout.strip().splitlines()[-1] if t.stdout.strip() else ''
        if t.returncode != 0:
            return dict(rec, result='KILLED-BY-SUITE', suite=tail[:120])
        env2 = dict(os.environ, VERIF_REPO=scratch, VERIF_EVIDENCE_DIR=os.path.join(scratch, 'ev'),
                    VERIF_EXT_CACHE=os.environ.get('VERIF_EXT_CACHE', '/tmp/verif_ext_cache'))
        p = subprocess.run([os.path.join(ROOT, 'check'), prop, '--tier', 'quick'], env=env2, stdout=subprocess.PIPE, stderr=subprocess.STDOUT, text=True, cwd=ROOT)
        viol = [l for l in p.stdout.splitlines() if l.startswith('VIOLATION')]
        res = 'CAUGHT' if p.returncode == 1 and viol else ('MACHINERY' if p.returncode == 2 else 'SURVIVED')
        detail = ''
        for k, l in enumerate(p.stdout.splitlines()):
            if l.startswith('VIOLATION'):
                detail = p.stdout.splitlines()[k + 1][:200] if k + 1 < len(p.stdout.splitlines()) else ''
                break
        if res == 'MACHINERY':
            detail = p.stdout[-400:]
        return dict(rec, result=res, detail=detail)
    finally:
        shutil.rmtree(scratch, ignore_errors=True)


def main():
    ap = argparse.ArgumentParser()
    ap.add_argument('prop')
    ap.add_argument('file')
    ap.add_argument('--max', type=int, default=40)
    ap.add_argument('--seed', type=int, default=1)
    ap.add_argument('--jobs', type=int, default=6)
    ap.add_argument('--lines')
    a = ap.parse_args()
    lines = tuple(int(x) for x in a.lines.split('-')) if a.lines else None
    src, cands = candidates(os.path.join('/repo', a.file), lines)
    rng = random.Random(a.seed)
    rng.shuffle(cands)
    picked, seen = [], set()
    for c in cands:
        if c[0] in seen:
            continue           # one mutant per line
        seen.add(c[0])
        picked.append(c)
        if len(picked) >= a.max:
            break
    rel = a.file[len('src/'):] if a.file.startswith('src/') else a.file
    with ThreadPoolExecutor(a.jobs) as ex:
        results = list(ex.map(run_one, [(a.prop, rel, src, c, k) for k, c in enumerate(picked)]))
    out = os.path.join(ROOT, 'mutants', 'auto_results.jsonl')
    with open(out, 'a') as f:
        for r in results:
            f.write(json.dumps(r) + '\n')
    import collections
    cnt = collections.Counter(r['result'] for r in results)
    print('%s %s: %d candidates, %d run: %s' % (a.prop, a.file, len(cands), len(results), dict(cnt)))
    for r in results:
        if r['result'] in ('SURVIVED', 'MACHINERY'):
            print('  %s line %d: %s  ->  %s   %s' % (r['result'], r['line'], r['old'][:90], r['new'][:90], r.get('detail', '')[:120]))


if __name__ == '__main__':
    main()
