#!/usr/bin/env python3
"""Regenerate /verif/MANIFEST.json from the table below (kept in one place so it stays valid)."""
import json
import os

ROOT = os.path.dirname(os.path.dirname(os.path.abspath(__file__)))
ALL = ['C%02d' % i for i in range(1, 21)]

CLAIMED = {
    'C15': dict(
        category='model_checking', design='3/C15',
        text=('TLC exhaustively checks that the stepping machines of Slice and Sample (SliceSel.tla) refine the abstract '
              'Python-slice / sample definitions (SliceSelAbs.tla) for every selector and length in the bound, the abstract '
              'operators are evaluated by TLC on the whole bounded domain and every row is replayed on the real classes '
              '(exhaustive in the bound), and recorded call histories on real objects with lengths up to 5000 are '
              'validated by TLC against SliceSelTrace.tla.  Unbounded: Apalache discharges the inductive invariant of the error-diffusion sampler (SampleInd.tla) for all N < n.  In situ: every Slice / Sample object created by the LAS converters on generated files and by the repository test_Slice.py is recorded and validated against SliceSelTrace.tla.'),
        note=('Trusts TLC, the Json community module and the harness rendering of option-string part classes; steps of either sign (never 0); '
              'call histories include two generators of one object walked in lockstep and a call made in the middle of a walk.'),
        technique='TLA+ spec + TLC model checking; spec-derived exhaustive replay; TLC trace validation'),
    'C16': dict(
        category='model_checking', design='3/C16',
        text=('TLC checks that the run-forming design of RLE / RLEType01 (Rle.tla: Add, value walk, largest_le bisect, '
              'tellLrForFrame walk) refines the abstract sequence semantics (RleAbs.tla) for every integer sequence over '
              '-2..3 up to length 5/6 and every record-triple sequence up to length 5/6; the call history of real objects '
              '(every such short sequence exhaustively with interleaved queries, long seeded-random histories, and a float '
              'lattice variant) is validated event by event by TLC against RleTrace.tla (abstract state only).  In situ: every RLE object the library creates while writing the RP66V1 XML index / HTML scan of generated files and the ones of the repository test_Rle.py are recorded call by call and validated against RleTrace.tla.'),
        note='Trusts TLC/Json module; float closeness bound (n+4)*eps*max(...) is checked by the harness, the lattice index by TLC.',
        technique='TLA+ spec + TLC model checking (design refinement) + TLC trace validation of real call histories'),
    'C01': dict(
        category='model_checking', design='3/C01',
        text=('TLC checks the lockstep writer/reader design of the RP66V1 physical layer (DlisPhys/DlisPhysMC: every even '
              'segment length >= 16, pad/checksum/trailing-length/encryption flags, visible-record packing) against the '
              'abstract content (DlisAbs); complete layouts enumerated by TLC and seeded random layouts (each vetted by '
              'the writer specification) are rendered to bytes, read by the real FileRead, and the SUL fields and every '
              'yielded record are validated by TLC against DlisPhysTrace.'),
        note='Trusts TLC, the harness byte renderer (independent of the code under test) and its bytes->range projection.',
        technique='TLA+ spec + TLC model checking; TLC-enumerated layouts replayed; TLC trace validation of real reads'),
    'C02': dict(
        category='model_checking', design='3/C02',
        text=('TLC checks the offset/length slicing loop of get_file_logical_data (DlisIndex) against the abstract slice for '
              'every split into <= 3/4 segments and every (offset, length); index entries and histories of fetches on ONE '
              'real LogicalRecordIndex per generated file (permutations, repeats, ranges straddling segment and visible '
              'record boundaries), with the file reads observed per fetch, are validated by TLC against DlisPhysTrace '
              '(true positions and visible-record extents are derived by the writer specification).'),
        note='Same trusted base as C01; locality is judged on reads observed through a tracing BytesIO.',
        technique='TLA+ spec + TLC model checking; TLC trace validation of fetch histories with observed I/O'),
    'C05': dict(
        category='model_checking', design='3/C05',
        text=('TLC checks that the PhysRecRead design (LisPhys.tla: header/trailer/within-record loops, mustReadHead, '
              'start-of-record bookkeeping) refines the abstract record cursor (LisPhysAbs.tla) under every operation '
              'sequence over a set of layouts covering every split shape, and that the greedy writer split is a valid '
              'split; operation histories on one real FileRead per generated file (any valid split and trailer mix, TIF '
              'none/normal/reversed), the real FileWrite output parsed by an independent LIS-79 parser (bits, trailers, '
              'TIF chain, returned positions, payload), read-back and strip_tif are validated by TLC against LisPhysTrace.  In situ: the reads, skips, seeks, tells and EOF flags that the real FileIndex and LogPass.setFrameSet issue on ONE real FileRead of a generated LIS file with real content are recorded by wrapping the instance and validated against LisPhysAbs as well.'),
        note='Trusts TLC, the independent renderer/parser in harness/gen/lis.py and the bytes->range projection; n >= 1 reads.',
        technique='TLA+ spec + TLC model checking over all operation sequences; TLC trace validation of reader/writer histories'),
    'C18': dict(
        category='model_checking', design='3/C18',
        text=('TLC checks the XmlStream API machine with character-class encoding (XmlStream.tla) for every call sequence '
              'up to 3/4 calls: the token stream always parses (WellFormed) into exactly the implied events (Faithful); every '
              'closed behaviour is replayed on the real XmlStream/XhtmlStream/Element with concrete characters and parsed '
              'back by expat and lxml; every code point (quick: 0..0x2FF + boundaries + 3000 random; thorough: whole BMP + '
              'astral sample) is swept in text and attribute position; the API-call streams of real document writers are '
              'captured in-process and validated with the parsed document by TLC against XmlStreamTrace.tla.  Also validated as call streams + documents: SVG log plots with hostile titles, and every XmlStream created by the repository\'s own writer tests (TestXmlWrite, TestHtmlUtils, TestSVGWriter, test_ToHTML, TestTrack) run under the recorder; LAS HTML must carry every description / string value of the LAS file unchanged.'),
        note=('Trusts expat/lxml as judges of well-formedness. Known finding F7 (illegal character references) is listed in '
              'known_findings.json; affected documents are judged after replacing exactly those references. Writers covered so '
              'far: XmlStream itself, LASToHTML; RP66V1 XML index / HTML and LIS HTML are added with their generators.'),
        technique='TLA+ spec + TLC model checking; replay of every model behaviour; TLC trace validation of writer call streams'),
    'C13': dict(
        category='model_checking', design='3/C13',
        text=('TLC checks the TIF block walker and channel-major de-interleave design (Bit.tla) against the abstract pass '
              'matrix for a set of pass/block patterns (short last block, 1..20 channels, several passes); IBM single '
              'precision is specified as an exact dyadic and TLC writes an oracle table of words on which bytes_to_float, '
              'gen_floats and RP66V1 ISINGL are compared exactly; files rendered by an independent encoder (patterns + seeded '
              'random) are read by create_bit_frame_array_from_file and compared cell by cell with ExpectedCell, names, frame '
              'counts and the computed X axis.'),
        note=('The model is deterministic (tens of states); strength comes from the spec-derived oracle and the rendered files. '
              'Known finding F3 (gen_floats divisor) is recognised by its exact wrong value and listed in known_findings.json.'),
        technique='TLA+ spec + TLC (design check, oracle table); spec-derived replay on rendered files'),
    'C14': dict(
        category='model_checking', design='3/C14',
        text=('TLC enumerates the DAT content model (every declaration order, header subset and order, 0..2 rows, every '
              'single-line corruption kind at every line) and checks that the two-phase scanner design always answers within '
              'the abstract expectation; every terminal state is rendered to text (separators, description spacing, both '
              'date spellings, one/two digit days drawn per case) and replayed on parse_file and can_parse_file: faithful '
              'channels/descriptions/units/typed values for valid texts, a DAT error for row-length mismatches and '
              'undeclared names, no frame array for garbled values.'),
        note='Trusts TLC and the harness text renderer; the exception class for garbled values is not judged.',
        technique='TLA+ spec + TLC model checking; one implementation test per terminal state of the model'),
    'C09': dict(
        category='model_checking', design='3/C09',
        text=('TLC checks the LAS reader design (LasRead.tla: comment/blank-dropping line generator with push-back, section '
              'dispatch, wrap buffer) against the content for every layout a writer can produce (comments, blank and '
              'space-only lines anywhere, every wrap split, single-curve wrap) and the first-dot/last-colon field split over '
              'character classes; every complete layout enumerated by TLC is rendered with concrete typed content '
              '(paddings, separators, values with colons/dots/spaces/times, unparseable data values) and parsed by the '
              'real LASRead, which must return the content; plus seeded random contents up to 40 curves x 300 frames.'),
        note='Trusts TLC and the harness renderer; content pools avoid texts whose typed reading is ambiguous; NULL = -999.25.',
        technique='TLA+ spec + TLC model checking (lockstep writer/reader); TLC-enumerated layouts replayed on the parser'),
    'C10': dict(
        category='model_checking', design='3/C10',
        text=('TLC checks the three channel-listing predicates of the LAS writer with the in-place request mutation '
              '(LasWrite.tla) against the abstract listing X + requested channels for every frame array (<= 3/4 channels) '
              'and every request including foreign names; TLC evaluates the abstract listing on that whole domain '
              '(LasWriteTable.tla) and every row is replayed on write_curve_and_array_section_to_las with concrete numpy '
              'arrays (10 dtypes, dimensions, 5 reductions, widths, decimal formats, extreme values); the text is cut up by an '
              'independent splitter (three listings, units, every printed value against the exact rational reduction within '
              'half a unit of the last decimal) and read back through LASRead.'),
        note=('Numeric closeness is enumeration in the harness with an exact-rational oracle (TLC has no reals); names without '
              'spaces; |integers| <= 2^53; field width >= 2.'),
        technique='TLA+ spec + TLC model checking; TLC oracle table replayed on the writer; independent splitter + LASRead round trip'),
    'C17': dict(
        category='exploration', design='3/C17',
        text=('The conversion laws (identity, invertibility, transitivity, the dimension/unknown-unit gate), the agreement of '
              'the two code variants with the affine formula and the equality of the chained in-place array conversion with '
              'element-wise conversion are model checked by TLC in exact rationals (Units.tla).  The floating-point tables '
              'are beyond TLC (32-bit integers, 2035 entries), so the implementation is covered by enumeration: every ordered '
              'pair of every OSDD dimension (quick: <= 400 sampled per dimension) and LIS category, sampled triples, '
              'cross-dimension and unknown-unit pairs, through convert / convert_function / convert_array / '
              'convert_array_inplace / LIS convert, each result compared with the specification formula evaluated in exact '
              'rational arithmetic on the table constants within a first-order forward error bound.'),
        note='Exploration, not model checking, is the honest level for the floating-point side; the oracle is the spec formula.',
        technique='TLA+ spec (TLC-checked laws and case classes) + exhaustive/sampled enumeration against the exact-rational spec formula'),
    'C07': dict(
        category='model_checking', design='3/C07',
        text=('The fixed-length codes of LIS-79 and RP66V1 are TLA+ operators giving exact dyadic values, the variable-length '
              'codes consumption operators, and the code-68 encoder a normalising encoder whose two laws TLC checks on a lattice '
              '(RepCodes.tla).  TLC writes oracle tables (every sign/exponent class x boundary fractions of the 32-bit codes, '
              'every 8-bit word, every / every 17th 16-bit word, UVARI prefixes, consumption lengths) against which the Python, '
              'Cython (rebuilt from the current .pyx), C++ implementations, the RepCode front ends and the RP66V1 code_read / '
              '*_len helpers are compared exactly; the three code-68 implementations are compared bit for bit with each other '
              'and with the specification decoder on 10^6 (quick) / 2*10^7 (thorough) sampled words and doubles, including the '
              're-encoding and precision laws on the real to68.'),
        note=('The 2^32 sweep is sampled enumeration in the harness, not TLC. Not judged: LIS code 50 with negative exponent field, FDOUBL. '
              'VSINGL: the offline sources support two readings of the fraction weight; both are tabulated by TLC (every exponent, both signs) '
              'and the implementation must follow one of them on every pattern. Known finding F17 (to68(-2^127)).'),
        technique='TLA+ reference operators + TLC-checked encoder laws and TLC-written oracle tables; exact comparison of all implementations'),
    'C20': dict(
        category='model_checking', design='3/C20',
        text=('TLC checks the ordered decision list of binary_file_type over feature records (FileType.tla): for every '
              'supported well-log format the format-derived set of valid feature records is classified as its own type (no '
              'shadowing by an earlier entry), with the stated 276-byte TIF exclusion shown to be necessary.  Files of every '
              'format and layout class from the other generators (RP66V1 SUL variants and layouts, LIS plain/TIF/reversed '
              'starting with reel, tape or file header, LAS 1.2/2.0 with leading comments, BIT, DAT) must be identified as '
              'their own type via file object and via path; fault enumeration (truncation at every byte, bit flips and '
              'overwrites over the first 512 bytes of one file per class, EBCDIC / partial SUL / partial TIF prefixes, random '
              'strings) checks documented code or empty string, no exception, position 0, file still readable, bounded time.'),
        note='The feature abstraction is trusted to describe the byte tests; fault enumeration is systematic but finite.',
        technique='TLA+ spec + TLC check of the decision list; generated files of every format replayed; systematic fault enumeration'),
    'C08': dict(
        category='model_checking', design='3/C08',
        text=('TLC model checks the component-block stream of a LIS table and the row assembly / duplicate-discard machine of '
              'LrTableRead (LisTable.tla) for every table of <= 3 rows over two row names, value classes and unit flags, both for '
              'writer-produced streams and raw streams containing duplicate rows, plus entry-block-set parity and burst '
              'derivation; every terminal state becomes one implementation test with concrete boundary values per class: real '
              'LrTableWrite (or an independent component-block encoder for duplicates) -> physical LIS file with a random '
              'layout -> real LrTableRead, compared with the specification; entry block sets (600 random / all 2^15 subsets x '
              'legal sizes) and independently packed channel blocks go through EntryBlockSet.lisBytes() -> LrDFSRRead.'),
        note='Trusts TLC and the harness encoders (struct packing per LIS-79); an empty byte cell may read back as None.',
        technique='TLA+ spec + TLC model checking; one implementation test per terminal state of the model'),
    'C06': dict(
        category='model_checking', design='3/C06',
        text=('TLC explores every event plan accepted by the frame-load interpreter (LisFrames.tla: seek / read / skip / '
              'extrapolate with a cursor inside the data record) for a set of small cases and checks that an accepted plan '
              'loads only requested cells at their true byte positions, gives every row its true implied X and visits only '
              'records holding requested frames; generated LIS files (explicit / implied X, up / down, 1..5 channels of every '
              'supported representation code with samples and bursts, record patterns with a short last record, random '
              'physical layout) are indexed and loaded by the real FileIndex / LogPass with several (slice, channel subset) '
              'loads per LogPass object; the real event plan, rows, implied X values, seekLr targets and the index entries are '
              'validated by TLC against LisFramesTrace.tla and the matrix is compared with the recorded values.  The indexer: '
              'TLC checks LisIndex.tla (entry list + data-type -> current log pass map) against the declarative answer for every '
              'conformant record sequence of <= 4 (5) records over 15 record kinds incl. alternate data, and every sequence '
              '(LisIndexTable) is rendered as a real file and indexed by the real FileIndex: listed records at true positions in '
              'order, every log pass with its frame count and first X.  The planner: LisPlan.tla transcribes FrameSetPlan.genEvents; TLC '
              'checks every plan in the bound with an abstract byte-cursor interpreter; the real planner is compared with the exported plan '
              'for every case (LisPlanTable) and a differing real plan is judged by the same interpreter (LisPlanJudge), not by equality.  '
              'Loaded values are also read back through FrameSet.value(frame, channel, sub-channel, sample, burst) in LIS-79 order.'),
        note=('Known finding F11 (implied X after a record change) is recognised by exact emulation. '
              'Slices are bounded ones with step >= 1 (API restriction of LogPass.setFrameSet).'),
        technique='TLA+ spec + TLC model checking of the plan interpreter; TLC trace validation of real plans and results'),
    'C03': dict(
        category='model_checking', design='3/C03',
        text=('TLC model checks the component grammar and parse machine of RP66V1 explicitly formatted records '
              '(DlisEflr.tla: ordinary / invariant template attributes with any subset of characteristics, object cells with '
              'overriding characteristics, absent attributes, trailing omission) against Resolve, and the splitting of record '
              'sequences into logical files with encrypted records skipped (DlisLogical.tla); every terminal state is one '
              'implementation test: encoded by an independent encoder with representation codes rotating through all supported '
              'scalar and compound codes, counts 0..3 and units, decoded by the real ExplicitlyFormattedLogicalRecord and '
              'compared cell by cell (source of count / code / units / value, or absent); every conformant record-kind sequence '
              'is rendered as a whole file with a random physical layout and indexed by the real LogicalIndex.'),
        note='Known findings F10a / F10b are identified by template / object shape. One CHANNEL set per logical file.',
        technique='TLA+ spec + TLC model checking; one implementation test per terminal state of the model'),
    'C04': dict(
        category='model_checking', design='3/C04',
        text=('TLC model checks populate as InitArrays (storage reused when the length is unchanged, modelled as stale cells) '
              'plus one ReadFrame per selected record over every history of up to 3 populate calls with slices, samples, all and '
              'channel requests (DlisFrames.tla): after each completed call the arrays are exactly the abstract answer, so the '
              'result depends on the arguments only; generated RP66V1 files (1..2 interleaved frame types, channels of every '
              'fixed-length numeric representation code and several dimensions, empty data records, random physical layout) are '
              'indexed by the real LogicalIndex and histories of populate_frame_array calls on the same logical file are recorded: '
              'returned count and, per channel, the record each row came from, validated by TLC against DlisFramesTrace.tla '
              '(slice = Python slicing exactly, sample = any valid spread); dtype, shape, element values, frame numbers and X values '
              'of the index are checked as well.  Slices with negative steps are included (PySliceAny).  A third of the files are indexed through the persisted (pickled) index of IndexPickle.'),
        note='Values are unique per record so the row -> record projection is exact; selections select >= 1 frame.',
        technique='TLA+ spec + TLC model checking of populate histories; TLC trace validation of real populate histories'),
    'C11': dict(
        category='model_checking', design='3/C11',
        text=('TLC model checks the converters\' pipeline (ToLas.tla: select rows, well section, columns, request set shared or copied) '
              'with the design choices as constants: the combinations the three converters use refine ToLasAbs.tla for every slice/sample x '
              'pass length in the bound and every two-pass run with overlapping channel names; the combinations found in the code before the '
              'repairs (exclusive stop = Slice.last()+1, STOP from Slice.last(), STRT/STOP of the whole pass, request set mutated in place) are '
              'refuted with counterexamples kept in the evidence.  Generated RP66V1 (1..2 logical files x 1..2 frame arrays), LIS (1..2 log passes, '
              'direct/implied X, with/without CONS tables) and BIT (1..3 passes) files are converted by the real single_*_to_las functions under '
              'selector x channel request x reduction x width x format; every output is split by an independent reader, projected onto the source '
              '(rows by unique X, columns by name, printed STRT/STOP/STEP as scaled integers) and each run is validated by TLC against '
              'ToLasTrace.tla (rows = Python slice exactly, either sign of the step / a sample of at most N increasing from frame 0, columns = X + requested, well section = '
              'first/last/mean spacing of the written rows, result tuple, file gate for foreign formats); values are compared with the recorded '
              'content within the print precision and every output must be accepted by the real LASRead with the same shape.  The cut of a LIS '
              'index into logical files (one LAS file per log pass) is LisSplit.tla: TLC checks the loop against the declarative statement for '
              'every entry sequence <= 6, refutes the two earlier designs (F24, F30) and every sequence <= 4 (5) is rendered as a real LIS file '
              'and converted.'),
        note=('Known findings F3-C11, F11-C11, F21, F22, F23 are recognised by exact signature/emulation; F34 (the LIS frame loader does not implement negative slice steps) by its input class.  F33 (BIT, negative step reaching frame 0) was found by the same inputs and fixed.  An empty selection may be reported as '
              'failure or as a file without rows.  RP66V1 ORIGIN carries the attributes the converter reads.'),
        technique='TLA+ spec + TLC model checking of the converter designs; TLC trace validation of real conversion runs'),
    'C12': dict(
        category='model_checking', design='3/C12',
        text=('TLC model checks the pool and sequential drivers (Batch.tla) over every schedule of <= 3 workers x 4 files for several '
              'assignments of good / failing / foreign files: one result per file, never aborted, final results and output tree equal to the '
              'isolated conversions for every behaviour, and (liveness, weak fairness, no state constraint) every batch ends with a result for '
              'every good file; the variants without the per-file guard, with state carried between conversions of one process, and with '
              'coinciding output paths are refuted.  Generated directories (valid RP66V1/LIS/BIT files mixed with empty, foreign, truncated, '
              'bit-damaged files and files their own converter fails on, sub-directories, a carried-state scenario) are converted by the real '
              'convert_dir_or_file_to_las and convert_dir_or_file_to_las_multiprocessing (jobs 1..16) with a traced picklable conversion function '
              '(per-process event files); each run is one trace (start / take / finish / end) validated by TLC against BatchTrace.tla, whose '
              'constants are the isolated conversions of every file (done twice, must agree): results and output tree (digests without the '
              'creation-time line) must equal the isolated ones.  Fault enumeration: a valid file per format truncated / bit-flipped / overwritten '
              'at enumerated positions plus empty and foreign files, converted under a watchdog: always a result, never an escaping exception.  The task list: DirWalk.tla (every file in scope exactly once, output path = output directory + relative path, equal sizes included) checked by TLC for every small tree and replayed on disk through the real dirWalk in all modes; DirWalkDeep.tla does the same for trees of any depth (the flags must travel down every level; the design that forgets `recursive` in the biggest-first branch is refuted at depth 2).  Beyond the property: ProcLog.tla models the --log-process thread; TLC\'s counterexample (join() blocks for ever) is replayed on the real thread and recorded in the evidence (no verdict).'),
        note=('Known finding F25 (same-stem RP66V1 inputs write the same LAS paths) is judged in its own scenario and recognised only when every '
              'difference is confined to the colliding files.  Benign damage may still convert.'),
        technique='TLA+ spec + TLC model checking of all schedules (safety + liveness); TLC trace validation of real pool/sequential runs; fault enumeration'),
    'C19': dict(
        category='model_checking', design='3/C19',
        text=('TLC model checks PlotWrap.tla: the wrap/position arithmetic on an integer lattice (InTrack, Unwrap, both scale directions) and '
              'the polyline machine of Plot._plotSingleOutput / _retInterpolateWrapPoints / _filterCrossLineList over every sample sequence of '
              '<= 4 (5) samples from values on 7 wraps and absent samples, for five back-up modes: every emitted point lies in the track and in '
              'the x interval of its step, crossing lines per step are bounded, nothing is drawn for or across absent samples; the variant that '
              'only flushes at an absent sample is refuted.  The real LineTransLin / LineTransLog10 are replayed on the lattice and at extreme '
              'magnitudes (1e+-300, 5e-324, 1.7e308, non-positive on log).  Real plots: generated LIS log passes (constant, ramps over many '
              'wraps, spikes, huge, tiny, negative on log scales, absent runs) are plotted by PlotReadLIS with generated FILM/PRES tables (five '
              'whole tracks, spans and half tracks, scales in both directions, linear and logarithmic, every back-up mode; the track a curve is scaled into must '
              'be the one its TRAC string names, judged from the whole tracks by the notation\'s algebra, and FilmTrack.tla binds the whole of '
              'PhysFilmCfg.interpretTrac through a TLC table) and by PlotReadXML with the built-in formats; '
              'wrapPos calls, points handed to PlotRoll.polyLinePt and polyline flushes are recorded from the harness process and every curve is '
              'one trace validated by TLC against PlotWrapTrace.tla (scale position computed from the inputs only, quantised); the SVG must be '
              'well-formed, its polylines exactly the recorded points, inside the view box and between the plot margins.'),
        note=('Partial: TLC covers the lattice and quantised traces; floating-point accuracy of wrapPos is bounded by the harness tolerance '
              '(1e-9 widths linear, 1e-7 logarithmic).  LAS input cannot be plotted at all in this version (known finding F27), so the plot '
              'binding is on LIS input only; F14 (position beyond double range) is known.'),
        technique='TLA+ spec + TLC model checking of the polyline machine; TLC trace validation of recorded real plots; lattice replay'),
}

NOT_YET = 'check not built yet in this session; planned per DESIGN.md section 3'


def main():
    checks = []
    for pid in ALL:
        if pid not in CLAIMED:
            continue
        c = CLAIMED[pid]
        checks.append(dict(
            property_id=pid,
            quick_cmd='./check %s --tier quick' % pid,
            thorough_cmd='./check %s --tier thorough' % pid,
            evidence_file='/verif/evidence/%s.json' % pid,
            replay_cmd_template='./check %s --replay {path}' % pid,
            engine='tlc-harness',
            level_claimed=dict(category=c['category'], text=c['text'], design_ref='DESIGN.md section ' + c['design']),
            level_note=c['note'],
            technique=c['technique']))
    na = [dict(property_id=p, reason=NOT_YET) for p in ALL if p not in CLAIMED]
    m = dict(
        version=1,
        setup_cmd='./setup.sh',
        hooks=dict(guard='TOTALDEPTH_VERIF', enable='no hooks are needed: all observation is done from the harness process '
                   '(tracing file objects, wrapped callables); checks import /repo/src directly',
                   baseline_off_cmd='cd /repo && /venv/bin/python -m pytest -q -p no:cacheprovider --timeout=900 --continue-on-collection-errors',
                   source_commits=[], add_only=True),
        engines=[dict(name='tlc-harness', path='/verif/check', serves_properties=sorted(CLAIMED),
                      kind_free_text='TLA+ specifications in /verif/spec checked by TLC; spec-to-code replay and '
                      'code-to-spec trace validation driven by /verif/harness')],
        checks=checks,
        notes='See DESIGN.md. known_findings.json lists genuine defects (fixed / known).',
        not_applicable=na)
    with open(os.path.join(ROOT, 'MANIFEST.json'), 'w') as f:
        json.dump(m, f, indent=1)
    print('MANIFEST.json: %d checks, %d not_applicable' % (len(checks), len(na)))


if __name__ == '__main__':
    main()
