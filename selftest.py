#!/venv/bin/python
"""Binding demonstration: apply each source mutant to a scratch copy of /repo/src (outside /repo and /verif),
run the property's quick check against it (VERIF_REPO) and expect exit 1 with a VIOLATION line.

  ./selftest.py [property ...] [--only mutant-id] [--jobs N]
Not a manifest check; results are written to /verif/mutants/results.json.
"""
import argparse
import json
import os
import shutil
import subprocess
import sys
import tempfile
from concurrent.futures import ThreadPoolExecutor

ROOT = os.path.dirname(os.path.abspath(__file__))


def run_one(m):
    scratch = tempfile.mkdtemp(prefix='verif_mut_', dir='/tmp')
    try:
        shutil.copytree('/repo/src', os.path.join(scratch, 'src'),
                        ignore=shutil.ignore_patterns('*.so', '__pycache__', '*.pyc'))
        path = os.path.join(scratch, m['file'])
        s = open(path).read()
        if s.count(m['old']) < 1:
            return dict(m, result='STALE (pattern not found)')
        s = s.replace(m['old'], m['new'], 1)
        open(path, 'w').write(s)
        env = dict(os.environ, VERIF_REPO=scratch, VERIF_EVIDENCE_DIR=os.path.join(scratch, 'ev'),
                   VERIF_EXT_CACHE=os.path.join(scratch, 'ext') if m['file'].endswith(('.pyx', '.cpp', '.h')) else
                   os.environ.get('VERIF_EXT_CACHE', '/tmp/verif_ext_cache'))
        p = subprocess.run([os.path.join(ROOT, 'check'), m['property'], '--tier', m.get('tier', 'quick')], env=env,
                           stdout=subprocess.PIPE, stderr=subprocess.STDOUT, text=True, cwd=ROOT)
        viol = [l for l in p.stdout.splitlines() if l.startswith('VIOLATION')]
        res = 'CAUGHT' if p.returncode == 1 and viol else ('MACHINERY' if p.returncode == 2 else 'MISSED')
        if m.get('expect') == 'equivalent':
            res = {'MISSED': 'QUIET-OK', 'CAUGHT': 'FALSE-ALARM'}.get(res, res)
        detail = ''
        for i, l in enumerate(p.stdout.splitlines()):
            if l.startswith('VIOLATION'):
                detail = '\n'.join(p.stdout.splitlines()[i:i + 2])[:400]
                break
        if res != 'CAUGHT':
            detail = p.stdout[-600:]
        return dict(m, result=res, detail=detail)
    finally:
        shutil.rmtree(scratch, ignore_errors=True)


def main():
    ap = argparse.ArgumentParser()
    ap.add_argument('props', nargs='*')
    ap.add_argument('--only')
    ap.add_argument('--jobs', type=int, default=4)
    a = ap.parse_args()
    muts = json.load(open(os.path.join(ROOT, 'mutants', 'mutants.json')))
    if a.props:
        muts = [m for m in muts if m['property'] in a.props]
    if a.only:
        muts = [m for m in muts if m['id'] == a.only]
    with ThreadPoolExecutor(a.jobs) as ex:
        results = list(ex.map(run_one, muts))
    bad = 0
    for r in results:
        print('%-8s %-5s %-28s %s' % (r['result'].split()[0], r['property'], r['id'], r.get('note', '')))
        if r['result'] not in ('CAUGHT', 'QUIET-OK'):
            bad += 1
            print('    ' + r.get('detail', '').replace('\n', '\n    '))
    out = os.path.join(ROOT, 'mutants', 'results.json')
    prev = {}
    if os.path.exists(out):
        prev = {r['id']: r for r in json.load(open(out))}
    for r in results:
        prev[r['id']] = dict(id=r['id'], property=r['property'], result=r['result'], note=r.get('note', ''),
                             detail=r.get('detail', '')[:300])
    json.dump(sorted(prev.values(), key=lambda r: r['id']), open(out, 'w'), indent=1)
    print('%d mutants, %d not caught' % (len(results), bad))
    sys.exit(1 if bad else 0)


if __name__ == '__main__':
    main()
