"""Record the calls made on every TotalDepth.common.Slice.Slice / Sample object while some workload runs (the converters,
the repository's own tests), in the event format of SliceSelTrace.tla."""
import contextlib


class SelRec:
    def __init__(self):
        self.ev = []
        self.judged = True


@contextlib.contextmanager
def record_selectors():
    from TotalDepth.common import Slice as S
    recs = []
    orig = {}

    def rec_of(self):
        r = self.__dict__.get('_verif_sel')
        if r is None:
            r = SelRec()
            self.__dict__['_verif_sel'] = r
            self.__dict__['_verif_sel_depth'] = 0
            recs.append(r)
        return r

    def small(v):
        return isinstance(v, int) and not isinstance(v, bool) and abs(v) < 2 ** 30

    def wrap(cls, name, fn):
        def w(self, *a, **k):
            r = rec_of(self)
            nested = self.__dict__['_verif_sel_depth'] > 0
            self.__dict__['_verif_sel_depth'] += 1
            try:
                if nested or not r.judged:
                    return fn(self, *a, **k)
                if name == '__init__':
                    ret = fn(self, *a, **k)          # raises for invalid arguments: then there is no object to judge
                    if cls is S.Slice:
                        args = list(a) + [None] * (3 - len(a))
                        args = [k.get('start', args[0]), k.get('stop', args[1]), k.get('step', args[2])]
                        if (args[2] is not None and args[2] < 1) or not all(v is None or small(v) for v in args):
                            r.judged = False         # negative steps are outside the property
                        else:
                            r.ev.append(dict(op='new_slice', a=[] if args[0] is None else [args[0]], b=[] if args[1] is None else [args[1]],
                                             c=[] if args[2] is None else [args[2]]))
                    else:
                        N = a[0] if a else k.get('sample_size')
                        if not small(N):
                            r.judged = False
                        else:
                            r.ev.append(dict(op='new_sample', N=N))
                    return ret
                n = a[0] if a else k.get('length')
                ret = fn(self, *a, **k)
                if name == 'gen_indices':
                    ret = list(ret)
                if small(n) and 0 <= n <= 20000:
                    val = list(ret) if name in ('indices', 'gen_indices') else ret
                    if name in ('indices', 'gen_indices') or small(val):
                        r.ev.append(dict(op=name, n=n, r=val))
                return iter(ret) if name == 'gen_indices' else ret
            finally:
                self.__dict__['_verif_sel_depth'] -= 1
        return w

    for cls in (S.Slice, S.Sample):
        for name in ('__init__', 'indices', 'gen_indices', 'count', 'first'):
            orig[(cls, name)] = cls.__dict__[name]
            setattr(cls, name, wrap(cls, name, cls.__dict__[name]))
    try:
        yield recs
    finally:
        for (cls, name), fn in orig.items():
            setattr(cls, name, fn)
