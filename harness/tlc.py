"""Run TLC (model checking, state dump, simulation, trace validation) and parse its output."""
import os
import re
import subprocess
import time

from . import tlaval

JAR = '/opt/veriftools/tla/tla2tools.jar:/opt/veriftools/tla/CommunityModules-deps.jar'
SPEC_DIR = os.path.join(os.path.dirname(os.path.dirname(os.path.abspath(__file__))), 'spec')


class TlcError(Exception):
    """Machinery failure (parse error, crash, timeout) - never a property violation."""


class TlcResult:
    def __init__(self):
        self.generated = 0
        self.distinct = 0
        self.depth = 0
        self.error = None          # None | 'invariant' | 'deadlock' | 'action_property' | 'temporal' | 'assert'
        self.error_name = None
        self.trace = []            # list of (action_label, state dict)
        self.traces = []
        self.coverage = {}         # action name -> count of states generated (summed over disjuncts)
        self.prints = []           # PrintT outputs (raw strings)
        self.wall = 0.0
        self.out = ''

    def ok(self):
        return self.error is None

    def as_dict(self):
        return dict(states=self.distinct, transitions=self.generated, depth=self.depth,
                    coverage=self.coverage, wall_s=round(self.wall, 2))


_RE_STATES = re.compile(r'^(\d+) states generated, (\d+) distinct states found', re.M)
_RE_DEPTH = re.compile(r'depth of the complete state graph search is (\d+)')
_RE_COV = re.compile(r'^<(\w+) line (\d+), col (\d+) to line (\d+), col (\d+) of module (\w+)>: (\d+):(\d+)', re.M)
_RE_STATE_HDR = re.compile(r'^State (\d+): (.*)$')


def write_mc(workdir, name, extends, consts=None, defs='', cfg_lines=(), spec='Spec', invariants=(),
             properties=(), constraint=None, deadlock=False, init_next=None, view=None,
             cfg_consts=None, postcondition=None, action_constraint=None):
    """Generate MC module + cfg in workdir. consts: name -> python value (rendered as a definition)."""
    consts = consts or {}
    cfg_consts = cfg_consts or {}
    mod = ['---- MODULE %s ----' % name, 'EXTENDS %s' % extends]
    cfg = []
    for k, v in consts.items():
        mod.append('mc_%s == %s' % (k, v if isinstance(v, _Raw) else tlaval.to_tla(v)))
        cfg.append('CONSTANT %s <- mc_%s' % (k, k))
    for k, v in cfg_consts.items():
        cfg.append('CONSTANT %s = %s' % (k, v))
    if defs:
        mod.append(defs)
    mod.append('====')
    if init_next:
        cfg.append('INIT %s' % init_next[0])
        cfg.append('NEXT %s' % init_next[1])
    else:
        cfg.append('SPECIFICATION %s' % spec)
    for i in invariants:
        cfg.append('INVARIANT %s' % i)
    for p in properties:
        cfg.append('PROPERTY %s' % p)
    if constraint:
        cfg.append('CONSTRAINT %s' % constraint)
    if action_constraint:
        cfg.append('ACTION_CONSTRAINT %s' % action_constraint)
    if view:
        cfg.append('VIEW %s' % view)
    if postcondition:
        cfg.append('POSTCONDITION %s' % postcondition)
    cfg.append('CHECK_DEADLOCK %s' % ('TRUE' if deadlock else 'FALSE'))
    cfg.extend(cfg_lines)
    os.makedirs(workdir, exist_ok=True)
    with open(os.path.join(workdir, name + '.tla'), 'w') as f:
        f.write('\n'.join(mod) + '\n')
    with open(os.path.join(workdir, name + '.cfg'), 'w') as f:
        f.write('\n'.join(cfg) + '\n')
    return os.path.join(workdir, name + '.tla')


class _Raw(str):
    pass


def raw(s):
    """Mark a string as a raw TLA+ expression for write_mc consts."""
    return _Raw(s)


def run(workdir, module, workers=16, dump=None, simulate=None, depth=None, seed=None, coverage=True,
        env=None, timeout=3600, deadlock_cli=None, continue_=False, heap='8g', dfs=False, extra=()):
    """Run TLC on workdir/module.tla with workdir/module.cfg."""
    meta = os.path.join(workdir, 'meta_' + module)
    cmd = ['java', '-XX:+UseParallelGC', '-Xss32m', '-Xmx' + heap, '-DTLA-Library=' + SPEC_DIR]
    if dfs:
        cmd.append('-Dtlc2.tool.queue.IStateQueue=StateDeque')
    cmd += ['-cp', JAR, 'tlc2.TLC', '-workers', str(workers), '-metadir', meta, '-noGenerateSpecTE',
            '-config', module + '.cfg']
    if coverage and not simulate:
        cmd += ['-coverage', '1']
    if dump:
        cmd += ['-dump', dump]
    if simulate:
        cmd += ['-simulate', simulate]
    if depth:
        cmd += ['-depth', str(depth)]
    if seed is not None:
        cmd += ['-seed', str(seed)]
    if continue_:
        cmd += ['-continue']
    cmd += list(extra)
    cmd.append(module + '.tla')
    e = dict(os.environ)
    if env:
        e.update({k: str(v) for k, v in env.items()})
    t0 = time.time()
    try:
        p = subprocess.run(cmd, cwd=workdir, env=e, stdout=subprocess.PIPE, stderr=subprocess.STDOUT,
                           timeout=timeout, text=True, errors='replace')
    except subprocess.TimeoutExpired:
        subprocess.run(['pkill', '-f', 'metadir ' + re.escape(meta)])
        raise TlcError('TLC timed out after %ss on %s' % (timeout, module))
    r = parse_output(p.stdout)
    r.wall = time.time() - t0
    r.returncode = p.returncode
    if r.error is None and p.returncode != 0:
        raise TlcError('TLC failed (rc=%d) on %s:\n%s' % (p.returncode, module, p.stdout[-3000:]))
    if r.error == 'machinery':
        i = p.stdout.find('Error:')
        raise TlcError('TLC error on %s:\n%s' % (module, p.stdout[max(0, i - 200):i + 3000] if i >= 0 else p.stdout[-4000:]))
    return r


def parse_output(out):
    r = TlcResult()
    r.out = out
    m = None
    for m in _RE_STATES.finditer(out):
        pass
    if m:
        r.generated, r.distinct = int(m.group(1)), int(m.group(2))
    m = _RE_DEPTH.search(out)
    if m:
        r.depth = int(m.group(1))
    for m in _RE_COV.finditer(out):
        r.coverage[m.group(1)] = r.coverage.get(m.group(1), 0) + int(m.group(7))
    # errors
    if 'Error: Deadlock reached' in out:
        r.error = 'deadlock'
    m = re.search(r'Error: Invariant (\w+) is violated', out)
    if m:
        r.error, r.error_name = 'invariant', m.group(1)
    m = re.search(r'Error: Action property (\w+) is violated', out)
    if m:
        r.error, r.error_name = 'action_property', m.group(1)
    if 'Temporal properties were violated' in out:
        r.error = 'temporal'
    if r.error is None and re.search(r'^Error: ', out, re.M):
        m = re.search(r'Error: The postcondition', out) or re.search(r'Postcondition .* violated', out)
        if m:
            r.error = 'postcondition'
        elif re.search(r'Assumption .* is false', out):
            r.error = 'assumption'
        else:
            r.error = 'machinery'
    if 'StackOverflowError' in out or 'OutOfMemoryError' in out or 'java.lang.' in out:
        r.error = 'machinery'
    if r.error in ('deadlock', 'invariant', 'action_property', 'temporal'):
        # with -continue several error traces are printed; keep them all, .trace is the first
        chunks = re.split(r'^Error: (?=Deadlock reached|Invariant \w+ is violated|Action property)', out, flags=re.M)[1:]
        r.traces = [parse_trace(c) for c in chunks]
        r.traces = [t for t in r.traces if t]
        r.trace = r.traces[0] if r.traces else parse_trace(out)
    return r


def parse_trace(out):
    lines = out.splitlines()
    trace = []
    cur = None
    buf = []
    for ln in lines:
        m = _RE_STATE_HDR.match(ln)
        if m:
            if cur is not None:
                trace.append((cur, _safe_state(buf)))
            cur = m.group(2)
            buf = []
        elif cur is not None:
            if ln.startswith('/\\') or ln.startswith('  ') or ln.startswith('\t') or (buf and ln.strip() and not ln[0].isalpha()):
                buf.append(ln)
            elif not ln.strip():
                trace.append((cur, _safe_state(buf)))
                cur = None
                buf = []
            else:
                trace.append((cur, _safe_state(buf)))
                cur = None
                buf = []
    if cur is not None:
        trace.append((cur, _safe_state(buf)))
    return trace


def _safe_state(buf):
    try:
        return tlaval.parse_state('\n'.join(buf))
    except Exception:
        return {'_raw': '\n'.join(buf)}


def sany(path):
    p = subprocess.run(['java', '-DTLA-Library=' + SPEC_DIR, '-cp', JAR, 'tla2sany.SANY', path],
                       stdout=subprocess.PIPE, stderr=subprocess.STDOUT, text=True, cwd=os.path.dirname(path))
    ok = p.returncode == 0 and 'Semantic errors' not in p.stdout and 'Parse Error' not in p.stdout \
        and '*** Errors' not in p.stdout and 'Fatal errors' not in p.stdout
    return ok, p.stdout
