"""Observation of the XML writers without touching the repository: wrap TotalDepth.util.XmlWrite.XmlStream in
the harness process and record the API-call stream; parse the produced document with expat into events."""
import contextlib
import hashlib
import re
import xml.parsers.expat

_ILLEGAL = re.compile('[^\t\n\r\x20-퟿-�\U00010000-\U0010ffff]')


def representable(s):
    return _ILLEGAL.search(s) is None


def dig(s):
    return hashlib.sha1(s.encode('utf-8', 'surrogatepass')).hexdigest()[:16]


def is_ws(s):
    return s.strip(' \n\t\r') == ''


class Recorder:
    """one per XmlStream instance: events in the XmlStreamTrace format"""
    def __init__(self):
        self.ev = []
        self.pending = []       # text pieces since the last structural call: (text, wild)
        self.calls = 0
        self.doc = None         # the document, when the stream writes to an in-memory file
        self.aborted = False    # a call raised: nothing after it is recorded

    def flush(self):
        if self.pending:
            text = ''.join(t for t, w in self.pending)
            wild = any(w for t, w in self.pending)
            self.ev.append(dict(op='run', dig='*' if wild else dig(text), ws=(not wild) and is_ws(text)))
            self.pending = []

    def add(self, e):
        self.ev.append(e)
        self.calls += 1


@contextlib.contextmanager
def record_xml_streams():
    """Context manager: patches XmlStream methods; yields a list that receives one Recorder per stream created."""
    from TotalDepth.util import XmlWrite
    cls = XmlWrite.XmlStream
    recs = []
    orig = {n: getattr(cls, n) for n in ('__enter__', '__exit__', 'startElement', 'characters', 'literal', 'comment', 'pI', 'endElement')}

    def rec_of(self):
        r = self.__dict__.get('_verif_rec')
        if r is None:
            r = Recorder()
            self.__dict__['_verif_rec'] = r
            self.__dict__['_verif_depth'] = 0
            recs.append(r)
        return r

    def wrap(name, fn):
        def w(self, *a, **k):
            r = rec_of(self)
            nested = self.__dict__['_verif_depth'] > 0     # calls made by the class itself (e.g. __exit__ -> endElement)
            self.__dict__['_verif_depth'] += 1
            try:
                if not nested and not r.aborted:
                    if name == '__enter__':
                        r.add(dict(op='enter'))
                    elif name == 'startElement':
                        r.flush()
                        attrs = a[1] if len(a) > 1 else k.get('attrs', {})
                        r.add(dict(op='start', name=a[0],
                                   attrs=[[kk, dig(str(attrs[kk])) if representable(str(attrs[kk])) else '*'] for kk in sorted(attrs)]))
                    elif name == 'characters':
                        r.pending.append((a[0], not representable(a[0])))
                        r.add(dict(op='chars'))
                    elif name == 'literal':
                        r.pending.append((a[0], True))
                        r.add(dict(op='literal'))
                    elif name == 'comment':
                        r.add(dict(op='comment'))
                    elif name == 'pI':
                        r.add(dict(op='pi'))
                    elif name == 'endElement':
                        r.flush()
                        r.add(dict(op='end', name=a[0]))
                    elif name == '__exit__':
                        r.flush()
                        r.add(dict(op='exit'))
                try:
                    ret = fn(self, *a, **k)
                except BaseException:
                    if not nested and not r.aborted:
                        r.aborted = True
                        if r.ev and name != '__exit__':
                            r.ev.pop()              # the call did not take effect
                    raise
                if not nested and name == '__exit__':
                    f_ = self.__dict__.get('_file')
                    if hasattr(f_, 'getvalue'):
                        try:
                            r.doc = f_.getvalue()
                        except Exception:
                            r.doc = None
                return ret
            finally:
                self.__dict__['_verif_depth'] -= 1
        return w

    for n, fn in orig.items():
        setattr(cls, n, wrap(n, fn))
    try:
        yield recs
    finally:
        for n, fn in orig.items():
            setattr(cls, n, fn)


_CHARREF = re.compile(r'&#(\d+);')


def sanitize_illegal_charrefs(text):
    """Known finding F7: characters XML 1.0 cannot represent are written as numeric references to themselves
    (&#000; ... &#65535;), which no parser accepts.  Returns (text with exactly those references replaced by
    &#65533;, number replaced) so that everything else about the document can still be judged."""
    n = [0]

    def sub(m):
        cp = int(m.group(1))
        if cp > 0x10ffff or not representable(chr(cp)):
            n[0] += 1
            return '&#65533;'
        return m.group(0)
    return _CHARREF.sub(sub, text), n[0]


def parse_events(text):
    """Parse a document with expat. Returns (ok, error, events) with events in the XmlStreamTrace format;
    white-space-only runs are dropped."""
    ev = []
    buf = []

    def flush():
        if buf:
            t = ''.join(buf)
            buf.clear()
            if not is_ws(t):
                ev.append(['run', dig(t)])

    def start(name, attrs):
        flush()
        ev.append(['start', name, [[k, dig(attrs[k])] for k in sorted(attrs)]])

    def end(name):
        flush()
        ev.append(['end', name])

    def chars(d):
        buf.append(d)

    def skipped(name, is_param):
        buf.append('\x00skipped:%s\x00' % name)

    p = xml.parsers.expat.ParserCreate()
    p.StartElementHandler = start
    p.EndElementHandler = end
    p.CharacterDataHandler = chars
    p.SkippedEntityHandler = skipped
    p.buffer_text = True
    try:
        data = text.encode('utf-8', 'surrogatepass') if isinstance(text, str) else text
        p.Parse(data, True)
        flush()
        return True, '', ev
    except xml.parsers.expat.ExpatError as e:
        return False, str(e), ev


def parse_tree(text):
    """SAX-like events with the strings kept (for the replay comparison): list of ('start', name, attrs) /
    ('chars', text) / ('end', name)"""
    ev = []

    def start(name, attrs):
        ev.append(('start', name, dict(attrs)))

    def end(name):
        ev.append(('end', name))

    def chars(d):
        if ev and ev[-1][0] == 'chars':
            ev[-1] = ('chars', ev[-1][1] + d)
        else:
            ev.append(('chars', d))

    p = xml.parsers.expat.ParserCreate()
    p.StartElementHandler = start
    p.EndElementHandler = end
    p.CharacterDataHandler = chars
    p.SkippedEntityHandler = lambda name, is_param: chars('&%s;' % name)
    p.buffer_text = True
    data = text.encode('utf-8', 'surrogatepass') if isinstance(text, str) else text
    p.Parse(data, True)
    return ev


def lxml_ok(text):
    try:
        from lxml import etree
    except ImportError:
        return True, 'lxml not available'
    try:
        data = text.encode('utf-8', 'surrogatepass') if isinstance(text, str) else text
        etree.fromstring(data, etree.XMLParser(resolve_entities=False, load_dtd=False, no_network=True, huge_tree=True))
        return True, ''
    except Exception as e:      # noqa
        return False, '%s: %s' % (type(e).__name__, str(e)[:200])
