"""FilmTrack.tla bound to util/plot/FILMCfg.py PhysFilmCfg.interpretTrac (growth beyond the listed properties; run from C19: the
track a curve is scaled into and the place of its scale in the plot header both come from this function).

1. TLC: over the real track layouts of the library (every GCOD / GDEC entry of PhysFilmCfgLISRead.GCOD_GDEC_MAP) and synthetic
   films (one track, no depth track, five tracks): the edges of every TRAC string are those of its run of half-track cells, half
   tracks are halves of the whole track, everything lies inside the film; three named deviations are refuted.
2. spec -> code: FilmTrackTable rows (every film x every string of the notation) replayed on the real PhysFilmCfg.
Mismatches are returned (no verdict on a listed property).
"""
import json
import os

from .tlc import raw


def _film_tla(film):
    return '<<%s>>' % ', '.join('[l |-> %d, r |-> %d, depth |-> %s]' % (l, r, 'TRUE' if d else 'FALSE') for l, r, d in film)


def run(ctx, mismatches):
    from TotalDepth.util.plot import FILMCfg, Track, Coord
    info = {}
    films, names = [], []
    for key, tracks in sorted(FILMCfg.PhysFilmCfgLISRead.GCOD_GDEC_MAP.items()):
        f = []
        for t in tracks:
            l, r = t.left.convert('in').value * 20, t.right.convert('in').value * 20
            if abs(l - round(l)) > 1e-9 or abs(r - round(r)) > 1e-9:
                mismatches.append('film %r: track edges %r, %r are not multiples of 0.05 in (the model quantises there)' % (key, l, r))
            f.append((int(round(l)), int(round(r)), bool(t.plotXAlpha)))
        if tuple(f) not in films:
            films.append(tuple(f))
            names.append(key)
    nreal = len(films)
    synthetic = [((0, 24, False),), ((0, 24, False), (24, 80, False)), ((0, 10, True), (10, 30, False), (30, 50, False), (50, 70, False), (70, 90, False)),
                 ((0, 24, False), (24, 32, True), (32, 56, False), (56, 80, True))]
    for f in synthetic:
        if f not in films:
            films.append(f)
            names.append('synthetic')
    consts = dict(Films=raw('{%s}' % ', '.join(_film_tla(f) for f in films)))
    ctx.tlc_check('MC_FilmTrack', 'FilmTrack', consts=consts, coverage=False, timeout=900,
                  defs='ASSUME CellsMatchEdges /\\ HalvesPartition /\\ InsideFilm /\\ SpanIsUnion /\\ RaisesOnlyBeyondFilm')
    for dev in ('SpanOrdered', 'SecondDigitIsATrack', 'TZeroRefused'):
        r = ctx.tlc_check('MC_FilmTrack_' + dev, 'FilmTrack', consts=consts, coverage=False, timeout=900, defs='ASSUME ' + dev, expect_ok=False)
        if r.ok():
            ctx.vacuity.append('FilmTrack: the named deviation %s was expected to be refuted' % dev)
    ft = os.path.join(ctx.wdir('filmtrack'), 'rows.json')
    ctx.tlc_check('MC_FilmTrackTable', 'FilmTrackTable', consts=dict(consts, FilmSeq=raw('<<%s>>' % ', '.join(_film_tla(f) for f in films))),
                  env={'OUT_TABLE': ft}, workers=1, coverage=False, timeout=900)
    rows = json.load(open(ft))
    cfgs = []
    for f in films:
        tracks = [Track.Track(leftPos=Coord.Dim(l / 20.0, 'in'), rightPos=Coord.Dim(r / 20.0, 'in'), gridGn=None, plotXAlpha=d) for l, r, d in f]
        cfgs.append(FILMCfg.PhysFilmCfg('verif', tracks, 'PF1', 200))
    for i, key in enumerate(names[:nreal]):
        # the real entries: the library's own Track objects
        cfgs[i] = FILMCfg.PhysFilmCfg('verif', FILMCfg.PhysFilmCfgLISRead.GCOD_GDEC_MAP[key], 'PF1', 200)
    n = 0
    for row in rows:
        cfg = cfgs[row['film'] - 1]
        for trac in (row['trac'].encode(), row['trac'].encode().ljust(4), row['trac'].encode() + b'  '):
            n += 1
            ctx.evaluations += 1
            try:
                l, r, hs, nh = cfg.interpretTrac(trac)
                got = dict(ok=True, l=round(l.convert('in').value * 40, 6), r=round(r.convert('in').value * 40, 6), hs=hs, nh=nh)
            except FILMCfg.ExceptionPhysFilmCfg:
                got = dict(ok=False)
            except Exception as e:
                mismatches.append('interpretTrac(%r) on film %r raised %s: %s' % (trac, names[row['film'] - 1], type(e).__name__, e))
                continue
            want = dict(ok=True, l=float(row['l']), r=float(row['r']), hs=row['hs'], nh=row['nh']) if row['ok'] else dict(ok=False)
            if got != want:
                mismatches.append('interpretTrac(%r) on film %r = %r, FilmTrack.tla Design = %r' % (trac, names[row['film'] - 1], got, want))
    info['films'] = dict(real=nreal, synthetic=len(films) - nreal)
    info['rows_replayed'] = n
    return info
