"""Record the call history of every TotalDepth.common.Rle.RLE object created while some workload runs (the library's own
use of the class while indexing files, the repository's own tests), in the event format of RleTrace.tla."""
import contextlib


class RleRec:
    def __init__(self):
        self.ev = []
        self.vals = []          # shadow of the values added (inputs only: used to decide whether a query is inside the domain)
        self.judged = True
        self.why = ''


@contextlib.contextmanager
def record_rle():
    from TotalDepth.common import Rle
    cls = Rle.RLE
    recs = []
    names = ('__init__', 'add', 'value', 'values', 'num_values', 'first', 'last', 'largest_le')
    orig = {n: getattr(cls, n) for n in names}

    def rec_of(self):
        r = self.__dict__.get('_verif_rle')
        if r is None:
            r = RleRec()
            self.__dict__['_verif_rle'] = r
            self.__dict__['_verif_rle_depth'] = 0
            recs.append(r)
        return r

    def as_int(v):
        try:
            if isinstance(v, bool):
                return None
            if isinstance(v, int) or (hasattr(v, '__index__')):
                i = int(v)
            elif float(v) == int(v):
                i = int(v)
            else:
                return None
        except Exception:
            return None
        return i if abs(i) < 2 ** 30 else None

    def wrap(name, fn):
        def w(self, *a, **k):
            r = rec_of(self)
            nested = self.__dict__['_verif_rle_depth'] > 0
            self.__dict__['_verif_rle_depth'] += 1
            try:
                if nested or not r.judged:
                    return fn(self, *a, **k)
                if name == '__init__':
                    if (a and a[0] is not None) or k.get('theFunc') is not None:
                        r.judged, r.why = False, 'created with a value function'
                    return fn(self, *a, **k)
                if name == 'add':
                    v = as_int(a[0])
                    if v is None:
                        r.judged, r.why = False, 'non-integer or out-of-range value %r' % (a[0],)
                        return fn(self, *a, **k)
                    ret = fn(self, *a, **k)
                    r.vals.append(v)
                    r.ev.append(dict(op='add', v=v))
                    return ret
                n = len(r.vals)
                try:
                    held = sum(len(it) for it in self.rle_items)
                except Exception:
                    held = n
                if held != n:
                    # the object was filled behind add() (a unit test appending RLEItems directly): its history is unknown
                    r.judged, r.why = False, 'populated other than through add()'
                    return fn(self, *a, **k)
                ok, ret, exc = True, None, None
                try:
                    ret = fn(self, *a, **k)
                    if name == 'values':
                        ret = list(ret)
                except Exception as e:              # noqa
                    ok, exc = False, e
                e_ = None
                if name == 'num_values':
                    e_ = dict(op='num_values')
                elif name in ('first', 'last'):
                    if n:
                        e_ = dict(op=name)
                elif name == 'values':
                    e_ = dict(op='values')
                elif name == 'value':
                    i = a[0] if a else k.get('i')
                    if isinstance(i, int) and -n <= i < n:
                        e_ = dict(op='value', i=i)
                elif name == 'largest_le':
                    q = as_int(a[0] if a else k.get('value'))
                    asc = all(r.vals[j] <= r.vals[j + 1] for j in range(n - 1))
                    if q is not None and n and asc and r.vals[0] <= q:
                        e_ = dict(op='largest_le', q=q)
                if e_ is not None:
                    if ok:
                        rr = ret
                        if name == 'values':
                            rr = [as_int(x) for x in ret]
                            if any(x is None for x in rr):
                                rr = [-(2 ** 30)] * len(rr)
                        elif name != 'num_values':
                            rr = as_int(ret)
                            rr = -(2 ** 30) if rr is None else rr
                        else:
                            rr = int(ret)
                        e_.update(ok=True, r=rr)
                    else:
                        e_.update(ok=False, r=0, err='%s: %s' % (type(exc).__name__, exc))
                    r.ev.append(e_)
                if not ok:
                    raise exc
                return iter(ret) if name == 'values' else ret
            finally:
                self.__dict__['_verif_rle_depth'] -= 1
        return w

    for n, fn in orig.items():
        setattr(cls, n, wrap(n, fn))
    try:
        yield recs
    finally:
        for n, fn in orig.items():
            setattr(cls, n, fn)
