"""Parser for TLA+ values as printed by TLC (state dumps, error traces, PrintT).

Python mapping:  sequences/tuples -> tuple, sets -> frozenset, records and
functions -> dict, strings -> str, integers -> int, booleans -> bool, model
values -> ModelValue(str).
"""
import re

_TOK = re.compile(r'''
    (?P<ws>\s+)
  | (?P<str>"(?:[^"\\]|\\.)*")
  | (?P<int>-?\d+)
  | (?P<op>\|->|:>|@@|<<|>>|/\\|\[|\]|\{|\}|\(|\)|,|=|\.\.)
  | (?P<id>[A-Za-z_][A-Za-z0-9_!]*)
''', re.X)


class ModelValue(str):
    pass


def tokenize(text):
    pos = 0
    out = []
    n = len(text)
    while pos < n:
        m = _TOK.match(text, pos)
        if not m:
            raise ValueError('bad TLA+ value text at %r' % text[pos:pos + 40])
        pos = m.end()
        k = m.lastgroup
        if k == 'ws':
            continue
        out.append((k, m.group(k)))
    return out


def _unescape(s):
    return s[1:-1].replace('\\"', '"').replace('\\\\', '\\').replace('\\n', '\n').replace('\\t', '\t')


class _P:
    def __init__(self, toks):
        self.t = toks
        self.i = 0

    def peek(self):
        return self.t[self.i] if self.i < len(self.t) else (None, None)

    def next(self):
        tok = self.t[self.i]
        self.i += 1
        return tok

    def expect(self, v):
        k, s = self.next()
        if s != v:
            raise ValueError('expected %r got %r' % (v, s))

    def value(self):
        k, s = self.next()
        if k == 'int':
            v = int(s)
            if self.peek()[1] == '..':
                self.next()
                hi = self.value()
                return frozenset(range(v, hi + 1))
            return v
        if k == 'str':
            return _unescape(s)
        if k == 'id':
            if s == 'TRUE':
                return True
            if s == 'FALSE':
                return False
            return ModelValue(s)
        if s == '<<':
            items = []
            if self.peek()[1] == '>>':
                self.next()
                return ()
            while True:
                items.append(self.value())
                k2, s2 = self.next()
                if s2 == '>>':
                    return tuple(items)
                if s2 != ',':
                    raise ValueError('bad tuple sep %r' % s2)
        if s == '{':
            items = []
            if self.peek()[1] == '}':
                self.next()
                return frozenset()
            while True:
                items.append(self.value())
                k2, s2 = self.next()
                if s2 == '}':
                    return frozenset(_hashable(x) for x in items)
                if s2 != ',':
                    raise ValueError('bad set sep %r' % s2)
        if s == '[':
            d = {}
            if self.peek()[1] == ']':
                self.next()
                return d
            while True:
                k2, name = self.next()
                self.expect('|->')
                d[name] = self.value()
                k3, s3 = self.next()
                if s3 == ']':
                    return d
                if s3 != ',':
                    raise ValueError('bad record sep %r' % s3)
        if s == '(':
            d = {}
            while True:
                key = self.value()
                self.expect(':>')
                d[_hashable(key)] = self.value()
                k3, s3 = self.next()
                if s3 == ')':
                    return d
                if s3 != '@@':
                    raise ValueError('bad function sep %r' % s3)
        raise ValueError('unexpected token %r' % s)


class FrozenDict(dict):
    def __hash__(self):
        return hash(tuple(sorted((k, _hashable(v)) for k, v in self.items())))


def _hashable(x):
    if isinstance(x, dict):
        return FrozenDict((k, _hashable(v)) for k, v in x.items())
    if isinstance(x, tuple):
        return tuple(_hashable(v) for v in x)
    return x


def parse_value(text):
    p = _P(tokenize(text))
    v = p.value()
    if p.i != len(p.t):
        raise ValueError('trailing tokens in %r' % text[:80])
    return v


def parse_state(text):
    """Parse a conjunction '/\\ v = value /\\ w = value' into a dict."""
    p = _P(tokenize(text))
    d = {}
    while p.i < len(p.t):
        p.expect('/\\')
        k, name = p.next()
        p.expect('=')
        d[name] = p.value()
    return d


_STATE_HDR = re.compile(r'^State (\d+):')


def iter_dump(path):
    """Yield the states of a `tlc -dump` file as dicts."""
    buf = []
    with open(path) as f:
        for line in f:
            if _STATE_HDR.match(line):
                if buf:
                    yield parse_state(''.join(buf))
                buf = []
            elif line.strip():
                buf.append(line)
    if buf:
        yield parse_state(''.join(buf))


def to_tla(v):
    """Render a Python value as a TLA+ expression (for generated MC modules)."""
    if isinstance(v, bool):
        return 'TRUE' if v else 'FALSE'
    if isinstance(v, int):
        return str(v) if v >= 0 else '(%d)' % v
    if isinstance(v, str):
        return '"%s"' % v.replace('\\', '\\\\').replace('"', '\\"')
    if isinstance(v, (tuple, list)):
        return '<<' + ', '.join(to_tla(x) for x in v) + '>>'
    if isinstance(v, (set, frozenset)):
        return '{' + ', '.join(to_tla(x) for x in sorted(v, key=repr)) + '}'
    if isinstance(v, dict):
        if all(isinstance(k, str) for k in v):
            return '[' + ', '.join('%s |-> %s' % (k, to_tla(x)) for k, x in v.items()) + ']'
        return '(' + ' @@ '.join('%s :> %s' % (to_tla(k), to_tla(x)) for k, x in v.items()) + ')'
    if v is None:
        return 'NoneV'
    raise TypeError(type(v))
