"""Independent LIS-79 logical record encoders (delimiter records, DFSR, frame data) used by several checks."""
import struct


def file_head(name=b'VERIF .001', sub=b'SUBLEV', ver=b'VERS 1.0', date=b'26/10/03', maxpr=b' 1024', ftype=b'LO', prev=b'', typ=128):
    body = struct.pack('10s2x6s8s8s1x5s2x2s2x10s', name.ljust(10), sub.ljust(6), ver.ljust(8), date.ljust(8), maxpr.rjust(5),
                       ftype.ljust(2), prev.ljust(10))
    return bytes([typ, 0]) + body.replace(b'\x00', b' ')


def file_tail(**kw):
    return file_head(typ=129, **kw)


def reel_tape(typ, service=b'VERIF ', date=b'26/10/03', origin=b'ORIG', name=b'TAPENAME', cont=b'01', contname=b'', comments=b'generated'):
    body = struct.pack('6s6x8s2x4s2x8s2x2s2x8s2x74s', service.ljust(6), date.ljust(8), origin.ljust(4), name.ljust(8), cont.ljust(2),
                       contname.ljust(8), comments.ljust(74))
    return bytes([typ, 0]) + body.replace(b'\x00', b' ')


def tape_head(**kw):
    return reel_tape(130, **kw)


def tape_tail(**kw):
    return reel_tape(131, **kw)


def reel_head(**kw):
    return reel_tape(132, **kw)


def reel_tail(**kw):
    return reel_tape(133, **kw)


def misc(typ, payload=b'some operator text'):
    return bytes([typ, 0]) + payload
