"""Independent LIS-79 logical record encoders (delimiter records, DFSR, frame data) used by several checks."""
import struct


def file_head(name=b'VERIF .001', sub=b'SUBLEV', ver=b'VERS 1.0', date=b'26/10/03', maxpr=b' 1024', ftype=b'LO', prev=b'', typ=128):
    body = struct.pack('10s2x6s8s8s1x5s2x2s2x10s', name.ljust(10), sub.ljust(6), ver.ljust(8), date.ljust(8), maxpr.rjust(5),
                       ftype.ljust(2), prev.ljust(10))
    return bytes([typ, 0]) + body.replace(b'\x00', b' ')


def file_tail(**kw):
    return file_head(typ=129, **kw)


def reel_tape(typ, service=b'VERIF ', date=b'26/10/03', origin=b'ORIG', name=b'TAPENAME', cont=b'01', contname=b'', comments=b'generated'):
    body = struct.pack('6s6x8s2x4s2x8s2x2s2x8s2x74s', service.ljust(6), date.ljust(8), origin.ljust(4), name.ljust(8), cont.ljust(2),
                       contname.ljust(8), comments.ljust(74))
    return bytes([typ, 0]) + body.replace(b'\x00', b' ')


def tape_head(**kw):
    return reel_tape(130, **kw)


def tape_tail(**kw):
    return reel_tape(131, **kw)


def reel_head(**kw):
    return reel_tape(132, **kw)


def reel_tail(**kw):
    return reel_tape(133, **kw)


def misc(typ, payload=b'some operator text'):
    return bytes([typ, 0]) + payload


# ---------------------------------------------------------------- DFSR and frame data
from . import repcodes as _rc


def entry_block(typ, size, rc, value):
    if size == 0:
        return bytes([typ, 0, rc])
    if rc == 66:
        pay = bytes([value])
    elif rc == 65:
        pay = value
    elif rc == 68:
        pay = _rc.enc68(value)
    elif rc == 73:
        pay = struct.pack('>i', value)
    elif rc == 79:
        pay = struct.pack('>h', value)
    else:
        raise ValueError(rc)
    assert len(pay) == size, (typ, size, rc, value)
    return bytes([typ, size, rc]) + pay


def dfsr(blocks, channels, iflr_type=0):
    """blocks: dict entry type -> (size, rc, value); channels: list of dict(mnem, units, size, samples, rc).
    Only the given entry blocks are written (a conformant DFSR need not carry them all), then the terminator."""
    out = bytearray([64, 0])
    blocks = dict(blocks)
    blocks.setdefault(1, (1, 66, iflr_type))
    total = 0
    for t in sorted(blocks):
        size, rc, val = blocks[t]
        out += entry_block(t, size, rc, val)
        total += size
    # terminator sized so that the entry block set has even length
    n = len(blocks) + 1
    if (3 * n + total) % 2:
        out += bytes([0, 1, 66, 0])
    else:
        out += bytes([0, 0, 66])
    for c in channels:
        out += struct.pack('>4s6s8s4sI2h3x2B5x', c['mnem'], b'SERVID', b'SERVORD1', c['units'], c.get('api', 0), 1,
                           c['size'], c['samples'], c['rc'])
    return bytes(out)


def data_record(iflr_type, xbytes, frames):
    """frames: list of bytes (one per frame)"""
    return bytes([iflr_type, 0]) + xbytes + b''.join(frames)
