"""Independent LIS-79 physical-layer encoder / parser used by the checks (not the code under test).

layout: list of dict(n, last, rn, fn, ck) physical records in file order; tif in 'none' | 'le' | 'be'
('le' is the normal TIF byte order, 'be' the "reversed" one).
"""
import struct

from .dlis import payload, project  # noqa: F401  (abstract bytes: per-record keystream and its projection)


def render(payloads, layout, tif='none', recno_start=0, fileno=7):
    """Returns (bytes, start position of each logical record)."""
    out = bytearray()
    starts = []
    k = 0
    off = 0
    prev_marker = 0
    n_pr = 0
    recno = recno_start
    fmt = '<3L' if tif == 'le' else '>3L'
    for p in layout:
        pay = payloads[k]
        n = p['n']
        prlen = 4 + n + 2 * p['rn'] + 2 * p['fn'] + 2 * p['ck']
        attr = 0
        if not p['last']:
            attr |= 1 << 0
        if off > 0:
            attr |= 1 << 1
        if p['rn']:
            attr |= 1 << 9
        if p['fn']:
            attr |= 1 << 10
        if p['ck']:
            attr |= 1 << 12
        here = len(out)
        if off == 0:
            starts.append(here)
        pad = p.get('pad', 0) if tif != 'none' else 0          # null padding after the record ("minimum record size" tapes): TIF files only
        if tif != 'none':
            out += struct.pack(fmt, 0, prev_marker if n_pr else 0, here + 12 + prlen + pad)
            prev_marker = here
        out += struct.pack('>HH', prlen, attr)
        out += pay[off:off + n]
        if p['rn']:
            out += struct.pack('>H', recno & 0xFFFF)
            recno += 1
        if p['fn']:
            out += struct.pack('>H', fileno)
        if p['ck']:
            out += bytes([(n_pr * 29 + 7) & 0xFF, (n_pr * 13 + 99) & 0xFF])      # the checksum value is not verified by the reader: any bytes (by record ordinal, so TIF and plain renderings agree)
        out += bytes(pad)
        n_pr += 1
        off += n
        if p['last']:
            assert off == len(pay), (off, len(pay))
            k += 1
            off = 0
    assert k == len(payloads)
    if tif != 'none':
        here = len(out)
        out += struct.pack(fmt, 1, prev_marker, here + 12)
        out += struct.pack(fmt, 1, here, here + 24)
    return bytes(out), starts


def parse_phys(data, tif):
    """Independent LIS-79 physical record parser: list of dict(hdrpos, prlen, succ, pred, rn, fn, ck, n, tif, payload)
    and the trailing TIF EOF markers."""
    prs = []
    pos = 0
    eofs = []
    fmt = '<3L' if tif == 'le' else '>3L'
    while pos < len(data):
        marker = None
        if tif != 'none':
            marker = list(struct.unpack_from(fmt, data, pos))
            if marker[0] == 1:
                eofs.append(marker)
                pos += 12
                continue
            pos += 12
        prlen, attr = struct.unpack_from('>HH', data, pos)
        rn, fn, ck = (attr >> 9) & 1, (attr >> 10) & 1, (attr >> 12) & 1
        n = prlen - 4 - 2 * rn - 2 * fn - 2 * ck
        tail = data[pos + 4 + n:pos + prlen]
        vals, o = {}, 0
        for key, has in (('rnval', rn), ('fnval', fn), ('ckval', ck)):      # trailer order: record number, file number, checksum
            vals[key] = struct.unpack_from('>H', tail, o)[0] if has and o + 2 <= len(tail) else -1
            o += 2 if has else 0
        prs.append(dict(hdrpos=pos, prlen=prlen, succ=bool(attr & 1), pred=bool(attr & 2), rn=rn, fn=fn, ck=ck, n=n,
                        tif=marker or [], payload=data[pos + 4:pos + 4 + n], attr=attr, **vals))
        pos += prlen
    return prs, eofs


def split_greedy(L, maxpay):
    out = []
    while L > 0:
        out.append(min(L, maxpay))
        L -= out[-1]
    return out


def random_split(rng, L, maxpay):
    style = rng.choice(['greedy', 'greedy', 'cut', 'ragged', 'ones'])
    if style == 'greedy':
        return split_greedy(L, maxpay)
    if style == 'ones' and L <= 40:
        return [1] * L
    out = []
    while L > 0:
        n = min(L, maxpay if style == 'cut' and rng.random() < 0.7 else rng.randint(1, maxpay))
        out.append(n)
        L -= n
    return out


def layout_from_splits(splits, rng=None, trailer=(0, 0, 0), vary=False):
    lay = []
    for sp in splits:
        for i, n in enumerate(sp):
            rn, fn, ck = trailer
            if vary and rng is not None:
                rn, fn, ck = rng.randint(0, 1), rng.randint(0, 1), rng.randint(0, 1)
            lay.append(dict(n=n, last=(i == len(sp) - 1), rn=rn, fn=fn, ck=ck))
    return lay
