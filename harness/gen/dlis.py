"""Independent RP66V1 (DLIS) encoder used by the checks: renders abstract layouts to bytes.

A layout is a list of segment choices  dict(n, pad, ck, tr, padbit, nv)  exactly as in spec/DlisPhys.tla;
records are dict(kind 'E'|'I', type, len, enc).  Payload bytes are either given explicitly (C03/C04) or the
abstract byte (record k, offset j) rendered by payload_byte(k, j), which project() maps back to ranges.
"""
import io

SUL_SIZE = 80


import functools
import hashlib


@functools.lru_cache(maxsize=512)
def _stream(k, n):
    return hashlib.shake_256(b'verif-dlis-rec-%d' % k).digest(n)


def payload(k, length):
    """the abstract bytes (record k, offsets 1..length) as concrete bytes: a per-record keystream, so that any
    window of a few bytes identifies its offset"""
    n = 64
    while n < length:
        n *= 2
    return _stream(k, n)[:length]


def payload_byte(k, j):
    return payload(k, j)[j - 1]


def project(k, data, length, hint=0):
    """Projection concrete -> abstract: map observed bytes back to ranges of record k, a list of [from, to]
    (1-based, inclusive), with ['X', n] for n bytes that are not payload of record k.  `hint` (0-based offset) only
    breaks ties between equally valid descriptions of very short results."""
    pay = payload(k, length)
    n = len(data)
    if n == 0:
        return []
    if 0 <= hint and pay[hint:hint + n] == data:
        return [[hint + 1, hint + n]]
    out = []
    i = 0
    while i < n:
        cands = []
        if out and out[-1][0] != 'X' and out[-1][1] < length:
            cands.append(out[-1][1])          # continuation of the previous range
        elif not out and 0 <= hint < length:
            cands.append(hint)
        best, bestlen = None, 0
        start = 0
        first = data[i:i + 1]
        others = []
        while True:
            a = pay.find(first, start)
            if a < 0:
                break
            others.append(a)
            start = a + 1
        for a in cands + others:
            m = 0
            while i + m < n and a + m < length and pay[a + m] == data[i + m]:
                m += 1
            if m > bestlen:
                best, bestlen = a, m
        if best is None or bestlen == 0:
            if out and out[-1][0] == 'X':
                out[-1][1] += 1
            else:
                out.append(['X', 1])
            i += 1
            continue
        if out and out[-1][0] != 'X' and out[-1][1] == best:
            out[-1][1] = best + bestlen
        else:
            out.append([best + 1, best + bestlen])
        i += bestlen
    return out


def render_sul(seq=1, maxlen=8192, ident=b'Default Storage Set', padding='zero', version=b'V1.00'):
    if padding == 'zero':
        a, b = b'%04d' % seq, b'%05d' % maxlen
    else:
        a, b = b'%4d' % seq, b'%5d' % maxlen
    ident = ident[:60].ljust(60, b' ')
    s = a + version + b'RECORD' + b + ident
    assert len(s) == SUL_SIZE, len(s)
    return s


class Rendered:
    def __init__(self):
        self.data = b''
        self.index = []      # per record: (vrpos, lrshpos)
        self.vrs = []        # (pos, length)
        self.rec_vrs = []    # per record: list of vr numbers
        self.segments = []   # (record k (1-based), lrsh position, length)


def render(recs, layout, sul=None, payloads=None, vm=None):
    """Render records + layout to file bytes. payloads: optional list of bytes per record."""
    out = bytearray(sul if sul is not None else render_sul(maxlen=vm or 8192))
    r = Rendered()
    k, off = 0, 0          # 0-based record index here
    vr_start = None
    first_of_record = True
    for s in layout:
        rec = recs[k]
        pay = payloads[k] if payloads is not None else None
        L = 4 + s['n'] + s['pad'] + 2 * s['ck'] + 2 * s['tr']
        if s['nv']:
            if vr_start is not None:
                ln = len(out) - vr_start
                out[vr_start:vr_start + 2] = ln.to_bytes(2, 'big')
                r.vrs.append((vr_start, ln))
            vr_start = len(out)
            out += b'\x00\x00\xff\x01'
        last = (s['n'] == rec['len'] - off)
        attr = 0
        if rec['kind'] == 'E':
            attr |= 0x80
        if not first_of_record:
            attr |= 0x40
        if not last:
            attr |= 0x20
        if rec['enc']:
            attr |= 0x10
        if s['ck']:
            attr |= 0x04
        if s['tr']:
            attr |= 0x02
        if s['padbit']:
            attr |= 0x01
        pos = len(out)
        if first_of_record:
            r.index.append((vr_start, pos))
            r.rec_vrs.append([])
        if not r.rec_vrs[-1] or r.rec_vrs[-1][-1] != len(r.vrs):
            r.rec_vrs[-1].append(len(r.vrs))
        r.segments.append((k + 1, pos, L))
        out += L.to_bytes(2, 'big') + bytes([attr, rec['type']])
        if pay is not None:
            out += pay[off:off + s['n']]
        else:
            out += payload(k + 1, rec['len'])[off:off + s['n']]
        if s['pad']:
            # what the pad bytes before the count byte hold is nobody's business (only the last one, the pad count, means something);
            # likewise the checksum VALUE (the reader does not verify it)
            out += bytes(((len(out) + 37 * j + 11) * 73) & 0xFF for j in range(s['pad'] - 1)) + bytes([s['pad']])
        if s['ck']:
            out += bytes([(len(out) * 31 + 5) & 0xFF, (len(out) * 17 + 201) & 0xFF])
        if s['tr']:
            out += L.to_bytes(2, 'big')
        if last:
            k += 1
            off = 0
            first_of_record = True
        else:
            off += s['n']
            first_of_record = False
    if vr_start is not None:
        ln = len(out) - vr_start
        out[vr_start:vr_start + 2] = ln.to_bytes(2, 'big')
        r.vrs.append((vr_start, ln))
    assert k == len(recs), 'layout does not cover all records'
    r.data = bytes(out)
    return r


def min_pad(n, ck, tr):
    base = 4 + n + 2 * ck + 2 * tr
    return 16 - base if base < 16 else base % 2


def _chunks(rng, L, cap, style, enc):
    """split a payload of L bytes into chunk sizes (each <= cap; encrypted: even and >= 12)"""
    if L == 0:
        return [0]
    if enc:
        return enc_chunks(rng, L, cap)
    out = []
    rem = L
    while rem > 0:
        if style == 'small':
            c = rng.choice([1, 2, 11, 12, 13, 14, 20, 26])
        elif style == 'fill':
            c = cap
        elif style == 'big':
            c = rng.randint(1, cap)
        else:
            c = rng.choice([1, 12, 13, rng.randint(1, min(cap, 200)), cap, rng.randint(1, cap)])
        c = min(c, cap, rem)
        if enc:
            c = max(12, c - c % 2)
            if c > cap:
                c = cap - cap % 2
            if rem - c != 0 and rem - c < 12:      # do not leave a tail that cannot form a segment
                if rem <= cap - cap % 2:
                    c = rem
                else:
                    c = rem - 12
                    c -= c % 2
            c = min(c, rem)
        out.append(c)
        rem -= c
    return out


def enc_len_ok(L, cap):
    """can an encrypted payload of L bytes be cut into even chunks of 12..cap bytes?"""
    cap -= cap % 2
    if L % 2 or L < 12:
        return False
    m = -(-L // cap)
    return 12 * m <= L


def enc_chunks(rng, L, cap):
    cap -= cap % 2
    assert enc_len_ok(L, cap), (L, cap)
    mmin, mmax = -(-L // cap), L // 12
    m = rng.choice([mmin, mmax, rng.randint(mmin, mmax)])
    m = min(m, mmin + 6)
    sizes = [12] * m
    extra = L - 12 * m
    while extra > 0:
        i = rng.randrange(m)
        add = min(extra, cap - sizes[i], rng.choice([2, 2, 4, 10, extra]))
        add -= add % 2
        if add > 0:
            sizes[i] += add
            extra -= add
    return sizes


def random_layout(rng, recs, vm, style=None):
    """A conformant random layout (vetted again by the writer specification during trace validation)."""
    style = style or rng.choice(['small', 'mixed', 'fill', 'big'])
    layout = []
    vrfill = 0
    for rec in recs:
        enc = rec['enc']
        cap = vm - 4 - 4          # VR header, segment header
        if enc:
            assert enc_len_ok(rec['len'], cap), (rec, vm)
        for n in _chunks(rng, rec['len'], max(1, cap - (0 if enc else 1)), style, enc):
            ck, tr = (rng.random() < 0.3) * 1, (rng.random() < 0.3) * 1
            while 4 + n + 2 * ck + 2 * tr + (0 if enc else min_pad(n, ck, tr)) > vm - 4:
                if tr:
                    tr = 0
                elif ck:
                    ck = 0
                else:
                    raise RuntimeError('chunk too large')
            if enc:
                pad, padbit = 0, rng.random() < 0.3
                if 4 + n + 2 * ck + 2 * tr < 16:
                    ck = tr = 1
            else:
                pad = min_pad(n, ck, tr)
                extra = rng.choice([0, 0, 0, 2, 4, rng.randrange(0, 240, 2)])
                if pad + extra <= 255 and 4 + n + pad + extra + 2 * ck + 2 * tr <= vm - 4:
                    pad += extra
                padbit = pad > 0
            seglen = 4 + n + pad + 2 * ck + 2 * tr
            assert seglen % 2 == 0 and 16 <= seglen <= vm - 4, (seglen, n, pad, ck, tr, vm)
            nv = vrfill == 0 or vrfill + seglen > vm or (vrfill >= 20 and rng.random() < 0.15)
            layout.append(dict(n=n, pad=pad, ck=ck, tr=tr, padbit=bool(padbit), nv=bool(nv)))
            vrfill = (4 if nv else vrfill) + seglen
    return layout


class TracingBytesIO(io.BytesIO):
    """io.BytesIO that records (position, length) of every read"""
    def __init__(self, data):
        super().__init__(data)
        self.reads = []
        self.tracing = False

    def read(self, n=-1):
        p = self.tell()
        b = super().read(n)
        if self.tracing:
            self.reads.append((p, len(b)))
        return b

    def start(self):
        self.reads = []
        self.tracing = True

    def stop(self):
        self.tracing = False
        r = self.reads
        self.reads = []
        return r
