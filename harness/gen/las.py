"""Independent LAS 1.2 / 2.0 text renderer: abstract content + a layout -> text.

content = dict(vers='2.0'|'1.2', wrap=bool, null=-999.25,
               well=[(mnem, unit, value_text, desc)], curves=[(mnem, unit, api, desc)],
               params=[(mnem, unit, value_text, desc)], other=[lines], frames=[[x, v1, v2, ...]] (texts or floats))
layout  = dict(pad_mnem, pad_unit, pad_val (ints), comments={section: [positions]}, blank={...},
               sep=' ' | '\t' | '   ', wrap_width=int)
"""


def header_line(mnem, unit, value, desc, pm=0, pu=1, pv=2, pre=0):
    return '%s%s%s.%s%s%s%s:%s' % (' ' * pre, mnem, ' ' * pm, unit, ' ' * max(pu, 1), value, ' ' * pv, desc)


def fmt_val(v):
    if isinstance(v, str):
        return v
    return repr(float(v)) if not float(v).is_integer() else '%.1f' % v


def render(content, layout=None, rng=None):
    lay = dict(pad_mnem=0, pad_unit=1, pad_val=2, sep=' ', wrap_width=4, comments={}, blanks={}, pre=0)
    lay.update(layout or {})
    out = []

    def section(tag, title, lines):
        out.append('~%s%s' % (tag, title))
        for i, ln in enumerate(lines):
            for c in lay['comments'].get(tag, []):
                if c == i:
                    out.append('# comment %s %d' % (tag, i))
            for b in lay['blanks'].get(tag, []):
                if b == i:
                    out.append('')
            out.append(ln)

    hl = lambda t: header_line(t[0], t[1], t[2], t[3], lay['pad_mnem'], lay['pad_unit'], lay['pad_val'], lay['pre'])
    section('V', 'ersion Information Section', [
        hl(('VERS', '', content.get('vers', '2.0'), 'CWLS LOG ASCII STANDARD')),
        hl(('WRAP', '', 'YES' if content.get('wrap') else 'NO', 'Wrap mode')),
    ])
    section('W', 'ell Information Section', [hl(t) for t in content['well']])
    section('C', 'urve Information Section', [hl((c[0], c[1], c[2], c[3])) for c in content['curves']])
    if content.get('params') is not None:
        section('P', 'arameter Information Section', [hl(t) for t in content['params']])
    if content.get('other'):
        section('O', 'ther', list(content['other']))
    rows = []
    sep = lay['sep']
    for fr in content['frames']:
        vals = [fmt_val(v) for v in fr]
        if content.get('wrap'):
            rows.append(vals[0])
            rest = vals[1:]
            w = max(1, lay['wrap_width'])
            for i in range(0, len(rest), w):
                rows.append(sep.join(rest[i:i + w]))
        else:
            rows.append(sep.join(vals))
    section('A', '  ' + '  '.join(c[0] for c in content['curves']), rows)
    return '\n'.join(out) + '\n'
