"""Independent RP66V1 logical-level encoder: EFLR component streams (sets, templates, objects), IFLRs, the
standard FILE-HEADER / ORIGIN / CHANNEL / FRAME records.  Physical layout is done by gen/dlis.py."""
import struct

ROLE = {'ABSATR': 0x00, 'ATTRIB': 0x20, 'INVATR': 0x40, 'OBJECT': 0x60, 'SET': 0xE0}
BIT = {'L': 0x10, 'C': 0x08, 'R': 0x04, 'U': 0x02, 'V': 0x01}
RC = {'FSINGL': 2, 'ISINGL': 5, 'FDOUBL': 7, 'SSHORT': 12, 'SNORM': 13, 'SLONG': 14, 'USHORT': 15, 'UNORM': 16, 'ULONG': 17,
      'UVARI': 18, 'IDENT': 19, 'ASCII': 20, 'DTIME': 21, 'ORIGIN': 22, 'OBNAME': 23, 'OBJREF': 24, 'STATUS': 26, 'UNITS': 27}


def uvari(n):
    if n < 0x80:
        return bytes([n])
    if n < 0x4000:
        return struct.pack('>H', 0x8000 | n)
    return struct.pack('>I', 0xC0000000 | n)


def ident(b):
    assert len(b) < 256
    return bytes([len(b)]) + b


def ascii_(b):
    return uvari(len(b)) + b


def obname(o, c, i):
    return uvari(o) + bytes([c]) + ident(i)


VSINGL_KBITS = [None]          # 23 or 24: the reading of the VSINGL fraction the implementation follows (probed by the caller)


def vsingl_probe():
    """which of the two readings of RepCodes!DecVsingl the implementation follows, from one pattern (C07 judges all patterns)"""
    if VSINGL_KBITS[0] is None:
        from TotalDepth.RP66V1.core import RepCode, File
        got = RepCode.VSINGL(File.LogicalData(b'\x0c\x44\x00\x80'))
        VSINGL_KBITS[0] = 24 if got == 140.5 else 23       # 153.0 under the reading of the RP66V2 test vectors
    return VSINGL_KBITS[0]


def enc_vsingl(v):
    """the VSINGL bytes of a dyadic value under the probed reading: v = +-(1/2 + F / 2^kbits) * 2^(E - 128), 0 <= F < 2^(kbits - 1)"""
    import math
    kbits = vsingl_probe()
    if v == 0:
        return bytes(4)
    m, x = math.frexp(abs(v))                   # m in [1/2, 1)
    F = (m - 0.5) * (1 << kbits)
    assert F == int(F) and 0 <= F < (1 << 23) and 1 <= x + 128 <= 255, v
    F, E = int(F), x + 128
    b1 = (0x80 if v < 0 else 0) | (E >> 1)
    b0 = ((E & 1) << 7) | (F >> 16)
    return bytes([b0, b1, F & 0xff, (F >> 8) & 0xff])


def enc_value(rc, v):
    """encode one value under a representation code; v is a python value"""
    if rc == 2:
        return struct.pack('>f', v)
    if rc == 7:
        return struct.pack('>d', v)
    if rc == 5:
        return v                      # raw 4 bytes (IBM)
    if rc == 6:
        return enc_vsingl(v)
    if rc == 12:
        return struct.pack('>b', v)
    if rc == 13:
        return struct.pack('>h', v)
    if rc == 14:
        return struct.pack('>i', v)
    if rc == 15 or rc == 26:
        return struct.pack('>B', v)
    if rc == 16:
        return struct.pack('>H', v)
    if rc == 17:
        return struct.pack('>I', v)
    if rc == 18 or rc == 22:
        return uvari(v)
    if rc == 19 or rc == 27:
        return ident(v)
    if rc == 20:
        return ascii_(v)
    if rc == 21:
        y, tz, mo, d, h, mi, s, ms = v
        return bytes([y - 1900, (tz << 4) | mo, d, h, mi, s]) + struct.pack('>H', ms)
    if rc == 23:
        return obname(*v)
    if rc == 24:
        return ident(v[0]) + obname(*v[1])
    raise ValueError(rc)


def attr_component(role, has, label=None, count=None, rc=None, units=None, values=None, value_rc=None):
    """one attribute component. has: iterable of 'L','C','R','U','V'. values are encoded under value_rc."""
    d = ROLE[role]
    for h in has:
        d |= BIT[h]
    out = bytes([d])
    if 'L' in has:
        out += ident(label)
    if 'C' in has:
        out += uvari(count)
    if 'R' in has:
        out += bytes([rc])
    if 'U' in has:
        out += ident(units)
    if 'V' in has:
        for v in values:
            out += enc_value(value_rc, v)
    return out


SET_ROLES = {'SET': 0xE0, 'RDSET': 0xA0, 'RSET': 0xC0}          # ordinary, redundant and replacement sets: all are sets of objects


def set_component(typ, name=None, role='SET'):
    d = SET_ROLES[role] | 0x10 | (0x08 if name is not None else 0)
    return bytes([d]) + ident(typ) + (ident(name) if name is not None else b'')


def object_component(o, c, i):
    return bytes([ROLE['OBJECT'] | 0x10]) + obname(o, c, i)


def simple_eflr(set_type, template, objects, set_name=None):
    """template: list of (label, rc, count|None, units|None); objects: list of ((o,c,i), [values-list or None per column]).
    Every object cell present carries only V (and C when the count differs)."""
    out = set_component(set_type, set_name)
    for label, rc, count, units in template:
        has = ['L', 'R']
        if count is not None:
            has.append('C')
        if units is not None:
            has.append('U')
        out += attr_component('ATTRIB', has, label=label, count=count, rc=rc, units=units)
    for name, cells in objects:
        out += object_component(*name)
        for (label, rc, count, units), vals in zip(template, cells):
            if vals is None:
                out += bytes([ROLE['ABSATR']])
            else:
                n = len(vals)
                has = ['V'] + (['C'] if n != (count if count is not None else 1) else [])
                out += attr_component('ATTRIB', has, count=n, values=vals, value_rc=rc)
    return out


def file_header(seq=1, fid=b'VERIF FILE'):
    # the FILE-HEADER set may carry a set name (RP66V1 writers number it by sequence: "1", "2", ...): even-numbered ones do here
    set_name = None if seq % 2 == 1 else (b'%d' % seq if seq % 4 == 0 else b'FH')
    return simple_eflr(b'FILE-HEADER', [(b'SEQUENCE-NUMBER', 20, None, None), (b'ID', 20, None, None)],
                       [((0, 0, b'0'), [[('%10d' % seq).encode()], [fid.ljust(65)]])], set_name=set_name)


def origin(file_id=b'VERIF', well=b'WELL-1', extra=None):
    t = [(b'FILE-ID', 20, None, None), (b'FILE-SET-NAME', 19, None, None), (b'FILE-SET-NUMBER', 18, None, None),
         (b'FILE-NUMBER', 18, None, None), (b'WELL-NAME', 20, None, None), (b'FIELD-NAME', 20, None, None)]
    return simple_eflr(b'ORIGIN', t, [((0, 0, b'DEFINING-ORIGIN'), [[file_id], [b'SETNAME'], [41], [170], [well], [extra or b'FIELD']])])


def channel_eflr(channels):
    """channels: list of dict(name, long_name, rc, units, dims)"""
    t = [(b'LONG-NAME', 20, None, None), (b'PROPERTIES', 19, None, None), (b'REPRESENTATION-CODE', 15, None, None),
         (b'UNITS', 27, None, None), (b'DIMENSION', 18, None, None), (b'AXIS', 23, None, None), (b'ELEMENT-LIMIT', 18, None, None),
         (b'SOURCE', 24, None, None)]
    objs = []
    for ch in channels:
        objs.append(((ch.get('o', 1), ch.get('c', 0), ch['name']),
                     [[ch['long_name']], None, [ch['rc']], [ch['units']], list(ch['dims']), None, list(ch['dims']), None]))
    return simple_eflr(b'CHANNEL', t, objs)


def frame_eflr(frames):
    """frames: list of dict(name, channels=[names], index_type, description)"""
    t = [(b'DESCRIPTION', 20, None, None), (b'CHANNELS', 23, None, None), (b'INDEX-TYPE', 19, None, None), (b'DIRECTION', 19, None, None),
         (b'SPACING', 2, None, None), (b'ENCRYPTED', 15, None, None), (b'INDEX-MIN', 2, None, None), (b'INDEX-MAX', 2, None, None)]
    objs = []
    for fr in frames:
        objs.append(((fr.get('o', 1), fr.get('c', 0), fr['name']),
                     [[fr.get('description', b'')] if fr.get('description') is not None else None,
                      [(c.get('o', 1), c.get('c', 0), c['name']) for c in fr['channels']], [fr.get('index_type', b'BOREHOLE-DEPTH')],
                      [fr.get('direction', b'DECREASING')], None, None, None, None]))
    return simple_eflr(b'FRAME', t, objs)


def iflr(frame_name, frame_number, data, o=1, c=0):
    return obname(o, c, frame_name) + uvari(frame_number) + data


def origin_full(file_id=b'VERIF', well=b'WELL-1', field=b'FIELD', company=b'COMPANY', producer=b'PRODUCER',
                ctime=(2015, 0, 8, 16, 4, 57, 12, 0), omit=(), absent=()):
    """an ORIGIN with the attributes RP66V1/ToLAS.py reads (omit: labels to leave out of the template; absent: labels whose
    cell in the object is an Absent Attribute component)"""
    t = [(b'FILE-ID', 20, None, None), (b'FILE-SET-NAME', 19, None, None), (b'FILE-SET-NUMBER', 18, None, None),
         (b'FILE-NUMBER', 18, None, None), (b'CREATION-TIME', 21, None, None), (b'WELL-NAME', 20, None, None),
         (b'FIELD-NAME', 20, None, None), (b'PRODUCER-NAME', 20, None, None), (b'COMPANY', 20, None, None)]
    v = [[file_id], [b'SETNAME'], [41], [170], [ctime], [well], [field], [producer], [company]]
    v = [None if t[i][0] in absent else x for i, x in enumerate(v)]
    keep = [i for i, x in enumerate(t) if x[0] not in omit]
    return simple_eflr(b'ORIGIN', [t[i] for i in keep], [((0, 0, b'DEFINING-ORIGIN'), [v[i] for i in keep])])
