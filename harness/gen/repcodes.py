"""Python transcription of spec/RepCodes.tla (reference decoders, code-68 encoder) used to build and judge generated
LIS / RP66V1 frame data.  The transcription itself is compared with TLC's oracle tables by check C07."""
import math
import struct

SIZE = {49: 2, 50: 4, 56: 1, 66: 1, 68: 4, 70: 4, 73: 4, 77: 1, 79: 2}


def s16(x):
    return x - 65536 if x >= 32768 else x


def s8(x):
    return x - 256 if x >= 128 else x


def dec(code, by):
    """exact value of the bytes under a LIS representation code"""
    if code == 49:
        w = int.from_bytes(by, 'big')
        return math.ldexp((w >> 4) - (4096 if w >= 32768 else 0), (w & 15) - 11)
    if code == 50:
        hi, lo = struct.unpack('>HH', by)
        return math.ldexp(s16(lo), hi - 15)
    if code == 56:
        return s8(by[0])
    if code in (66, 77):
        return by[0]
    if code == 68:
        w = int.from_bytes(by, 'big')
        hi, lo = w >> 16, w & 0xFFFF
        E = (hi >> 7) & 0xFF
        f = ((hi & 0x7F) << 16) | lo
        return math.ldexp(f, E - 151) if hi < 0x8000 else math.ldexp(f - (1 << 23), 104 - E)
    if code == 70:
        hi, lo = struct.unpack('>HH', by)
        return math.ldexp(s16(hi) * 65536 + lo, -16)
    if code == 73:
        return struct.unpack('>i', by)[0]
    if code == 79:
        return struct.unpack('>h', by)[0]
    raise ValueError(code)


def enc68(v):
    """RepCodes.tla Enc68 for an exactly representable value (|fraction| needs <= 23 bits)"""
    if v == 0:
        return (0x40000000).to_bytes(4, 'big')
    m, e = math.frexp(abs(v))            # m in [0.5, 1)
    F = int(m * (1 << 23))
    assert F == m * (1 << 23), 'not exactly representable in code 68: %r' % v
    if v > 0:
        w = ((e + 128) << 23) | F
    else:
        fr = (1 << 23) - F
        w = (1 << 31) | ((127 - e) << 23) | fr
    return w.to_bytes(4, 'big')


def random_word(rng, code):
    """a random word of the code whose value is a finite double, avoiding the cases the checks do not judge"""
    n = SIZE[code]
    if code == 50:
        return struct.pack('>HH', rng.choice([0, 1, 8, 15, 16, 20, 30]), rng.getrandbits(16))
    if code == 68:
        E = rng.choice([120, 127, 128, 129, 135, 140, 150, 100])
        return (((rng.getrandbits(1) << 31) | (E << 23) | rng.getrandbits(23))).to_bytes(4, 'big')
    return bytes(rng.getrandbits(8) for _ in range(n))
