"""Independent Western Atlas BIT file renderer (TIF-framed blocks, IBM single precision words)."""
import struct


def ibm_word(s, E, M):
    return bytes([(s << 7) | E, (M >> 16) & 0xFF, (M >> 8) & 0xFF, M & 0xFF])


def ibm_from_float(x):
    """exactly representable values only (used for header depths): returns 4 bytes; x = M/2^24 * 16^(E-64)"""
    import math
    if x == 0:
        return b'\x00\x00\x00\x00'
    s = 1 if x < 0 else 0
    a = abs(x)
    E = 64
    while a >= 1:
        a /= 16
        E += 1
    while a < 1 / 16:
        a *= 16
        E -= 1
    M = a * (1 << 24)
    assert M == int(M), 'not exactly representable as IBM single: %r' % x
    return ibm_word(s, E, int(M))


def header(names, start, stop, spacing, desc=b'VERIF BIT PASS', unused=b'    '):
    assert 1 <= len(names) <= 20
    b = b'\x00\x02\x00\x00'
    b += desc[:72].ljust(72, b' ')
    b += b'\x00\x0a\x00\x18\x00'
    b += b'T  2 9 / 1 0 - 3'.ljust(75, b' ')
    b += b'\x00\x12\x00\x0b\x00\x06  '
    b += struct.pack('>H', len(names)) + b'\x00\x00'
    for n in names:
        b += n.encode('ascii')[:4].ljust(4, b' ')
    b += unused[:4].ljust(4, b' ') * (20 - len(names))          # what the unused name slots hold is nobody's business
    for v in (start, stop, spacing, 0.0, 16.0):
        b += ibm_from_float(v)
    b += b'MN239J 1'
    assert len(b) == 276, len(b)
    return b


def render(passes):
    """passes: list of dict(names, start, stop, spacing, blocks=[ [ [word bytes per frame] per channel ] ]) where
    blocks[b][c] is the list of 4-byte words of channel c in block b. Returns file bytes."""
    out = bytearray()
    prev = 0
    n = 0

    def marker(typ, payload):
        nonlocal prev, n
        here = len(out)
        out.extend(struct.pack('<3L', typ, prev if n else 0, here + 12 + len(payload)))
        out.extend(payload)
        prev = here
        n += 1

    for p in passes:
        marker(0, header(p['names'], p['start'], p['stop'], p['spacing'], unused=p.get('unused', b'    ')))
        for blk in p['blocks']:
            payload = b''.join(b''.join(ch) for ch in blk)
            marker(0, payload)
        marker(1, b'')
    marker(1, b'')
    return bytes(out)
