"""Common context for the per-property checks: tiers, seeds, evidence, violations, known findings,
TLC invocations and batch trace validation."""
import hashlib
import json
import os
import random
import shutil
import sys
import tempfile
import time

from . import tlc, tlaval

ROOT = os.path.dirname(os.path.dirname(os.path.abspath(__file__)))
EVIDENCE_DIR = os.environ.get('VERIF_EVIDENCE_DIR') or os.path.join(ROOT, 'evidence')
REPLAY_DIR = os.path.join(EVIDENCE_DIR, 'replay')
KNOWN_FILE = os.path.join(ROOT, 'known_findings.json')


class Machinery(Exception):
    pass


def load_known():
    with open(KNOWN_FILE) as f:
        return json.load(f)


class Ctx:
    def __init__(self, pid, tier, seed, level='model_checking'):
        self.pid = pid
        self.tier = tier
        self.seed = seed
        self.level = level
        self.rng = random.Random(seed)
        self.t0 = time.time()
        self.work = tempfile.mkdtemp(prefix='verif_%s_' % pid, dir=os.environ.get('VERIF_TMP', '/tmp'))
        self.states = 0
        self.transitions = 0
        self.traces = 0
        self.trace_events = 0
        self.evaluations = 0
        self.nontrivial = set()
        self.nontrivial_count = 0
        self.samples = []
        self.tlc_runs = []
        self.violations = []
        self.known_hits = {}
        self.assumptions = []
        self.notes = {}
        self.rule = ''
        self.exhaustive = None
        self.explanation = ''
        self.known = [k for k in load_known() if k['property'] == pid and k['status'] == 'known']
        self.vacuity = []
        self.sig_hist = {}

    # ---------------------------------------------------------------- tiers
    @property
    def quick(self):
        return self.tier == 'quick'

    def pick(self, quick, thorough):
        return quick if self.tier == 'quick' else thorough

    def subrng(self, name):
        return random.Random('%s/%s/%s' % (self.seed, self.pid, name))

    # ---------------------------------------------------------------- TLC
    def wdir(self, name):
        d = os.path.join(self.work, name)
        os.makedirs(d, exist_ok=True)
        return d

    def tlc_check(self, name, extends, expect_ok=True, need_actions=(), **kw):
        """Model-check an MC wrapper; record stats; a failure of a *design* check is a machinery/spec
        problem unless the caller handles it (expect_ok=False)."""
        run_kw = {k: kw.pop(k) for k in list(kw) if k in ('workers', 'dump', 'simulate', 'depth', 'seed', 'env',
                                                             'timeout', 'continue_', 'heap', 'dfs', 'extra', 'coverage')}
        d = self.wdir(name)
        tlc.write_mc(d, name, extends, **kw)
        r = tlc.run(d, name, **run_kw)
        self.states += r.distinct
        self.transitions += r.generated
        rec = dict(name=name, module=extends, **r.as_dict())
        rec['ok'] = r.ok()
        self.tlc_runs.append(rec)
        for a in need_actions:
            if r.coverage.get(a, 0) == 0:
                self.vacuity.append('%s: action %s never taken' % (name, a))
        if expect_ok and not r.ok():
            raise Machinery('TLC design check %s failed: %s %s\n%s' % (name, r.error, r.error_name,
                                                                        _fmt_trace(r.trace)))
        return r

    def tlc_dump(self, name, extends, **kw):
        """Model-check with a dump file; yields parsed states. The dump is deleted afterwards."""
        d = self.wdir(name)
        dump = os.path.join(d, 'dump')
        r = self.tlc_check(name, extends, dump=dump, **kw)
        path = dump + '.dump'
        if not os.path.exists(path):
            path = dump
        return r, tlaval.iter_dump(path)

    def validate_traces(self, name, trace_module, traces, payload_extra=None, invariants=(), max_reject=8,
                        workers=8, consts=None, cfg_consts=None, label=None, timeout=3600, max_events=400000):
        """Batch trace validation. traces: list of event lists. Returns list of rejections
        [(tid (0-based), l (1-based index of the first event not allowed), state)].
        Large sets are validated in shards of about max_events events (TLC holds the whole JSON payload in memory)."""
        total = sum(len(t) for t in traces)
        if total > max_events and len(traces) > 1:
            out, lo, shard = [], 0, 0
            while lo < len(traces) and len(out) < max_reject:
                hi, n = lo, 0
                while hi < len(traces) and (hi == lo or n + len(traces[hi]) <= max_events):
                    n += len(traces[hi])
                    hi += 1
                extra = None
                if payload_extra:
                    extra = {k: (v[lo:hi] if isinstance(v, list) and len(v) == len(traces) else v) for k, v in payload_extra.items()}
                shard += 1
                rej = self.validate_traces('%s_s%d' % (name, shard), trace_module, traces[lo:hi], payload_extra=extra, invariants=invariants,
                                           max_reject=max_reject - len(out), workers=workers, consts=consts, cfg_consts=cfg_consts, label=label,
                                           timeout=timeout, max_events=max_events)
                out += [(t + lo, l, st) for t, l, st in rej]
                shutil.rmtree(self.wdir('MCT_%s_s%d' % (name, shard)), ignore_errors=True)
                lo = hi
            return out
        rejects = []
        live = list(range(len(traces)))
        name = 'MCT_' + name
        d = self.wdir(name)
        nevents = sum(len(t) for t in traces)
        rounds = 0
        while live and len(rejects) < max_reject:
            rounds += 1
            payload = {'traces': [traces[i] for i in live]}
            if payload_extra:
                for k, v in payload_extra.items():
                    payload[k] = [v[i] for i in live] if isinstance(v, list) and len(v) == len(traces) else v
            tf = os.path.join(d, 'traces.json')
            with open(tf, 'w') as f:
                json.dump(payload, f)
            tlc.write_mc(d, name, trace_module, spec='TSpec', invariants=invariants, deadlock=True, consts=consts,
                         cfg_consts=cfg_consts)
            r = tlc.run(d, name, workers=workers, env={'TRACE_FILE': tf}, coverage=False, timeout=timeout,
                        continue_=True)
            self.states += r.distinct
            self.transitions += r.generated
            self.tlc_runs.append(dict(name=name + ('#%d' % rounds), module=trace_module, kind='trace_validation',
                                      traces=len(live), **r.as_dict()))
            if r.ok():
                break
            if r.error not in ('deadlock', 'invariant'):
                raise Machinery('trace validation %s: unexpected TLC error %s' % (name, r.error))
            found = {}
            for tr in r.traces:
                last = tr[-1][1] if tr else {}
                if 'tid' in last and last['tid'] not in found:
                    found[last['tid']] = last
            if not found:
                raise Machinery('trace validation %s: cannot locate rejected trace\n%s' % (name, r.out[-2000:]))
            for tidv, last in sorted(found.items()):
                t = live[tidv - 1]
                rejects.append((t, last.get('l'), dict(last, _error=r.error, _name=r.error_name)))
            break       # -continue explored every trace: all rejections are in this run
        if not rejects:
            self.traces += len(traces)
        elif len(rejects) < max_reject:        # -continue reports every rejected trace unless the cap was reached: the others were accepted
            self.traces += len(traces) - len(rejects)
        self.trace_events += nevents
        return rejects

    # ---------------------------------------------------------------- cases
    def case(self, key=None, nontrivial=True):
        self.evaluations += 1
        if nontrivial:
            if key is None:
                self.nontrivial_count += 1
            else:
                self.nontrivial.add(key if isinstance(key, (str, int, tuple)) else json.dumps(key, sort_keys=True, default=str))

    def sample(self, s, limit=6):
        if len(self.samples) < limit:
            self.samples.append(_jsonable(s))

    # ---------------------------------------------------------------- verdicts
    def match_known(self, sig):
        """sig: a dict describing the failing case; returns the known-finding entry whose 'match'
        dict is a subset of sig, else None."""
        for k in self.known:
            m = k.get('match', {})
            if all(sig.get(a) == b for a, b in m.items()):
                return k
        return None

    def fail(self, what, case, sig=None):
        """Report a failing case: a KNOWN-FINDING if it matches the committed list, else a VIOLATION."""
        k = self.match_known(sig) if sig is not None else None
        if k is not None:
            self.known_hits.setdefault(k['id'], [k, 0])[1] += 1
            return False
        if len(self.violations) < 5:
            os.makedirs(REPLAY_DIR, exist_ok=True)
            path = os.path.join(REPLAY_DIR, '%s-%s-%d.json' % (self.pid, self.tier, len(self.violations) + 1))
            with open(path, 'w') as f:
                json.dump(dict(property=self.pid, what=what, sig=_jsonable(sig), case=_jsonable(case),
                               seed=self.seed, tier=self.tier), f, indent=1, default=str)
            print('VIOLATION property=%s replay=%s' % (self.pid, path))
            print('  ' + what[:600])
            sys.stdout.flush()
        self.violations.append(what)
        h = self.sig_hist.setdefault(json.dumps(_jsonable(sig), sort_keys=True, default=str), [0, what[:700]])
        h[0] += 1
        return True

    # ---------------------------------------------------------------- evidence
    def finish(self):
        for kid, (k, n) in sorted(self.known_hits.items()):
            print('KNOWN-FINDING: property=%s %s [%s; %d case(s) this run]' % (self.pid, k['what'], kid, n))
        for v in self.vacuity:
            print('VACUITY-WARNING: ' + v)
        for sg, (cnt, first) in sorted(self.sig_hist.items(), key=lambda kv: -kv[1][0]):
            print('  violation signature x%d %s e.g. %s' % (cnt, sg, first), file=sys.stderr)
        cov = dict(
            states=self.states, transitions=self.transitions,
            traces_validated_against_impl=self.traces,
            trace_events=self.trace_events,
            evaluations=self.evaluations,
            distinct_nontrivial=len(self.nontrivial) + self.nontrivial_count,
            rule=self.rule, samples=self.samples or ['(none)'],
            tlc_runs=self.tlc_runs, vacuity_warnings=self.vacuity,
            known_findings_hit={k: n for k, (_, n) in self.known_hits.items()},
            explanation=self.explanation,
        )
        if self.exhaustive is not None:
            cov['exhaustive'] = self.exhaustive
        cov.update(self.notes)
        ev = dict(property_id=self.pid, tier=self.tier, seed=self.seed, level=self.level, coverage=cov,
                  assumptions=self.assumptions, wall_s=round(time.time() - self.t0, 2),
                  violations=len(self.violations))
        os.makedirs(EVIDENCE_DIR, exist_ok=True)
        with open(os.path.join(EVIDENCE_DIR, self.pid + '.json'), 'w') as f:
            json.dump(ev, f, indent=1, default=str)
        if not os.environ.get('VERIF_KEEP_WORK'):
            shutil.rmtree(self.work, ignore_errors=True)
        else:
            print('work dir kept:', self.work)
        print('%s %s: states=%d transitions=%d traces=%d evaluations=%d nontrivial=%d violations=%d known=%d wall=%.1fs' % (
            self.pid, self.tier, self.states, self.transitions, self.traces, self.evaluations,
            cov['distinct_nontrivial'], len(self.violations), len(self.known_hits), time.time() - self.t0))
        return 1 if self.violations else 0

    def cleanup(self):
        shutil.rmtree(self.work, ignore_errors=True)


def _fmt_trace(tr):
    return '\n'.join('%s %s' % (a, json.dumps(_jsonable(s))[:400]) for a, s in tr[-4:])


def _jsonable(x):
    if isinstance(x, dict):
        return {str(k): _jsonable(v) for k, v in x.items()}
    if isinstance(x, (list, tuple)):
        return [_jsonable(v) for v in x]
    if isinstance(x, (set, frozenset)):
        return sorted((_jsonable(v) for v in x), key=repr)
    if isinstance(x, (bytes, bytearray)):
        return x.hex()
    if isinstance(x, (int, float, str, bool)) or x is None:
        return x
    return repr(x)


def sha(b):
    return hashlib.sha1(bytes(b)).hexdigest()[:16]


def quiet_logging():
    import logging
    logging.disable(logging.CRITICAL)
    import warnings
    warnings.simplefilter('ignore')
