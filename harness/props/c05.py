"""C05 - LIS physical records: what is written is what is read, at any position.

1. TLC: the PhysRecRead design (LisPhys.tla: head/tail/within-PR loops, mustReadHead, start-of-LR) refines the
   abstract cursor (LisPhysAbs.tla) under EVERY operation sequence on a set of layouts covering every split shape;
   the greedy writer split refines ValidSplit.
2. code -> spec: operation histories on ONE real File.FileRead per generated file (any valid split, any trailer
   mix, TIF none / normal / reversed) are validated by TLC against LisPhysTrace; the layout itself is vetted by the
   same specification.  Histories: TLC -simulate behaviours of LisPhys for the small layouts (spec -> code) and
   seeded random long histories.
3. the real File.FileWrite output is parsed by an independent LIS-79 parser and validated as a trace (split, bits,
   trailer, TIF chain, returned positions, payload); strip_tif(TIF file) must equal the unmarked file.
"""
import io
import itertools
import json

from .. import repo
from ..core import Machinery
from ..gen import lis as G
from ..tlaval import FrozenDict

LEVEL = 'model_checking'


def _splits(L, maxpay):
    g = G.split_greedy(L, maxpay)
    out = {tuple(g), tuple([1] * L)}
    for i, n in enumerate(g):
        for c in range(1, n):
            out.add(tuple(g[:i] + [c, n - c] + g[i + 1:]))
    return sorted(out)


def design_layouts(ctx):
    lays = set()
    for lens in [(2, 7, 3), (8, 2, 9), (3, 3, 3)]:
        for mp in (3, 4, 5):
            per = [_splits(L, mp) for L in lens]
            for combo in itertools.product(*per):
                lay = []
                for k, sp in enumerate(combo):
                    for i, n in enumerate(sp):
                        lay.append(FrozenDict(lr=k + 1, n=n, last=(i == len(sp) - 1)))
                lays.add(tuple(lay))
    lays = sorted(lays, key=repr)
    ctx.subrng('design-layouts').shuffle(lays)
    return lays[:ctx.pick(80, 400)]


class Driver:
    """drives one real FileRead and records the events"""
    def __init__(self, File, data, lens, starts):
        self.fr = File.FileRead(io.BytesIO(data), 'verif', keepGoing=False)
        self.lens, self.starts = lens, starts
        self.ev = []
        # harness-side mirror of the abstract cursor, used ONLY as a hint for the bytes -> range projection of
        # very short results (a 1-byte result matches many offsets); the verdict on every event is TLC's
        self.mode, self.j, self.k, self.o = 'fresh', 1, 0, 0
        self.stopped = False
        self.companion = None

    def _enter(self):
        if self.mode == 'fresh' and self.j <= len(self.lens):
            self.mode, self.k, self.o = 'in', self.j, 0

    def _mirror_take(self, n):
        self._enter()
        if self.mode != 'in':
            return None
        L = self.lens[self.k - 1]
        hint = (self.k, self.o)
        if self.o == L or n < 0:
            self.mode, self.j = 'fresh', self.k + 1
        else:
            self.o = min(L, self.o + n)
        return hint

    def _proj(self, data, hint=None):
        # locate which record the bytes belong to: the hinted one first, then all records
        if not data:
            return []
        if hint is not None:
            k, o = hint
            pr = G.project(k, data, self.lens[k - 1], hint=o)
            if len(pr) == 1 and pr[0][0] != 'X':
                return [k, pr[0][0], pr[0][1]]
        best = None
        for k in range(1, len(self.lens) + 1):
            pr = G.project(k, data, self.lens[k - 1])
            if len(pr) == 1 and pr[0][0] != 'X':
                return [k, pr[0][0], pr[0][1]]
            best = best or ['X', pr]
        return best

    def op(self, kind, *args):
        fr = self.fr
        if self.companion is not None:
            self.companion.step()
        try:
            if kind == 'read':
                r = fr.readLrBytes(args[0])
                self.ev.append(dict(op='take', kind='read', n=args[0], r=self._proj(r or b'', self._mirror_take(args[0])),
                                    cnt=len(r or b'')))
            elif kind == 'skip':
                self._mirror_take(args[0])
                r = fr.skipLrBytes(args[0])
                self.ev.append(dict(op='take', kind='skip', n=args[0], r=[], cnt=r or 0))
            elif kind == 'tonext':
                self._mirror_take(-1)
                self._enter()
                r = fr.skipToNextLr()
                self.ev.append(dict(op='tonext', cnt=r or 0))
            elif kind == 'seek':
                self.mode, self.j = 'fresh', args[0]
                fr.seekLr(self.starts[args[0] - 1])
                self.ev.append(dict(op='seek', j=args[0], p=self.starts[args[0] - 1]))
            elif kind == 'seekcur':
                self.mode, self.j = 'fresh', self.k if self.mode == 'in' else self.j - 1
                self.ev.append(dict(op='seekcur', p=fr.seekCurrentLrStart()))
            elif kind == 'tell':
                self.ev.append(dict(op='tell', r=fr.tellLr()))
            self.ev.append(dict(op='eofflag', v=bool(fr.isEOF)))
            if fr.isEOF:
                self.stopped = True
        except Exception as e:
            self.ev.append(dict(op='exception', during=kind, err='%s: %s' % (type(e).__name__, str(e)[:160])))
            self.stopped = True


class Companion:
    """another reader at work on another file while the reader under test runs (two files open at once): it reads its records in a
    loop and must get what it gets alone"""
    def __init__(self, File, data, pays, first):
        self.fr = File.FileRead(io.BytesIO(data), 'companion', keepGoing=False)
        self.pays, self.i, self.errors, self.steps = pays, 0, [], 0
        self.first = first          # position of the first logical record

    def step(self):
        self.steps += 1
        try:
            if self.i == len(self.pays):
                self.fr.seekLr(self.first)
                self.i = 0
            r = self.fr.readLrBytes(-1)
            if bytes(r or b'') != self.pays[self.i]:
                self.errors.append('record %d: %d bytes %r..., alone %d bytes' % (self.i + 1, len(r or b''), bytes(r or b'')[:12], len(self.pays[self.i])))
            self.i += 1
        except Exception as e:
            self.errors.append('%s: %s' % (type(e).__name__, e))
            self.i = len(self.pays)


def abstract_told(ev_list):
    """harness-side mirror used ONLY to decide when a tell() may be asked (after seek the value is undefined);
    the verdict on every event is TLC's."""
    told = False
    for e in ev_list:
        if e['op'] in ('seek', 'seekcur'):
            told = False
        elif e['op'] in ('take', 'tonext'):
            told = True
    return told


class InSitu:
    """Records what the library itself (FileIndex, LogPass.setFrameSet, the LAS converter) does to ONE real FileRead of a
    generated LIS file with real content, as the same events as Driver.  Read results are projected onto the known logical
    records by content at the mirrored cursor."""
    def __init__(self, fr, lrs, starts):
        self.fr, self.lrs, self.starts = fr, lrs, starts
        self.lens = [len(x) for x in lrs]
        self.ev = []
        self.mode, self.j, self.k, self.o = 'fresh', 1, 0, 0
        self.told = False
        self.alive = True
        self.at_eof = False
        self.why = ''
        for name in ('readLrBytes', 'skipLrBytes', 'skipToNextLr', 'seekLr', 'seekCurrentLrStart', 'tellLr'):
            setattr(fr, name, self._wrap(name, getattr(fr, name)))
        self.depth = 0

    def _enter(self):
        if self.mode == 'fresh' and self.j <= len(self.lens):
            self.mode, self.k, self.o = 'in', self.j, 0

    def _take(self, n):
        self._enter()
        if self.mode != 'in':
            return None
        L = self.lens[self.k - 1]
        hint = (self.k, self.o)
        if self.o == L or n < 0:
            self.mode, self.j = 'fresh', self.k + 1
        else:
            self.o = min(L, self.o + n)
        return hint

    def _proj(self, data, hint):
        if not data:
            return []
        if hint is not None:
            k, o = hint
            if self.lrs[k - 1][o:o + len(data)] == data:
                return [k, o + 1, o + len(data)]
        return ['X', len(data)]

    def _wrap(self, name, fn):
        def w(*a, **kw):
            if not self.alive or self.depth:
                return fn(*a, **kw)
            if self.at_eof and name not in ('seekLr', 'tellLr'):
                self.alive, self.why = False, '%s after end of file' % name
                return fn(*a, **kw)
            self.depth += 1
            try:
                if name in ('readLrBytes', 'skipLrBytes'):
                    n = a[0] if a else kw.get('theLen', -1)
                    if not isinstance(n, int) or n == 0 or n < -1:
                        self.alive, self.why = False, 'size argument %r outside the property' % (n,)
                        return fn(*a, **kw)
                    hint = self._take(n)
                    r = fn(*a, **kw)
                    self.told = True
                    if name == 'readLrBytes':
                        self.ev.append(dict(op='take', kind='read', n=n, r=self._proj(r or b'', hint), cnt=len(r or b'')))
                    else:
                        self.ev.append(dict(op='take', kind='skip', n=n, r=[], cnt=r or 0))
                elif name == 'skipToNextLr':
                    self._take(-1)
                    self._enter()
                    r = fn(*a, **kw)
                    self.told = True
                    self.ev.append(dict(op='tonext', cnt=r or 0))
                elif name == 'seekLr':
                    off = a[0] if a else kw.get('offset')
                    if off not in self.starts:
                        self.alive, self.why = False, 'seek to %r which is not a record start' % (off,)
                        return fn(*a, **kw)
                    j = self.starts.index(off) + 1
                    self.mode, self.j, self.told, self.at_eof = 'fresh', j, False, False
                    r = fn(*a, **kw)
                    self.ev.append(dict(op='seek', j=j, p=off))
                elif name == 'seekCurrentLrStart':
                    if not self.told:
                        self.alive, self.why = False, 'seekCurrentLrStart before any record was entered'
                        return fn(*a, **kw)
                    self.mode, self.j = 'fresh', self.k if self.mode == 'in' else self.j - 1
                    self.told = False
                    r = fn(*a, **kw)
                    self.ev.append(dict(op='seekcur', p=r))
                else:
                    r = fn(*a, **kw)
                    if self.told:                      # otherwise the value is undefined by the specification: not judged
                        self.ev.append(dict(op='tell', r=r))
                    return r
                self.ev.append(dict(op='eofflag', v=bool(self.fr.isEOF)))
                self.at_eof = bool(self.fr.isEOF)      # only a seek may follow (reads after EOF are outside the property)
                return r
            except Exception as e:
                self.ev.append(dict(op='exception', during=name, err='%s: %s' % (type(e).__name__, str(e)[:160])))
                self.alive = False
                raise
            finally:
                self.depth -= 1
        return w


def in_situ(ctx, add):
    from . import c06
    from TotalDepth.LIS.core import File, FileIndexer
    rng = ctx.subrng('c05-insitu')
    n = 0
    for t in range(ctx.pick(60, 600)):
        L = c06.build_lrs(rng, ctx)
        lrs = L['lrs']
        maxpay = rng.choice([16, 60, 200, 1020, 60000])
        tif = rng.choice(['none', 'le'])
        splits = [G.random_split(rng, len(x), maxpay) for x in lrs]
        layout = G.layout_from_splits(splits, rng, rng.choice([(0, 0, 0), (1, 1, 0)]))
        data, starts = G.render(lrs, layout, tif)
        fr = File.FileRead(io.BytesIO(data), 'verif', keepGoing=False)
        rec = InSitu(fr, lrs, starts)
        m = dict(insitu=True, tif=tif, maxpay=maxpay, records=len(lrs), pattern=L['pattern'])
        try:
            idx = FileIndexer.FileIndex(fr)
            total = sum(L['pattern'])
            for ilp in idx.genLogPasses():
                for _ in range(3):
                    a = rng.randrange(0, total)
                    b = rng.randint(a + 1, total)
                    ilp.logPass.setFrameSet(fr, slice(a, b, rng.choice([1, 2, 3])), None if rng.random() < 0.5 else sorted(rng.sample(range(L['nch']), rng.randint(1, L['nch']))))
        except Exception as e:
            m['library_exception'] = '%s: %s' % (type(e).__name__, e)
        lens = [len(x) for x in lrs]
        add('read', [dict(op='pr', **p) for p in layout] + [dict(op='endlayout', size=len(data))] + rec.ev, lens, tif, None, dict(m, stopped=rec.why))
        ctx.case(('insitu', t), len(rec.ev) > 10)
        n += len(rec.ev)
    ctx.notes['insitu_reader_events'] = n


def run(ctx):
    repo.setup()
    from TotalDepth.LIS.core import File, PhysRec
    from TotalDepth import DeTif

    lays = design_layouts(ctx)
    sizes = frozenset([1, 3, 20])
    ctx.tlc_check('MC_LisPhys', 'LisPhys', consts={'Layouts': frozenset(lays), 'Sizes': sizes},
                  invariants=['ResultsAgree', 'EofAgrees', 'TellAgrees', 'CursorAgrees'], defs='ASSUME WriterRefines',
                  need_actions=['OpTake', 'OpToNext', 'OpSeek'], timeout=900)
    rng = ctx.subrng('c05')
    traces, kinds, lens_l, tif_l, cfg_l, meta = [], [], [], [], [], []

    def add(kind, tr, lens, tif, cfg, m):
        traces.append(tr); kinds.append(kind); lens_l.append(lens); tif_l.append(tif)
        cfg_l.append(dict(dict(maxpr=0, rn=0, fn=0, ck=0, fnval=0, rnbase=0), **(cfg or {}))); meta.append(m)

    # ---- (2) reader histories ----
    ncase, prev_file = [0], [None]
    def reader_case(lens, layout, tif, nops, small):
        pays = [G.payload(k + 1, L) for k, L in enumerate(lens)]
        data, starts = G.render(pays, layout, tif)
        if tif == 'be':
            first = 4 + layout[0]['n'] + 2 * (layout[0]['rn'] + layout[0]['fn'] + layout[0]['ck'])
            if first + 12 in (0x100, 0x10000):
                return      # the two byte orders are indistinguishable (stated exclusion)
        tr = [dict(op='pr', **p) for p in layout] + [dict(op='endlayout', size=len(data))]
        dr = Driver(File, data, lens, starts)
        if ncase[0] % 4 == 1 and prev_file[0] is not None:
            dr.companion = Companion(File, *prev_file[0])
        ncase[0] += 1
        prev_file[0] = (data, pays, starts[0])
        for _ in range(nops):
            if dr.stopped:
                break
            c = rng.random()
            if c < 0.30:
                dr.op('read', rng.choice([1, 2, 3, 5, 20] if small else [1, 2, 7, 100, 1000, 5000, 70000]))
            elif c < 0.42:
                dr.op('read', -1)
            elif c < 0.57:
                dr.op('skip', rng.choice([1, 2, 3, 20] if small else [1, 3, 64, 1000, 70000]))
            elif c < 0.65:
                dr.op('skip', -1)
            elif c < 0.75:
                dr.op('tonext')
            elif c < 0.90:
                dr.op('seek', rng.randint(1, len(lens)))
            elif abstract_told(dr.ev):
                dr.op(rng.choice(['tell', 'tell', 'seekcur']))
        # a reader that has run into the end of the file still knows where its last record started: ask, go back, read it again
        if dr.fr.isEOF and abstract_told(dr.ev) and not any(e['op'] == 'exception' for e in dr.ev):
            dr.op('tell')
            dr.op('seekcur')
            dr.op('read', -1)
            dr.op('tell')
        if tif == 'le' and rng.random() < 0.5:
            out = io.BytesIO()
            try:
                m, b = DeTif.strip_tif(io.BytesIO(data), out)
                plain, _ = G.render(pays, layout, 'none')
                dr.ev.append(dict(op='strip', equal=out.getvalue() == plain, markers=m, bytes=b))
            except Exception as e:
                dr.ev.append(dict(op='exception', during='strip_tif', err='%s: %s' % (type(e).__name__, e)))
        if dr.companion is not None and dr.companion.errors:
            ctx.fail('a second LIS reader at work on another file while this one runs reads differently from alone: %s' % dr.companion.errors[0],
                     dict(lens=lens, tif=tif), sig=dict(kind='two-readers'))
        add('read', tr + dr.ev, lens, tif, None, dict(lens=lens, tif=tif, layout=layout if len(layout) < 30 else '(%d PRs)' % len(layout)))
        ctx.case(('read', len(traces)), len(layout) > len(lens))

    # small layouts from the design set, all three TIF modes, several histories each
    for lay in lays[:ctx.pick(80, 400)]:
        lens = []
        for p in lay:
            if len(lens) < p['lr']:
                lens.append(0)
            lens[p['lr'] - 1] += p['n']
        for tif in ('none', 'le', 'be'):
            trailer = rng.choice([(0, 0, 0), (1, 0, 0), (0, 1, 0), (0, 0, 1), (1, 1, 1)])
            layout = [dict(n=p['n'], last=p['last'], rn=trailer[0], fn=trailer[1], ck=trailer[2]) for p in lay]
            reader_case(lens, layout, tif, 14, True)
    # big random files
    for _ in range(ctx.pick(150, 1200)):
        nrec = rng.choice([2, 5, 20, 60])
        maxpay = rng.choice([1, 2, 3, 8, 100, 1024, 65535 - 10])
        lens = [rng.choice([2, 3, rng.randint(2, 40), rng.randint(2, 5000)]) for _ in range(nrec)]
        if maxpay < 8:
            lens = [min(L, 60) for L in lens]
        splits = [G.random_split(rng, L, maxpay) for L in lens]
        layout = G.layout_from_splits(splits, rng, rng.choice([(0, 0, 0), (1, 1, 0), (1, 1, 1)]), vary=rng.random() < 0.4)
        reader_case(lens, layout, rng.choice(['none', 'le', 'be']), rng.choice([30, 120]), False)

    # physical records at and just below the maximum length (the 16-bit length field), first in the file: with TIF markers the
    # first marker's 'next' word is then at its largest
    # ... and physical records whose total length is a power of two (8192: the usual I/O block; whoever copies in blocks meets it)
    for total in (65535, 65534, 65532, 65528, 65527, 65523, 65520, 8192, 16384, 32768, 4096):
        for tif in ('le', 'be', 'none') if not ctx.quick or total % 2 else ('le',):
            trailer = rng.choice([(0, 0, 0), (1, 1, 0), (1, 1, 1)])
            n0 = total - 4 - 2 * sum(trailer)
            for shape in ('alone', 'continued'):
                lens = [n0 if shape == 'alone' else n0 + rng.choice([1, 7, 300]), rng.randint(2, 40), rng.randint(2, 40)]
                splits = [[n0] if shape == 'alone' else [n0, lens[0] - n0], [lens[1]], G.random_split(rng, lens[2], 8)]
                layout = G.layout_from_splits(splits, rng, trailer)
                reader_case(lens, layout, tif, 20, False)

    # ---- (3) the real writer ----
    for wi in range(ctx.pick(400, 3000)):
        nrec = rng.choice([1, 2, 4, 12])
        rn, fn, ck = rng.choice([(0, 0, 0), (1, 0, 0), (0, 1, 0), (0, 0, 1), (1, 1, 1), (1, 1, 0)])
        taillen = 2 * (rn + fn + ck)
        maxpr = rng.choice([4 + taillen + 1, 4 + taillen + 2, 4 + taillen + 3, 16, 64, 1024, 65535, 8192, 16384])
        maxpr = max(maxpr, 4 + taillen + 1)
        lens = [rng.choice([2, 3, maxpr - 4 - taillen, maxpr - 3 - taillen, 2 * (maxpr - 4 - taillen),
                            rng.randint(2, 300)]) for _ in range(nrec)]
        lens = [max(2, min(L, (2 * maxpr if maxpr in (8192, 16384) else 3000) if maxpr > 8 else 40)) for L in lens]
        tif = rng.choice(['none', 'le'])
        if wi == 0 or (not ctx.quick and wi == 1):
            # more physical records than the 16-bit record number of the trailer can count: it wraps to 0 after 65535
            rn, fn, ck = 1, wi, 0
            taillen = 2 * (rn + fn + ck)
            maxpr = 4 + taillen + 1
            lens = [40000, 26000, 100]
            tif = 'none' if wi == 0 else 'le'
        pays = [G.payload(k + 1, L) for k, L in enumerate(lens)]
        tr = []
        fnval = rng.choice([0, 0, 1, 3, 255, 9999])          # file number 0 is the legal minimum
        m = dict(lens=lens, tif=tif, cfg=dict(maxpr=maxpr, rn=rn, fn=fn, ck=ck, fnval=fnval))
        try:
            f = io.BytesIO()
            f.close = lambda: None
            fw = File.FileWrite(f, 'verif', hasTif=(tif == 'le'), thePrLen=maxpr,
                                thePrt=PhysRec.PhysRecTail(hasRecNum=bool(rn), fileNum=(fnval if fn else None), hasCheckSum=bool(ck)))
            rets = [fw.write(p) for p in pays]
            fw.close()
            data = f.getvalue()
            prs, eofs = G.parse_phys(data, tif)
            # which PR starts which LR: first PR, then every PR after a non-successor one
            i = 0
            k = 0
            first = True
            for p in prs:
                if first:
                    k += 1
                    tr.append(dict(op='w_lr', len=len(pays[k - 1]) if k <= len(pays) else -1, ret=rets[k - 1] if k <= len(rets) else -1))
                    off = 0
                L = lens[k - 1] if k <= len(lens) else 0
                pr = G.project(min(k, len(lens)), p['payload'], L, hint=off)
                tr.append(dict(op='w_pr', hdrpos=p['hdrpos'], prlen=p['prlen'], n=p['n'], succ=p['succ'], pred=p['pred'],
                               rn=p['rn'], fn=p['fn'], ck=p['ck'], tif=p['tif'], rnval=p['rnval'], fnval=p['fnval'],
                               ranges=[k, pr[0][0], pr[0][1]] if len(pr) == 1 and pr[0][0] != 'X' else ['X']))
                off += p['n']
                first = not p['succ']
            m['cfg']['rnbase'] = prs[0]['rnval'] if prs and rn else 0
            tr.append(dict(op='w_close', size=len(data), eof1=eofs[0] if len(eofs) > 0 else [], eof2=eofs[1] if len(eofs) > 1 else []))
            if tif == 'le':
                f2 = io.BytesIO()
                f2.close = lambda: None
                fw2 = File.FileWrite(f2, 'verif', hasTif=False, thePrLen=maxpr,
                                     thePrt=PhysRec.PhysRecTail(hasRecNum=bool(rn), fileNum=(fnval if fn else None), hasCheckSum=bool(ck)))
                for p in pays:
                    fw2.write(p)
                fw2.close()
                out = io.BytesIO()
                mk, b = DeTif.strip_tif(io.BytesIO(data), out)
                tr.append(dict(op='strip', equal=out.getvalue() == f2.getvalue(), markers=mk, bytes=b))
        except Exception as e:
            tr.append(dict(op='exception', during='write', err='%s: %s' % (type(e).__name__, str(e)[:160])))
        add('write', tr, lens, tif, m['cfg'], m)
        ctx.case(('write', len(traces)), any(L > maxpr - 4 - taillen for L in lens))
        # and read the written file back through the reader (what is written is what is read)
        try:
            layout = [dict(n=p['n'], last=not p['succ'], rn=p['rn'], fn=p['fn'], ck=p['ck']) for p in prs]
            dr = Driver(File, data, lens, rets)
            for k in range(len(lens)):
                dr.op('read', -1)
            dr.op('read', -1)
            if dr.fr.isEOF:
                dr.op('tell')
                dr.op('seekcur')
                dr.op('read', -1)
            add('read', [dict(op='pr', **p) for p in layout] + [dict(op='endlayout', size=len(data))] + dr.ev,
                lens, tif, None, dict(m, readback=True))
        except Exception as e:
            pass
    in_situ(ctx, add)
    ctx.rule = ('one case = one generated or written LIS file with one operation history on one real reader (or one '
                'writer run); non-trivial = some logical record spans >= 2 physical records')
    for i in (0, len(traces) // 2, len(traces) - 1):
        ctx.sample(dict(meta=meta[i], kind=kinds[i], events=[e for e in traces[i] if e['op'] not in ('pr',)][:8]))
    rej = ctx.validate_traces('LisPhysTrace', 'LisPhysTrace', traces,
                              payload_extra=dict(kind=kinds, lens=lens_l, tif=tif_l, cfg=cfg_l), workers=16, timeout=3000)
    for t, l, st in rej:
        if st.get('phase') == 'layout' and meta[t].get('readback'):
            ev = traces[t][l - 1] if l and l <= len(traces[t]) else None
            ctx.fail('the file produced by the real LIS writer is not a valid LIS-79 layout: physical record %s: %s; %s' % (
                l, json.dumps(ev), json.dumps(meta[t])[:300]), dict(meta=meta[t], event=ev, l=l),
                sig=dict(kind='write', op='layout'))
            continue
        if st.get('phase') == 'layout':
            raise Machinery('generator produced a layout the format specification rejects: case %d event %s %s' % (
                t, l, json.dumps(traces[t][l - 1] if l else None)))
        ev = traces[t][l - 1] if l and l <= len(traces[t]) else None
        ctx.fail('real LIS %s disagrees with the specification at event %s: %s; abstract cursor %s; file %s; previous %s' % (
            'writer' if kinds[t] == 'write' else 'reader', l, json.dumps(ev)[:300], json.dumps(st.get('a'))[:200],
            json.dumps(meta[t])[:400], json.dumps([e for e in traces[t][max(0, l - 7):l - 1] if e['op'] != 'eofflag'])[:600]),
            dict(meta=meta[t], event=ev, l=l), sig=dict(kind=kinds[t], op=ev and ev.get('op')))
    ctx.assumptions += ['sized reads/skips use n >= 1; operations stop at end of file (the documented file error after EOF '
                        'is outside the property)', 'tellLr is only asked after an operation that entered a record',
                        'reversed TIF excludes first markers 0x100 / 0x10000 (indistinguishable byte orders)',
                        'every physical record carries >= 1 payload byte']
    ctx.explanation = 'design refinement by TLC over all operation sequences; reader/writer histories validated by TLC'


def replay(ctx, path):
    run(ctx)
