"""C19 - Plotted curves stay inside their track and wrap consistently.

1. TLC: PlotWrap.tla - the abstract wrap/position (InTrack, Unwrap on an integer lattice, either scale direction) and the
   polyline machine of Plot._plotSingleOutput / _retInterpolateWrapPoints over every sample sequence in the bound (values
   on several wraps, absent samples, all back-up modes): every emitted point in the track and in the x interval of its
   step, crossing lines bounded, nothing drawn for or across absent samples.  The variant that only flushes the buffer
   at an absent sample (joining the samples on both sides of a gap) is refuted.
2. spec -> code: the lattice rows of PlotWrap (TLC-evaluated table) and extreme magnitudes are replayed on the real
   LineTransLin / LineTransLog10 (wrapPos, L2P).
3. code -> spec: real plots.  Generated LIS log passes (constant, ramps over many wraps, spikes, huge, tiny, negative on
   log scales, absent runs) are plotted by PlotReadLIS with generated FILM/PRES tables (tracks, scales in both directions,
   linear and logarithmic, every back-up mode) and by PlotReadXML with built-in formats; wrapPos calls, points handed to
   PlotRoll.polyLinePt and polyline flushes are recorded from the harness process and each curve becomes one trace
   validated by TLC against PlotWrapTrace.tla.  The SVG must be well-formed, its polylines must be exactly the recorded
   points, inside the view box and between the plot margins.  LAS input is attempted as well.
"""
import io
import json
import math
import os
import random
import re
import xml.etree.ElementTree as ET
from fractions import Fraction

from .. import repo
from ..gen import lis as GL, lislog as GLL, repcodes as RC

LEVEL = 'model_checking'
POSQ = 10000          # position units per plot unit (inch)
XQ = 100              # x units per x unit

FILM = (b'"\x00' + b'IA\x04\x00TYPE    FILM'
        + b'\x00A\x04\x00MNEM    1   ' + b'EA\x04\x00GCOD    E20 ' + b'EA\x04\x00GDEC    -4--' + b'EA\x04\x00DEST    PF1 ' + b'EA\x04\x00DSCA    D200'
        + b'\x00A\x04\x00MNEM    2   ' + b'EA\x04\x00GCOD    EEE ' + b'EA\x04\x00GDEC    ----' + b'EA\x04\x00DEST    PF2 ' + b'EA\x04\x00DSCA    D200')


# TRAC strings: whole tracks, spans of tracks, and the left / right half of a track
TRACS = [b'T1  ', b'T2  ', b'T3  ', b'T23 ', b'T12 ', b'LHT1', b'RHT1', b'LHT2', b'RHT2', b'LHT3', b'RHT3']


def track_edges(cfg, trac):
    """the edges a TRAC string stands for, from the edges of the WHOLE tracks T1, T2, T3 of the film (cfg.interpretTrac) by the
    meaning of the notation: Tab spans from the left of a to the right of b, LH / RH is the left / right half of the track"""
    def whole(n):
        l_, r_ = cfg.interpretTrac(b'T%d  ' % n)[:2]
        return float(l_.convert('in').value), float(r_.convert('in').value)
    t = trac.strip()
    if t[:2] in (b'LH', b'RH'):
        l_, r_ = whole(int(t[3:4]))
        return (l_, (l_ + r_) / 2.0) if t[:2] == b'LH' else ((l_ + r_) / 2.0, r_)
    a, b = int(t[1:2]), int(t[-1:])
    return whole(a)[0], whole(b)[1]


def pres_bytes(curves):
    b = b'"\x00' + b'IA\x04\x00TYPE    PRES'
    for c in curves:
        b += (b'\x00A\x04\x00MNEM    ' + c['mnem'] + b'EA\x04\x00OUTP    ' + c['outp'] + b'EA\x04\x00STAT    ALLO' + b'EA\x04\x00TRAC    ' + c['trac']
              + b'EA\x04\x00CODI    LLIN' + b'EA\x04\x00DEST    ' + c['dest'] + b'EA\x04\x00MODE    ' + c['mode']
              + b'ED\x04\x00FILT    ' + RC.enc68(0.5) + b'ED\x04\x00LEDG    ' + RC.enc68(c['le']) + b'ED\x04\x00REDG    ' + RC.enc68(c['re']))
    return b


def single_lr_file(by):
    from TotalDepth.LIS.core import File
    data, _ = GL.render([by], GL.layout_from_splits([[len(by)]], random.Random(1), (0, 0, 0)), 'none')
    return File.FileRead(io.BytesIO(data), 'tbl', keepGoing=False)


def dyadic(rng, lo, hi):
    """a value in [lo, hi] exactly representable in code 68"""
    return float(rng.randint(int(lo * 8), int(hi * 8))) / 8.0


def make_values(rng, profile, n, le, re_):
    lo, hi = min(le, re_), max(le, re_)
    span = hi - lo
    vals = []
    for i in range(n):
        if profile == 'constant':
            v = dyadic(rng, lo, hi) if i == 0 else vals[0]
        elif profile == 'inside':
            v = dyadic(rng, lo, hi)
        elif profile == 'ramp':
            v = lo - 2 * span + i * (5 * span / max(1, n - 1))
            v = math.floor(v * 8) / 8.0
        elif profile == 'spiky':
            v = dyadic(rng, lo, hi)
            if rng.random() < 0.2:
                v = rng.choice([-1, 1]) * float(2 ** rng.choice([10, 20, 40, 66, 100, 120]))
        elif profile == 'huge':
            v = rng.choice([-1, 1]) * float(2 ** rng.choice([60, 90, 120, 126]))
        elif profile == 'tiny':
            v = rng.choice([-1, 1]) * float(2.0 ** -rng.choice([20, 60, 100, 120]))
        elif profile == 'negative':
            v = -abs(dyadic(rng, lo, hi)) - 0.125
        elif profile == 'offgap':
            # on scale, on scale, far off scale, absent, absent, on scale again, ... : the value before a run of absent values is one that a
            # curve without (enough) back-up does not draw
            ph = i % 6
            if ph in (3, 4):
                vals.append(None)
                continue
            if ph == 2:
                # (exactly representable in code 68: a power of two beyond 2.5 scale widths, or a multiple of 1/8)
                v = float(2 ** math.ceil(math.log2(hi * (hi / lo) ** 1.5))) if lo > 0 else math.floor((hi + 2.5 * span) * 8) / 8.0
            else:
                v = dyadic(rng, lo, hi)
        else:
            raise ValueError(profile)
        vals.append(float(v))
    return vals


XUNITS = {b'FEET': 1.0, b'.1IN': 120.0, b'M   ': 0.3048}        # frame-unit values per foot


def build_log_pass(rng, names, profiles, scales, n, up, xunits=b'FEET', absent=-999.25):
    chans = [dict(mnem=b'DEPT', units=xunits, size=4, samples=1, rc=68, nvals=1)]
    for nm in names:
        chans.append(dict(mnem=nm, units=b'MV  ', size=4, samples=1, rc=68, nvals=1))
    blocks = {4: (1, 66, 1 if up else 255), 12: (4, 68, absent)}          # the absent value the file declares (0.0 is a legal one)
    lrs = [GLL.file_head(), GLL.dfsr(blocks, chans)]
    x0 = {b'FEET': 1000.0, b'.1IN': 120000.0, b'M   ': 304.75}[xunits]          # about 1000 ft, exact in code 68
    dx = (-1 if up else 1) * {b'FEET': 0.5, b'.1IN': 60.0, b'M   ': 0.25}[xunits]          # multiples of 0.01 so that the 1e-2 quantisation of x is exact
    cols = []
    for nm, prof, (le, re_) in zip(names, profiles, scales):
        vals = [absent if v_ is None else v_ for v_ in make_values(rng, prof['kind'], n, le, re_)]
        if prof['absent']:
            k = rng.randrange(n)
            for j in range(k, min(n, k + rng.choice([1, 1, 2, 4]))):
                vals[j] = absent
            if rng.random() < 0.5:
                vals[rng.randrange(n)] = absent
        cols.append(vals)
    xs = [x0 + i * dx for i in range(n)]
    g = 0
    per = min(rng.choice([4, 8, 50]), max(1, n // 2))        # at least two data records: the index needs them for the frame spacing
    while g < n:
        frames = []
        for j in range(g, min(n, g + per)):
            fb = RC.enc68(xs[j])
            for c in cols:
                fb += RC.enc68(c[j])
            frames.append(fb)
        lrs.append(GLL.data_record(0, b'', frames))
        g += per
    lrs.append(GLL.file_tail())
    data, _ = GL.render(lrs, GL.layout_from_splits([[len(x)] for x in lrs], rng, (0, 0, 0)), 'none')
    return data, xs, cols


def exact_p(kind, lL, rL, v):
    """the scale position of v from the inputs only (rational for linear, high-accuracy float for log)"""
    if kind == 'LineTransLin':
        return Fraction(v) - Fraction(lL), Fraction(rL) - Fraction(lL)
    p = math.log10(v / lL) / math.log10(rL / lL)
    return Fraction(p), Fraction(1)


def curve_traces(ctx, events, source, case, edges=None):
    """events: recorded plot events; source: outp name -> (xs, vals, null). Returns list of (trace, meta) per curve."""
    out = []
    cur_outp = None
    by_curve = {}          # fn id -> dict(geom, steps: list of [wrap event, pts...])
    order = []
    last = None
    geom = None
    for e in events:
        if e['op'] == 'output':
            cur_outp = e['outp'].strip().replace('\x00', '')
            last = None
            ncurves, nwrap = max(1, e['ncurves']), 0
        elif e['op'] == 'wrap':
            # the plotter scales every sample once per curve of the output, in curve order (two curves may share a transform)
            key = (cur_outp, nwrap % ncurves)
            nwrap += 1
            if key not in by_curve:
                by_curve[key] = dict(outp=cur_outp, first=e, steps=[])
                order.append(key)
            by_curve[key]['steps'].append([e, []])
            last = by_curve[key]['steps'][-1]
        elif e['op'] == 'pt':
            geom = e['geom']
            if last is None:
                ctx.fail('a point is handed to polyLinePt before any value was scaled: %s' % json.dumps(e)[:200], case, sig=dict(kind='orphan-point'))
            else:
                last[1].append(e)
    for key in order:
        c = by_curve[key]
        f = c['first']
        src = source.get(c['outp'])
        if src is None:
            ctx.fail('curve plotted for output %r which the log pass does not have' % c['outp'], case, sig=dict(kind='unknown-output'))
            continue
        xs, vals, null = src
        if edges is not None and key[1] < len(edges.get(c['outp'], [])):
            want_e = edges[c['outp']][key[1]]
            if abs(f['lP'] - want_e[0]) > 1e-6 or abs(f['rP'] - want_e[1]) > 1e-6:
                ctx.fail('output %s curve %d is scaled into [%r, %r] inches, its TRAC names the track [%r, %r]' % (c['outp'], key[1], f['lP'], f['rP'], want_e[0], want_e[1]),
                         case, sig=dict(kind='curve-not-in-its-track'))
        nonnull = [(x, v) for x, v in zip(xs, vals) if v != null]
        got_vals = [s[0]['val'] for s in c['steps']]
        if got_vals != [v for _, v in nonnull] and len(xs) > 1:
            # the frame at the stop depth is not loaded (the plot range excludes its end): judge the frames that were
            xs, vals = xs[:-1], vals[:-1]
            nonnull = [(x, v) for x, v in zip(xs, vals) if v != null]
        if got_vals != [v for _, v in nonnull]:
            ctx.fail('output %s: the values scaled for the curve are not the non-absent source values in order: %r vs %r' % (
                c['outp'], [s[0]['val'] for s in c['steps']][:8], [v for _, v in nonnull][:8]), case, sig=dict(kind='sample-mismatch'))
            continue
        xlo, xhi = (min(xs), max(xs))
        tr = [dict(op='start', LP=round(f['lP'] * POSQ), RP=round(f['rP'] * POSQ), bu=f['bu'], xlo=round(xlo * XQ), xhi=round(xhi * XQ))]
        k = 0
        for x, v in zip(xs, vals):
            if v == null:
                tr.append(dict(op='absent', x=round(x * XQ)))
                continue
            w_ev, pts = c['steps'][k]
            k += 1
            ev = dict(op='sample', x=round(x * XQ), err='error' in w_ev, big=False, pfloor=0, frac=0, w=0, pos=0,
                      pts=[dict(x=round(p['x'] * XQ), pos=round(p['pos'] * POSQ)) for p in pts])
            if 'error' in w_ev:
                if w_ev['error'] != 'math' or not (w_ev['kind'] == 'LineTransLog10' and v <= 0):
                    ctx.fail('wrapPos(%r) on %s lL=%r rL=%r raised %s' % (v, w_ev['kind'], w_ev['lL'], w_ev['rL'], w_ev['error']), case,
                             sig=dict(kind='wrappos-raises', error=w_ev['error']))
            else:
                num, den = exact_p(w_ev['kind'], w_ev['lL'], w_ev['rL'], v)
                p = num / den
                pf = math.floor(p)
                ev['big'] = abs(pf) > 10000 or abs(w_ev['w']) > 10000
                ev['pfloor'] = int(pf) if not ev['big'] else 0
                ev['frac'] = int(round((p - pf) * 10000))
                ev['w'] = int(w_ev['w']) if not ev['big'] else (10001 if w_ev['w'] > 0 else -10001)      # sign kept for the off-scale rule
                ev['pos'] = round(w_ev['pos'] * POSQ) if abs(w_ev['pos']) < 1e5 else 2 ** 30
                if ev['big']:
                    # the wrap count itself cannot be carried in 32 bits: compare it here, exactly (boundary cases within 1)
                    if abs(w_ev['w'] - pf) > max(1, abs(pf) * 2.0 ** -50):
                        ctx.fail('wrapPos(%r): wrap %r, exact floor %r' % (v, w_ev['w'], pf), case, sig=dict(kind='wrap-count'))
            tr.append(ev)
        tr.append(dict(op='end'))
        out.append((tr, dict(case, outp=c['outp'], kind=f['kind'], lL=f['lL'], rL=f['rL'], bu=f['bu'], lP=f['lP'], rP=f['rP'])))
    return out, geom


def check_svg(ctx, svg_text, events, geom, case):
    try:
        root = ET.fromstring(svg_text.encode('utf-8'))
    except ET.ParseError as e:
        ctx.fail('the plot is not well-formed XML: %s' % e, dict(case, head=svg_text[:400]), sig=dict(kind='svg-not-wellformed'))
        return
    vb = [float(t) for t in root.get('viewBox').split()]
    polys = []
    for el in root.iter('{http://www.w3.org/2000/svg}polyline'):
        pts = [tuple(float(t) for t in p.split(',')) for p in el.get('points').split()]
        polys.append(pts)
    flushed = [e['pts'] for e in events if e['op'] == 'flush']
    if len(polys) != len(flushed):
        ctx.fail('the SVG has %d polylines, the plotter flushed %d' % (len(polys), len(flushed)), case, sig=dict(kind='svg-polylines'))
        return
    left = right = None
    if geom:
        left = geom['left'] * 96.0
        right = (geom['width'] - geom['right']) * 96.0
    for sp, fp in zip(polys, flushed):
        if len(sp) != len(fp) or any(abs(a[0] - b[0]) > 0.051 or abs(a[1] - b[1]) > 0.051 for a, b in zip(sp, fp)):
            ctx.fail('SVG polyline %r is not the flushed buffer %r' % (sp[:4], fp[:4]), case, sig=dict(kind='svg-points'))
            return
        for (px, py) in sp:
            if not (vb[0] - 0.06 <= px <= vb[0] + vb[2] + 0.06 and vb[1] - 0.06 <= py <= vb[1] + vb[3] + 0.06) or not all(math.isfinite(t) for t in (px, py)):
                ctx.fail('curve point (%r, %r) outside the view box %r' % (px, py, vb), case, sig=dict(kind='svg-outside-viewbox'))
                return
            if left is not None and not (left - 0.06 <= px <= right + 0.06):
                ctx.fail('curve point x=%r outside the plot margins [%r, %r]' % (px, left, right), case, sig=dict(kind='svg-outside-margins'))
                return


def design(ctx):
    from ..tlc import raw
    vals = '{-9, -3, 0, 1, 3, 5, 9, 26}'

    def v(name, ll, rl, bu, reset, invs, expect_ok=True, maxlen=None, **kw):
        r = ctx.tlc_check('MC_PlotWrap_' + name, 'PlotWrap', consts=dict(BU=raw(bu), Values=raw(vals), LL=raw(str(ll)), RL=raw(str(rl))),
                          cfg_consts=dict(LP='2', RP='10', Absent='Absent', MaxLen=maxlen or ctx.pick('4', '5'), MaxCross='4', ResetAtGap=reset),
                          invariants=invs, expect_ok=expect_ok, timeout=1800, defs='ASSUME AbstractOK', **kw)
        if not expect_ok:
            if r.ok():
                ctx.vacuity.append('PlotWrap variant %s expected to be refuted' % name)
            else:
                last = r.trace[-1][1] if r.trace else {}
                ctx.notes['design_counterexample_' + name] = json.dumps(dict(samples=last.get('samples'), stepPts=last.get('stepPts')), default=str)[:500]
    inv = ['PointsInTrack', 'PointsInStep', 'CrossBounded', 'LinesInTrack', 'NothingForAbsent']
    acts = ['AbsentStep', 'SampleStep', 'Finish']
    v('forward_all', 0, 4, '<<0, 0>>', 'TRUE', inv, need_actions=acts)
    v('reverse_once', 4, 0, '<<-1, 1>>', 'TRUE', inv, need_actions=acts)
    v('forward_none', 0, 4, '<<1, -1>>', 'TRUE', inv)
    v('reverse_twice', 4, 0, '<<-2, 2>>', 'TRUE', inv)
    v('forward_left', 0, 4, '<<0, -1>>', 'TRUE', inv)
    v('gap_only_flushes', 0, 4, '<<0, 0>>', 'FALSE', ['NothingForAbsent'], expect_ok=False, maxlen='3')
    v('gap_only_flushes_rest', 0, 4, '<<0, 0>>', 'FALSE', ['PointsInTrack', 'PointsInStep', 'CrossBounded', 'LinesInTrack'], maxlen='4')


def replay_lattice(ctx):
    from TotalDepth.util.plot import PRESCfg
    n = 0
    for lP, rP in ((0.0, 2.4), (2.0, 10.0), (3.2, 8.0)):
        W = rP - lP
        for lL, rL in ((0.0, 4.0), (4.0, 0.0), (-80.0, 20.0), (150.0, 0.0), (0.2, 2000.0), (-0.5, 0.5), (1e-3, 1e3), (6.0, 16.0), (0.0, 0.4375)):
            lin = PRESCfg.LineTransLin(lP, rP, lL, rL)
            vals = [lL, rL, (lL + rL) / 2, lL - (rL - lL) * 2.5, rL + (rL - lL) * 7.25, 0.0, -0.0, 1e30, -1e30, 1e-300, 5e-324, -5e-324, 1e300, -1e300,
                    1.7e308, 2.0 ** 66, -999.25] + [lL + (rL - lL) * k / 8.0 for k in range(-17, 26)]
            for v in vals:
                n += 1
                ctx.case(('lin', lP, rP, lL, rL, v), v not in (lL, rL))
                try:
                    w, pos = lin.wrapPos(v)
                except Exception as e:
                    pexact = (Fraction(v) - Fraction(lL)) / (Fraction(rL) - Fraction(lL))
                    ctx.fail('LineTransLin(%r, %r, %r, %r).wrapPos(%r) raised %s: %s' % (lP, rP, lL, rL, v, type(e).__name__, e), dict(v=v),
                             sig=dict(kind='wrappos-raises', error=type(e).__name__, transform='LineTransLin', position_exceeds_double=abs(pexact) > Fraction(1.7976931348623157e308)))
                    continue
                p = (Fraction(v) - Fraction(lL)) / (Fraction(rL) - Fraction(lL))
                tol = 1e-9 * W * max(1.0, abs(float(p)))
                if not (lP - 1e-9 * W <= pos <= rP + 1e-9 * W):
                    ctx.fail('LineTransLin(%r, %r, %r, %r).wrapPos(%r) = (%r, %r): position outside the track' % (lP, rP, lL, rL, v, w, pos), dict(v=v), sig=dict(kind='intrack'))
                elif abs((Fraction(pos) + w * Fraction(W)) - (Fraction(lP) + p * Fraction(W))) > tol:
                    ctx.fail('LineTransLin(%r, %r, %r, %r).wrapPos(%r) = (%r, %r): pos + wrap*width differs from the unwrapped position %r' % (
                        lP, rP, lL, rL, v, w, pos, float(Fraction(lP) + p * Fraction(W))), dict(v=v), sig=dict(kind='unwrap'))
        for lL, rL in ((1.0, 16.0), (0.2, 2000.0), (2000.0, 0.2), (1.0, 10.0), (1e-3, 1e3), (16.0, 1.0)):
            lg = PRESCfg.LineTransLog10(lP, rP, lL, rL)
            vals = [lL * (rL / lL) ** (k / 4.0) for k in range(-13, 22)] + [1e-300, 5e-324, 1e300, 1.7e308, 2.0 ** -100, 2.0 ** 100, 1.0]
            for v in vals + [0.0, -1.0, -1e300]:
                n += 1
                ctx.case(('log', lP, rP, lL, rL, v), True)
                try:
                    w, pos = lg.wrapPos(v)
                except PRESCfg.ExceptionLineTransBaseMath:
                    if v > 0:
                        ctx.fail('LineTransLog10 wrapPos(%r) reports a maths error for a positive value' % v, dict(v=v), sig=dict(kind='wrappos-raises', error='math'))
                    continue
                except Exception as e:
                    ctx.fail('LineTransLog10(%r, %r, %r, %r).wrapPos(%r) raised %s: %s' % (lP, rP, lL, rL, v, type(e).__name__, e), dict(v=v), sig=dict(kind='wrappos-raises', error=type(e).__name__))
                    continue
                if v <= 0:
                    ctx.fail('LineTransLog10 wrapPos(%r) returned a point for a value with no logarithm' % v, dict(v=v), sig=dict(kind='log-nonpositive'))
                    continue
                p = (math.log10(v) - math.log10(lL)) / (math.log10(rL) - math.log10(lL))
                tol = 1e-7 * W * max(1.0, abs(p))
                if not (lP - 1e-9 * W <= pos <= rP + 1e-9 * W):
                    ctx.fail('LineTransLog10(%r, %r, %r, %r).wrapPos(%r) = (%r, %r): position outside the track' % (lP, rP, lL, rL, v, w, pos), dict(v=v), sig=dict(kind='intrack'))
                elif abs((pos + w * W) - (lP + p * W)) > tol:
                    ctx.fail('LineTransLog10(%r, %r, %r, %r).wrapPos(%r) = (%r, %r): pos + wrap*width differs from the unwrapped position %r' % (
                        lP, rP, lL, rL, v, w, pos, lP + p * W), dict(v=v), sig=dict(kind='unwrap'))
    ctx.notes['lattice_rows_replayed'] = n


def run(ctx):
    repo.setup()
    from ..core import quiet_logging
    quiet_logging()
    import logging
    logging.disable(logging.CRITICAL)
    from .. import plottrace
    from ..tlc import raw
    from TotalDepth.LIS.core import File, FileIndexer, LogiRec, Mnem, EngVal
    from TotalDepth.util.plot import Plot, FILMCfgXML
    from TotalDepth.LAS.core import LASRead
    design(ctx)
    replay_lattice(ctx)
    rng = ctx.subrng('c19')
    wd = ctx.wdir('plots')
    traces, meta = [], []
    film_lr = LogiRec.LrTableRead(single_lr_file(FILM))
    xml_formats = {}
    fx = FILMCfgXML.FilmCfgXMLRead()
    for uid in sorted(fx.uniqueIdS()):
        names = sorted({m.pStr(strip=True) for m in fx._genAllMnem(fx.rootNode(uid))})
        names = [nm for nm in names if 1 <= len(nm) <= 4 and nm.isalnum()]
        if names:
            xml_formats[uid] = names
    nplots = ctx.pick(40, 1200)
    profiles = ['constant', 'inside', 'ramp', 'spiky', 'huge', 'tiny', 'negative']
    for pi in range(nplots):
        use_xml = (pi % 4 == 3)
        n = rng.choice([3, 8, 20, 41])
        up = rng.random() < 0.5
        case = dict(plot=pi, frames=n, up=up)
        if not use_xml:
            film = rng.choice([b'1   ', b'2   '])
            outs = [b'TEST', b'SP  ', b'GR  '][:rng.randint(1, 3)]
            curves, scales = [], []
            for oi, o in enumerate(outs):
                # one scale per output (the values are generated around it); MODE GRAD selects a logarithmic scale: both edges > 0
                forced_log = pi % 8 in (0, 5)          # every tier plots logarithmic curves whose values leave the scale
                positive = forced_log or rng.random() < 0.4
                if positive:
                    le, re_ = rng.choice([(0.25, 2048.0), (2048.0, 0.25), (1.0, 16.0), (0.5, 512.0)])
                else:
                    le, re_ = rng.choice([(-40.0, 40.0), (40.0, -40.0), (0.0, 150.0), (6.0, 16.0), (500.0, 0.0), (-0.5, 0.5), (-80.0, 20.0)])
                scales.append((le, re_))
                for k in range(rng.choice([1, 1, 2])):
                    modes = [b'SHIF', b'WRAP', b'NB  ', b'X10 '] + ([b'GRAD', b'GRAD'] if min(le, re_) > 0 else [])
                    if forced_log:
                        modes = [b'GRAD']
                    curves.append(dict(mnem=b'C%d%d ' % (oi, k), outp=o, trac=rng.choice(TRACS), dest=film,
                                       mode=rng.choice(modes), le=le, re=re_))
            case.update(film=film.decode().strip(), curves=[dict(outp=c['outp'].decode(), trac=c['trac'].decode(), mode=c['mode'].decode(), le=c['le'], re=c['re']) for c in curves])
            try:
                # the FILM table of this plot: any of the grid layouts and depth scales the library knows ("at every scale")
                grids = [(b'E20 ', b'-4--'), (b'EEE ', b'----'), (b'E2E ', b'-1--'), (b'E2E ', b'-2--'), (b'E3E ', b'-3--'), (b'E4E ', b'-4--'), (b'EEB ', b'----'),
                         (b'EBE ', b'----'), (b'EB0 ', b'----'), (b'E1E ', b'-4--'), (b'E40 ', b'-4--')]
                dscas = [b'D200', b'D200', b'D500', b'DM  ', b'S5  ', b'S2  ', b'D20 ', b'D40 ']
                fb = b'"\x00' + b'IA\x04\x00TYPE    FILM'
                film_desc = []
                for fm in (b'1   ', b'2   '):
                    (gc, gd), ds = rng.choice(grids), rng.choice(dscas)
                    fb += (b'\x00A\x04\x00MNEM    ' + fm + b'EA\x04\x00GCOD    ' + gc + b'EA\x04\x00GDEC    ' + gd + b'EA\x04\x00DEST    PF' + fm[:1] + b' '
                           + b'EA\x04\x00DSCA    ' + ds)
                    film_desc.append((fm.decode().strip(), gc.decode(), gd.decode(), ds.decode()))
                case['films'] = film_desc
                film_lr = LogiRec.LrTableRead(single_lr_file(fb))
                plotter = Plot.PlotReadLIS(film_lr, LogiRec.LrTableRead(single_lr_file(pres_bytes(curves))))
            except Exception as e:
                ctx.fail('PlotReadLIS raised %s: %s for %s' % (type(e).__name__, e, json.dumps(case)[:300]), case, sig=dict(kind='plot-config'))
                continue
            film_id = Mnem.Mnem(film)
            # "within its assigned track": the track a curve is scaled into is the one its TRAC string names
            try:
                cfg_ = plotter._filmCfg[film_id]
                for c_ in curves:
                    want_e = track_edges(cfg_, c_['trac'])
                    got_ = cfg_.interpretTrac(c_['trac'])[:2]
                    got_e = tuple(float(g_.convert('in').value) for g_ in got_)
                    if any(abs(a_ - b_) > 1e-6 for a_, b_ in zip(got_e, want_e)):
                        ctx.fail('track %s of film %s lies at %r inches; the whole tracks give %r' % (c_['trac'].decode(), film.decode().strip(), got_e, want_e),
                                 case, sig=dict(kind='track-edges'))
            except Exception as e:
                ctx.fail('track geometry of %s raised %s: %s' % (json.dumps(case)[:300], type(e).__name__, e), case, sig=dict(kind='plot-config'))
                continue
        else:
            uid = rng.choice(sorted(xml_formats)) if not ctx.quick else sorted(xml_formats)[pi % len(xml_formats)]
            names = rng.sample(xml_formats[uid], min(len(xml_formats[uid]), rng.randint(1, 3)))
            outs = [nm.encode().ljust(4) for nm in names]
            scales = [rng.choice([(0.0, 150.0), (0.25, 2048.0), (-80.0, 20.0), (6.0, 16.0)]) for _ in outs]
            case.update(xml_format=uid, outputs=names)
            try:
                plotter = Plot.PlotReadXML(uid)
            except Exception as e:
                ctx.fail('PlotReadXML(%r) raised %s: %s' % (uid, type(e).__name__, e), case, sig=dict(kind='plot-config'))
                continue
            film_id = uid
        profs = [dict(kind=rng.choice(profiles), absent=rng.random() < 0.5) for _ in outs]
        if not use_xml and pi % 8 in (0, 5):
            profs = [dict(kind=rng.choice(['ramp', 'spiky', 'ramp']), absent=rng.random() < 0.3) for _ in outs]
            profs[0] = dict(kind='offgap', absent=False)          # (every tier: off scale, then absent, on a curve without back-up)
        if not use_xml and pi % 8 == 2:
            profs[0] = dict(kind='offgap', absent=False)          # ... and on whatever back-up mode the first output's curves drew
        case['profiles'] = [(p['kind'], p['absent']) for p in profs]
        # the frames' X units and the units the plot range is asked in are independent
        xunits, runits = rng.choice([(b'FEET', b'FEET'), (b'FEET', b'FEET'), (b'.1IN', b'FEET'), (b'FEET', b'.1IN'), (b'.1IN', b'.1IN'), (b'M   ', b'M   ')])
        case.update(xunits=xunits.decode(), range_units=runits.decode())
        absent = rng.choice([-999.25, -999.25, -9999.0, 0.0])
        if absent != -999.25:
            # a value generated for the curve must not collide with the declared absent value
            profs = [dict(p_, kind='ramp' if p_['kind'] in ('constant', 'inside', 'tiny') and absent == 0.0 else p_['kind']) for p_ in profs]
        case['absent'] = absent
        data, xs, cols = build_log_pass(rng, outs, profs, scales, n, up, xunits, absent)
        cols = [[(absent if (v == absent) else v) for v in c_] for c_ in cols]
        f = File.FileRead(io.BytesIO(data), 'lp', keepGoing=False)
        idx = FileIndexer.FileIndex(f)
        lp = list(idx.genLogPasses())[0].logPass
        fp = os.path.join(wd, 'p%d.svg' % pi)
        ctx.case(('plot', pi), any(p['kind'] != 'inside' for p in profs))
        with plottrace.record_plot() as events:
            try:
                k_ = XUNITS[runits] / XUNITS[xunits]
                plotter.plotLogPassLIS(f, lp, EngVal.EngVal(xs[0] * k_, runits), EngVal.EngVal(xs[-1] * k_, runits), film_id, fp, frameStep=1, title='verif')
            except Exception as e:
                import traceback
                tb = traceback.extract_tb(e.__traceback__)[-1]
                ctx.fail('plotLogPassLIS raised %s: %s at %s:%d %s; %s' % (type(e).__name__, e, os.path.basename(tb.filename), tb.lineno, tb.line, json.dumps(case)[:400]), case,
                         sig=dict(kind='plot-raises', error=type(e).__name__, where='%s:%s' % (os.path.basename(tb.filename), tb.name)))
                continue
        if not os.path.exists(fp):
            if any(e['op'] == 'wrap' for e in events):
                ctx.fail('no SVG file written', case, sig=dict(kind='no-svg'))
            continue
        source = {o.decode().strip(): (xs, c, absent) for o, c in zip(outs, cols)}
        edges = None
        if not use_xml:
            edges = {}
            for c_ in curves:
                edges.setdefault(c_['outp'].decode().strip(), []).append(track_edges(plotter._filmCfg[film_id], c_['trac']))
        trs, geom = curve_traces(ctx, events, source, case, edges)
        for tr, m in trs:
            traces.append(tr)
            meta.append(m)
        check_svg(ctx, open(fp).read(), events, geom, case)
        os.unlink(fp)
        # the same LogPass object plotted again over a detail window (what a viewer does): the second plot is a plot like any other -
        # only the frames of ITS interval, every point inside ITS view box
        if not use_xml and n >= 20 and pi % 3 == 0:
            a_, b_ = n // 3, n // 3 + 4
            fp2 = os.path.join(wd, 'p%d_detail.svg' % pi)
            case2 = dict(case, detail=[xs[a_], xs[b_]])
            with plottrace.record_plot() as events2:
                try:
                    k_ = XUNITS[runits] / XUNITS[xunits]
                    plotter.plotLogPassLIS(f, lp, EngVal.EngVal(xs[a_] * k_, runits), EngVal.EngVal(xs[b_] * k_, runits), film_id, fp2, frameStep=1, title='verif')
                except Exception as e:
                    ctx.fail('second plotLogPassLIS of the same log pass over a detail window raised %s: %s; %s' % (type(e).__name__, e, json.dumps(case2)[:400]), case2,
                             sig=dict(kind='plot-raises', error=type(e).__name__, where='detail'))
                    continue
            if os.path.exists(fp2):
                src2 = {o.decode().strip(): (xs[a_:b_ + 1], c[a_:b_ + 1], absent) for o, c in zip(outs, cols)}
                trs2, geom2 = curve_traces(ctx, events2, src2, case2)
                for tr, m in trs2:
                    traces.append(tr)
                    meta.append(m)
                check_svg(ctx, open(fp2).read(), events2, geom2, case2)
                os.unlink(fp2)
            elif any(e['op'] == 'wrap' for e in events2):
                ctx.fail('no SVG file written for the detail window', case2, sig=dict(kind='no-svg'))
    # LAS input
    rows = '\n'.join('%.1f %.3f %.3f' % (1000 + i * 0.5, 50 + 10 * (i % 7), 8.5 + 0.1 * i) for i in range(30))
    text = ('~Version Information Section\nVERS. 2.0 : CWLS\nWRAP. NO : one line\n~Well Information Section\nSTRT.FT 1000.0 : start\nSTOP.FT 1014.5 : stop\n'
            'STEP.FT 0.5 : step\nNULL. -999.25 : null\n~Curve Information Section\nDEPT.FT : depth\nGR  .GAPI : gamma\nCALI.IN : caliper\n~A\n' + rows + '\n')
    ctx.case(('las-plot',), True)
    try:
        las = LASRead.LASRead(io.StringIO(text), 'verif')
        fp = os.path.join(wd, 'las.svg')
        Plot.PlotReadXML('Porosity_GR_3Track').plotLogPassLAS(las, las.x_axis_start, las.x_axis_stop, 'Porosity_GR_3Track', fp, frameStep=1, title='verif', plotHeader=False)
        if not os.path.exists(fp):
            ctx.fail('plotLogPassLAS wrote no SVG for a LAS file with GR and CALI', dict(), sig=dict(kind='las-no-plot'))
        else:
            ET.fromstring(open(fp).read().encode('utf-8'))
    except AttributeError as e:
        ctx.fail('LAS input cannot be plotted: plotLogPassLAS raised AttributeError: %s' % e, dict(), sig=dict(kind='las-plot-api', missing='hasOutpMnem' in str(e)))
    except Exception as e:
        ctx.fail('LAS input cannot be plotted: %s: %s' % (type(e).__name__, e), dict(), sig=dict(kind='las-plot-raises'))
    for i in (0, len(traces) // 2):
        if traces:
            ctx.sample(dict(meta=meta[i], events=traces[i][:6]))
    rej = ctx.validate_traces('PlotWrapTrace', 'PlotWrapTrace', traces, workers=16, cfg_consts={'Tol': '8', 'MaxCross': '4'}, timeout=3000, max_reject=40)
    for t, l, st in rej:
        ev = traces[t][l - 1] if l and l <= len(traces[t]) else None
        m = meta[t]
        gapped = bool(st.get('gap')) and ev is not None and ev.get('op') == 'sample' and len(ev.get('pts', [])) > 1
        ctx.fail('curve rejected by PlotWrapTrace at event %s: %s; state havePrev=%s xPrev=%s gap=%s; curve %s' % (
            l, json.dumps(ev)[:500], st.get('havePrev'), st.get('xPrev'), st.get('gap'), json.dumps(m)[:500]),
            dict(meta=m, event=ev, l=l, before=traces[t][max(0, l - 4):l - 1]), sig=dict(kind='trace', op=ev and ev.get('op'), drawn_across_gap=gapped))
    # XGrid.tla: the depth grid of the plots (growth beyond the listed properties; recorded, no verdict on C19)
    from .. import xgrid
    xg_mm = []
    try:
        xg_info = xgrid.run(ctx, xg_mm)
    except Exception as e:
        xg_info = dict(error='%s: %s' % (type(e).__name__, str(e)[:300]))
    xg_info['mismatches'] = xg_mm[:10]
    xg_info['mismatch_count'] = len(xg_mm)
    ctx.notes['x_grid'] = xg_info
    for m_ in xg_mm[:5]:
        print('EXTRA-MISMATCH (XGrid, no listed property): ' + m_[:400], file=__import__('sys').stderr)
    # FilmTrack.tla: the TRAC notation (growth; the track algebra above judges C19's statement, this binds the whole function)
    from .. import filmtrack
    ft_mm = []
    try:
        ft_info = filmtrack.run(ctx, ft_mm)
    except Exception as e:
        ft_info = dict(error='%s: %s' % (type(e).__name__, str(e)[:300]))
    ft_info['mismatches'] = ft_mm[:10]
    ft_info['mismatch_count'] = len(ft_mm)
    ctx.notes['film_track'] = ft_info
    for m_ in ft_mm[:5]:
        print('EXTRA-MISMATCH (FilmTrack, no listed property): ' + m_[:400], file=__import__('sys').stderr)
    ctx.rule = ('lattice: one case per (track, scale, value); plots: one case per generated plot (non-trivial: some output not entirely inside its '
                'scale); one trace per plotted curve')
    ctx.assumptions += ['LIS input with single-sample channels in code 68, X in FEET, .1IN or M with the plot range asked in the same or another unit; positions quantised to 1e-4 in (tolerance 8 units), x to 0.01 ft',
                        'logarithmic scale positions computed in double precision by the harness (tolerance 1e-7 widths)',
                        'scale edges and values exactly representable in code 68']
    ctx.explanation = ('TLC checks the wrap arithmetic and the polyline machine; the real transforms are replayed on the lattice and at extremes; '
                       'real plots recorded from the harness process and validated curve by curve as traces; SVG well-formed, points = recorded points')


def replay(ctx, path):
    run(ctx)
