"""C04 - DLIS frame arrays hold exactly the recorded values; sub-selection commutes.

1. TLC: DlisFrames.tla - populate as InitArrays (storage reused when the length is unchanged => stale cells) + one
   ReadFrame per selected record; every history of populate calls over slices / samples / all x channel requests:
   after each completed call the arrays are exactly the abstract answer (no stale cell, unrequested channels empty,
   first channel always present, returned count).
2. code -> spec: generated RP66V1 files (1..2 frame types interleaved in the file, channels of every fixed-length
   numeric representation code and several dimensions, empty data records, random physical layout) are indexed by the
   real LogicalIndex; histories of populate_frame_array calls on the SAME logical file and frame array are recorded:
   per call the returned count and, per channel, the record each row's values came from (values are unique per record,
   channel and element), validated by TLC against DlisFramesTrace.tla; dtype, shape and exact element values are compared
   with the recorded content; the index's frame numbers and X values are validated too.
"""
import io
import json
import struct

import numpy as np

from .. import repo
from ..gen import dlis as GD, dlislog as GL, bit as GB

LEVEL = 'model_checking'

DTYPE = {2: np.float32, 7: np.float64, 12: np.int8, 13: np.int16, 14: np.int32, 15: np.uint8, 16: np.uint16, 17: np.uint32, 5: np.float32, 6: np.float32}
RCSIZE = {2: 4, 7: 8, 12: 1, 13: 2, 14: 4, 15: 1, 16: 2, 17: 4, 5: 4, 6: 4}


def value_of(rc, r, c, e):
    """the value recorded for record r (0-based), channel c, element e: unique per r within (c, e), exactly representable"""
    if rc in (2, 7):
        return float(r) * 0.5 + c * 1024.0 + e * 0.125
    if rc == 5:
        return float(r) * 2.0 + c * 256.0 + e + 0.5
    if rc == 6:
        # VSINGL: odd and even exponents, both signs, fraction bits in all three fraction bytes
        return (-1.0 if (r + c) % 3 == 0 else 1.0) * (float(r) * 0.75 + c * 32.0 + e * 0.0078125 + 0.00048828125)
    if rc == 12:
        return (r % 100) - 60 + (e % 2)
    if rc == 15:
        return (r % 200) + (e % 3)
    if rc == 13:
        return r - 300 + c * 50 + e
    if rc == 16:
        return r + c * 500 + e
    if rc == 14:
        return r * 1000 - 70000 + c + e
    return r * 100000 + c * 7 + e            # 17


def record_of(rc, v, c, e):
    """inverse of value_of for the record index (None if v is not a value of (c, e))"""
    import math
    if isinstance(v, (float, np.floating)) and not math.isfinite(float(v)):
        return None
    if rc in (2, 7):
        r = (float(v) - c * 1024.0 - e * 0.125) / 0.5
    elif rc == 5:
        r = (float(v) - c * 256.0 - e - 0.5) / 2.0
    elif rc == 6:
        r = (abs(float(v)) - c * 32.0 - e * 0.0078125 - 0.00048828125) / 0.75
        if r == int(r) and r >= 0 and value_of(6, int(r), c, e) != float(v):
            return None
    elif rc == 12:
        r = int(v) + 60 - (e % 2)
    elif rc == 15:
        r = int(v) - (e % 3)
    elif rc == 13:
        r = int(v) + 300 - c * 50 - e
    elif rc == 16:
        r = int(v) - c * 500 - e
    elif rc == 14:
        r = (int(v) + 70000 - c - e) / 1000
    else:
        r = (int(v) - c * 7 - e) / 100000
    return int(r) if r == int(r) and r >= 0 else None


def enc(rc, v):
    if rc == 5:
        return GB.ibm_from_float(v)
    return GL.enc_value(rc, v)


def build(rng, quick, origin=None, big=False):
    ntypes = rng.choice([1, 1, 2])
    # origin reference and copy number of the object names (ORIGIN is a UVARI: 1, 2 or 4 bytes on file)
    oref = rng.choice([1, 2, 41, 127, 128, 300, 16383, 16384, 70000])
    copyno = rng.choice([0, 0, 1, 3])
    chans_all, frames = [], []
    types = []
    for t in range(ntypes):
        nch = rng.choice([1, 2, 3, 6])
        chs = []
        for c in range(nch):
            rc = rng.choice([2, 7]) if c == 0 else rng.choice([2, 7, 12, 13, 14, 15, 16, 17, 5, 6, 6])
            # (the first channel is the index: a scalar as a rule; now and then a frame type without an index whose first channel is a
            # short or a long array - a waveform of 100 samples is 400 / 800 bytes at the front of every data record)
            dims = rng.choice([[1]] * 8 + [[2], [100]]) if c == 0 else rng.choice([[1], [1], [2], [3], [2, 2], [2, 3]])
            chs.append(dict(o=oref, c=copyno, name=('T%dC%d' % (t, c)).encode(), long_name=b'long name %d' % c, rc=rc, units=b'm' if c == 0 else b'', dims=dims))
        if big and t == 0:
            # a waveform channel of 2100 doubles: every data record is longer than a visible record can be, so the file has visible
            # records of the maximum length 16384
            chs.append(dict(o=oref, c=copyno, name=b'T0WAVE', long_name=b'waveform', rc=7, units=b'', dims=[2100]))
        chans_all += chs
        types.append(dict(name=b'FT%d' % t, fc=0, channels=chs, n=rng.choice([1, 2, 5, 9, 30] if not quick else [1, 2, 5, 9])))
    if ntypes == 2 and rng.random() < 0.3:
        for t, ty in enumerate(types):          # two copies of one frame object name: two frame types
            ty['name'], ty['fc'] = b'MAIN', t
    # file order of data records: interleave the types, sprinkle empty records
    order = []
    for t, ty in enumerate(types):
        order += [t] * ty['n']
    rng.shuffle(order)
    recs = [dict(kind='E', type=0, enc=False), dict(kind='E', type=1, enc=False), dict(kind='E', type=3, enc=False), dict(kind='E', type=4, enc=False)]
    payloads = [GL.file_header(), origin or GL.origin(), GL.channel_eflr(rng.sample(chans_all, len(chans_all)) if rng.random() < 0.6 else chans_all), GL.frame_eflr([dict(o=oref, c=ty['fc'], name=ty['name'], channels=ty['channels']) for ty in types])]
    counters = [0] * ntypes
    frame_nos = [[] for _ in types]
    fno = [rng.choice([0, 0, 120, 16380]) for _ in types]       # frame numbers are UVARIs too
    for t in order:
        if rng.random() < 0.12:
            fno[t] += 1
            payloads.append(GL.iflr(types[t]['name'], fno[t], b'', o=oref, c=types[t]['fc']))          # an empty data record: no frame
            recs.append(dict(kind='I', type=0, enc=False))
        r = counters[t]
        counters[t] += 1
        fno[t] += 1
        frame_nos[t].append(fno[t])
        data = b''
        for c, ch in enumerate(types[t]['channels']):
            n = int(np.prod(ch['dims']))
            for e in range(n):
                data += enc(ch['rc'], value_of(ch['rc'], r, c, e))
        payloads.append(GL.iflr(types[t]['name'], fno[t], data, o=oref, c=types[t]['fc']))
        recs.append(dict(kind='I', type=0, enc=False))
    for rec, p in zip(recs, payloads):
        rec['len'] = len(p)
    vm = rng.choice([64, 256, 8192]) if not big else 16384
    lay = GD.random_layout(rng, recs, vm, style='fill' if big else None)
    data = GD.render(recs, lay, sul=GD.render_sul(1, vm), payloads=payloads).data
    return data, types, frame_nos


def run(ctx):
    repo.setup()
    from ..core import quiet_logging
    quiet_logging()
    from TotalDepth.RP66V1.core import LogicalFile
    from TotalDepth.common import Slice
    from .. import tlc
    rng = ctx.subrng('c04')
    raw_sels = '{' + ', '.join(['[kind |-> "all"]', '[kind |-> "sample", n |-> 1]', '[kind |-> "sample", n |-> 2]', '[kind |-> "sample", n |-> 7]'] +
                               ['[kind |-> "slice", a |-> %s, b |-> %s, c |-> %s]' % (a, b, c) for a in ('NoneV', '0', '1', '-2')
                                for b in ('NoneV', '2', '-1', '9') for c in ('NoneV', '1', '2', '3')] +
                               ['[kind |-> "slice", a |-> %s, b |-> %s, c |-> %s]' % (a, b, c) for a in ('NoneV', '3', '-1') for b in ('NoneV', '0', '-4') for c in ('-1', '-2')]) + '}'
    reqs = '{[all |-> TRUE, chans |-> {}], [all |-> FALSE, chans |-> {1}], [all |-> FALSE, chans |-> {2}], [all |-> FALSE, chans |-> {2,3}], [all |-> FALSE, chans |-> {}]}'
    ctx.tlc_check('MC_DlisFrames', 'DlisFrames', consts={'Selections': tlc.raw(raw_sels), 'Requests': tlc.raw(reqs)},
                  cfg_consts={'N': ctx.pick('4', '5'), 'NCh': '3', 'MaxN': '5', 'NoneV': 'NoneV'},
                  invariants=['NoStaleWhenIdle', 'RowsInRange', 'LengthsAgree', 'FirstAlways'], need_actions=['InitArrays', 'ReadFrame', 'Return'], timeout=900)
    from TotalDepth.RP66V1 import IndexPickle
    import os
    pdir = ctx.wdir('pickle')
    traces, cases, meta = [], [], []
    for fi in range(ctx.pick(250, 6000)):
        data, types, frame_nos = build(rng, ctx.quick, big=(fi % 100 == 1))
        persisted = (fi % 3 == 2)
        try:
            if persisted:
                # the index persisted by IndexPickle and read back must behave exactly like the fresh one
                pin = os.path.join(pdir, 'f.dlis')
                with open(pin, 'wb') as f_:
                    f_.write(data)
                res = IndexPickle.index_a_single_file(pin, os.path.join(pdir, 'o', 'f.dlis'), True)
                if res.exception or res.ignored:
                    ctx.fail('IndexPickle.index_a_single_file reports %r for a valid file' % (res,), dict(types=str(types)[:400]), sig=dict(kind='index-pickle'))
                    continue
                li = IndexPickle.unpickle(os.path.join(pdir, 'o', 'f.dlis.pkl'))
            else:
                li = LogicalFile.LogicalIndex(io.BytesIO(data))
            li.__enter__()
            lf = li.logical_files[0]
        except Exception as e:
            ctx.fail('LogicalIndex raised %s: %s' % (type(e).__name__, e), dict(types=str(types)[:400]), sig=dict(kind='index-exception'))
            continue
        for t, ty in enumerate(types):
            fa = lf.log_pass.frame_arrays[t]
            n = ty['n']
            nch = len(ty['channels'])
            tr = []
            m = dict(frame_type=t, records=n, channels=[(c['rc'], c['dims']) for c in ty['channels']], persisted_index=persisted)
            xax = lf.iflr_position_map[fa.ident]
            n0 = int(np.prod(ty['channels'][0]['dims']))
            if n0 == 1:
                xrecs = [record_of(ty['channels'][0]['rc'], xax[i].x_axis, 0, 0) for i in range(len(xax))]
            else:
                # an array-valued first channel: the index holds its mean (value_of: r / 2 + e / 8 for element e)
                xrecs = []
                for i in range(len(xax)):
                    q = (float(xax[i].x_axis) - 0.125 * (n0 - 1) / 2.0) / 0.5
                    xrecs.append(int(round(q)) if abs(q - round(q)) < 1e-3 and round(q) >= 0 else None)
            tr.append(dict(op='index', frames=len(xax), frameNos=[xax[i].frame_number for i in range(len(xax))], xrecs=[-1 if v is None else v for v in xrecs]))
            for call in range(ctx.pick(5, 9)):
                k = rng.random()
                if k < 0.6:
                    a, b = [rng.choice([None, rng.randint(-n - 1, n + 1)]) for _ in range(2)]
                    c = rng.choice([None, 1, 2, 3, n, -1, -2, -3])
                    if len(range(n)[slice(a, b, c)]) == 0:
                        continue
                    sel, selobj = dict(kind='slice', a=[] if a is None else [a], b=[] if b is None else [b], c=[] if c is None else [c]), Slice.Slice(a, b, c)
                elif k < 0.8:
                    ns = rng.choice([1, 2, 3, n, n + 3])
                    sel, selobj = dict(kind='sample', n=ns), Slice.Sample(ns)
                else:
                    sel, selobj = dict(kind='all'), None
                if rng.random() < 0.35:
                    req, chset = None, None
                else:
                    req = sorted(rng.sample(range(1, nch + 1), rng.randint(0, nch)))
                    chset = {ty['channels'][c - 1]['name'].decode() for c in req}
                    if rng.random() < 0.2:
                        chset.add('NOSUCH')
                case = dict(m, selection=sel, request=req)
                try:
                    ret = lf.populate_frame_array(fa, selobj, chset)
                except Exception as e:
                    ctx.fail('populate_frame_array raised %s: %s for %s' % (type(e).__name__, e, case), case, sig=dict(kind='populate-exception'))
                    break
                rows = []
                bad = None
                for c, ch in enumerate(ty['channels']):
                    arr = fa.channels[c].array
                    wanted = req is None or c == 0 or (c + 1) in req
                    if len(arr) and arr.dtype != DTYPE[ch['rc']]:
                        bad = 'channel %d dtype %s, representation code %d is %s' % (c, arr.dtype, ch['rc'], DTYPE[ch['rc']].__name__)
                    if len(arr) and tuple(arr.shape[1:]) != tuple(ch['dims']):
                        bad = 'channel %d shape %r, dimensions %r' % (c, arr.shape, ch['dims'])
                    rr = []
                    for i in range(len(arr)):
                        flat = arr[i].flatten()
                        recset = {record_of(ch['rc'], flat[e], c, e) for e in range(len(flat))}
                        r = recset.pop() if len(recset) == 1 else None
                        if r is not None and any(flat[e] != DTYPE[ch['rc']](value_of(ch['rc'], r, c, e)) for e in range(len(flat))):
                            r = None
                        rr.append(-1 if r is None else r)
                    rows.append(rr)
                tr.append(dict(op='populate', sel=sel, all=req is None, req=req or [], ret=int(ret), rows=rows))
                ctx.case(('populate', fi, t, call), sel['kind'] != 'all' or req is not None)
                if bad:
                    ctx.fail('populate_frame_array: %s; %s' % (bad, json.dumps(case)), case, sig=dict(kind='array'))
            traces.append(tr)
            cases.append(dict(n=n, nch=nch, frameNos=frame_nos[t]))
            meta.append(m)
        li.__exit__(None, None, None)
    for i in (0, len(traces) // 2):
        ctx.sample(dict(meta=meta[i], events=traces[i][:4]))
    rej = ctx.validate_traces('DlisFramesTrace', 'DlisFramesTrace', traces, payload_extra=dict(cases=cases), workers=16,
                              cfg_consts={'MaxN': '5', 'NoneV': 'NoneV'}, timeout=3000)
    for t, l, st in rej:
        ev = traces[t][l - 1] if l and l <= len(traces[t]) else None
        ctx.fail('populate history rejected by DlisFramesTrace at call %s: %s; frame type %s; earlier calls %s' % (
            l, json.dumps(ev)[:500], json.dumps(meta[t])[:200], json.dumps([dict(sel=e.get('sel'), req=e.get('req'), all=e.get('all')) for e in traces[t][1:l - 1]])[:400]),
            dict(meta=meta[t], event=ev, l=l), sig=dict(kind='trace', op=ev and ev.get('op')))
    ctx.rule = ('one case per populate call, several calls per frame array of one indexed file; non-trivial = a slice/sample or a '
                'channel request')
    ctx.assumptions += ['selections select >= 1 frame', 'fixed-length numeric representation codes 2, 5, 7, 12..17',
                        'recorded values are exactly representable and unique per record within a channel element']
    ctx.explanation = 'TLC checks populate histories incl. storage reuse; real populate histories validated as traces; values vs content'


def replay(ctx, path):
    run(ctx)
