"""C10 - LAS written by TotalDepth reads back as the same log.

1. TLC: LasWrite.tla - the three channel predicates (curve section, ~A heading, data rows) with the in-place
   addition of the X axis to the request give, for a fresh request, the same listing = X + requested channels in
   order (SameChannelsFirst), for every frame array and request in the bound.  (The history invariant
   SameChannelsAlways is checked too and its counterexample recorded: it concerns C11/C12, not this property.)
2. spec -> code: TLC evaluates the abstract listing Expected(array, request) on the whole bounded domain
   (LasWriteTable.tla); every row is replayed on write_curve_and_array_section_to_las with concrete numpy arrays
   (dtypes, dimensions, reductions, widths, formats, extreme values); the text is cut up by an independent splitter
   (three listings, values) and also read back by LASRead.
"""
import io
import json
import math
import os
from fractions import Fraction

import numpy as np

from .. import repo

LEVEL = 'model_checking'

DTYPES = ['float64', 'float32', 'int8', 'int16', 'int32', 'int64', 'uint8', 'uint16', 'uint32', 'uint64']
UNITS = {'X1': 'M', 'X2': '0.1in', 'A': 'ohm.m', 'B': '', 'C': 'API', 'ZZ': ''}          # units may contain dots


def values_for(rng, dtype, n):
    dt = np.dtype(dtype)
    if dt.kind == 'f':
        pool = [0.0, 1.0, -1.0, 0.5, 1234.5678, -9876.54321, 1e-7, 123456789012.25, -999.25, 3.14159265, 1e15, -2.5e-3, 99999.9995]
        # values around the last printed decimal of every format in use (between half a unit and one unit, just under half a unit)
        pool += [sg * m * 10.0 ** -k for k in (0, 1, 3, 6, 10) for m in (0.7, 0.95, 0.51, 0.4) for sg in (1, -1)]
        if dtype == 'float32':
            pool = [float(np.float32(v)) for v in pool if abs(v) < 1e30]
    elif dt.kind == 'i':
        info = np.iinfo(dt)
        lim = min(info.max, 2 ** 53)
        pool = [0, 1, -1, 7, -128, 127, max(info.min, -2 ** 53), lim, lim - 1, 12345 % (lim + 1)]
    else:
        info = np.iinfo(dt)
        lim = min(info.max, 2 ** 53)
        pool = [0, 1, 255, lim, lim - 1, 54321 % (lim + 1)]
    return [rng.choice(pool) for _ in range(n)]


def exact(v):
    return Fraction(int(v)) if isinstance(v, (int, np.integer)) else Fraction(float(v))


def reduce_exact(vals, method):
    """the abstract reduction on exact rationals"""
    fr = [exact(v) for v in vals]
    if method == 'first':
        return fr[0]
    if method == 'mean':
        return sum(fr) / len(fr)
    if method == 'min':
        return min(fr)
    if method == 'max':
        return max(fr)
    s = sorted(fr)
    n = len(s)
    return s[n // 2] if n % 2 else (s[n // 2 - 1] + s[n // 2]) / 2


def split_output(text):
    """independent splitter: returns (curve mnemonics+units, heading names, rows of text cells)"""
    curves, heading, rows = [], None, []
    mode = None
    for ln in text.split('\n'):
        if ln.startswith('~Curve'):
            mode = 'C'
            continue
        if ln.startswith('~A'):
            mode = 'A'
            heading = ln[2:].split()
            continue
        if ln.startswith('#') or not ln.strip():
            continue
        if mode == 'C':
            left, _, right = ln.partition(':')
            mnem, _, unit = left.partition('.')
            curves.append((mnem.strip(), unit.strip()))
        elif mode == 'A':
            rows.append(ln.split())
    return curves, heading, rows


def run(ctx):
    repo.setup()
    from ..core import quiet_logging
    quiet_logging()
    from TotalDepth.LAS.core import WriteLAS, LASRead
    from TotalDepth.common import LogPass, Slice
    rng = ctx.subrng('c10')
    consts = {'Names': frozenset(['X1', 'X2', 'A', 'B']), 'Foreign': 'ZZ'}
    mc = ctx.pick('3', '4')
    ctx.tlc_check('MC_LasWrite', 'LasWrite', consts=consts, cfg_consts={'MaxChannels': mc, 'MaxArrays': '1'},
                  invariants=['SameChannelsFirst'], need_actions=['Write'], timeout=900)
    rh = ctx.tlc_check('MC_LasWrite_hist', 'LasWrite', consts=consts, cfg_consts={'MaxChannels': '2', 'MaxArrays': '2'},
                       invariants=['SameChannelsAlways'], expect_ok=False, timeout=600)
    ctx.notes['history_counterexample_shared_request_set'] = [json.dumps({k: (sorted(v) if isinstance(v, frozenset) else v) for k, v in s.items()}, default=str)
                                                              for a, s in rh.trace]
    d = ctx.wdir('table')
    ft = os.path.join(d, 'rows.json')
    ctx.tlc_check('MC_LasWriteTable', 'LasWriteTable', consts=consts, cfg_consts={'MaxChannels': mc, 'MaxArrays': '1'},
                  env={'OUT_TABLE': ft}, workers=1, coverage=False)
    rows = json.load(open(ft))
    nrows = nbig = 0
    reps = ctx.pick(1, 8)            # thorough: every row of the table under several draws of dtype / shape / reduction / width / format
    for row in [r_ for r_ in rows for _ in range(reps)]:
        names, req, expected = row['array'], row['req'], row['expected']
        nrows += 1
        if ctx.quick and nrows % 2:
            continue
        # the model's name B stands for any mnemonic: also ones longer than the field width
        long_b = rng.choice(['B', 'B', 'LONGNAME_B9', 'B2345678901234567890123456789'])
        names, req, expected = ([long_b if n == 'B' else n for n in lst] for lst in (names, req, expected))
        UNITS[long_b] = UNITS['B']
        nfr = rng.choice([1, 2, 5])
        method = rng.choice(['first', 'mean', 'median', 'min', 'max'])
        width = rng.choice([2, 8, 16, 24])
        if len(expected) >= 2 and nbig < ctx.pick(2, 6):
            # long logs: a data section of several hundred kilobytes (past any block size a writer may buffer by)
            nbig += 1
            nfr, width = (4000 if nbig % 3 else 20000), 24
        fmt = rng.choice(['.0f', '.1f', '.3f', '.6f', '.10f'])
        dec = int(fmt[1:-1])
        fa = LogPass.FrameArray('verif', 'C10')
        src = {}
        for ci, nme in enumerate(names):
            dims = (1,) if ci == 0 else rng.choice([(1,), (1,), (3,), (2, 2), (4,), (1, 4), (1, 2, 2), (2, 1), (1, 1)])
            dtype = 'float64' if ci == 0 else rng.choice(DTYPES)
            ch = LogPass.FrameChannel(nme, nme + ' long name', UNITS[nme], dims, np.dtype(dtype))
            ch.init_array(nfr)
            count = int(np.prod(dims))
            for f in range(nfr):
                vals = [1000.0 + f * 2.0] if ci == 0 else values_for(rng, dtype, count)
                ch.array[f] = np.array(vals, dtype=dtype).reshape(dims)
                src[(nme, f)] = [ch.array[f].flatten()[j] for j in range(count)]
            fa.append(ch)
        # a frame array populated for the request only (FrameArray.init_arrays_partial, what the RP66V1 converter does): the channels
        # that are not going to be written hold no frames at all
        if req and nrows % 3 == 0:
            for ci, ch in enumerate(fa.channels):
                if ci > 0 and ch.ident not in req:
                    ch.init_array(0)
        out = io.StringIO()
        case = dict(names=names, request=req, expected=expected, method=method, width=width, fmt=fmt, frames=nfr,
                    dtypes={c.ident: str(c.array.dtype) for c in fa.channels}, dims={c.ident: c.dimensions for c in fa.channels})
        ctx.case(('row', nrows), len(req) > 0 and len(names) > 1)
        try:
            WriteLAS.write_curve_and_array_section_to_las(fa, nfr, method, Slice.Slice(), set(req), width, fmt, out)
            # the documented incremental use (curve section, heading, then the data): each call is given its own copy of the request,
            # so none may depend on what an earlier call did to the set it was given; the text must be the same
            out2 = io.StringIO()
            WriteLAS.write_curve_section_to_las(fa, set(req), out2)
            WriteLAS.write_array_section_header_to_las(fa, nfr, method, Slice.Slice(), set(req), width, out2)
            WriteLAS.write_array_section_data_to_las(fa, method, set(req), width, fmt, out2)
        except Exception as e:
            ctx.fail('write_curve_and_array_section_to_las raised %s: %s for %s' % (type(e).__name__, e, json.dumps(case)), case, sig=dict(kind='exception'))
            continue
        text = out.getvalue()
        if out2.getvalue() != text:
            a_, b_ = text.splitlines(), out2.getvalue().splitlines()
            k_ = next((i for i in range(min(len(a_), len(b_))) if a_[i] != b_[i]), min(len(a_), len(b_)))
            ctx.fail('LAS write: the incremental calls (curve section, heading, data, each with its own copy of the request) write %r where the '
                     'combined call writes %r (line %d); case %s' % (b_[k_] if k_ < len(b_) else None, a_[k_] if k_ < len(a_) else None, k_, json.dumps(case)[:500]),
                     case, sig=dict(kind='incremental'))
            continue
        case['text'] = text
        if nrows == 40:
            ctx.sample(case)
        curves, heading, drows = split_output(text)
        bad = None
        if [c[0] for c in curves] != expected:
            bad = 'curve section lists %r, specification Expected = %r' % ([c[0] for c in curves], expected)
        elif heading != expected:
            bad = '~A heading lists %r, specification Expected = %r' % (heading, expected)
        elif len(drows) != nfr:
            bad = '%d data rows for %d frames' % (len(drows), nfr)
        elif any(len(r) != len(expected) for r in drows):
            bad = 'data rows have %r columns, expected %d' % ([len(r) for r in drows], len(expected))
        elif [c[1] for c in curves] != [UNITS[n] for n in expected]:
            bad = 'curve units %r expected %r' % ([c[1] for c in curves], [UNITS[n] for n in expected])
        if not bad:
            for f in range(nfr):
                for ci, nme in enumerate(expected):
                    cell = drows[f][ci]
                    dt = fa[nme].array.dtype
                    want = reduce_exact(src[(nme, f)], method)
                    got = Fraction(cell)
                    d_ = 0 if dt.kind in 'iu' else dec
                    tol = Fraction(1, 2 * 10 ** d_)
                    if dt.kind == 'f' and method in ('mean', 'median'):
                        eps = Fraction(float(np.finfo(dt).eps))
                        tol += eps * len(src[(nme, f)]) * max(abs(exact(v)) for v in src[(nme, f)])
                    if dt.kind in 'iu' and method in ('mean', 'median'):
                        # numpy reduces integers in float64: rounding of at most n additions of values up to max|v| (cancellation
                        # of values near +-2^53 can leave an absolute error of a few units although the exact mean is small)
                        tol += Fraction(2.0 ** -52) * len(src[(nme, f)]) * max(abs(exact(v)) for v in src[(nme, f)]) + Fraction(1, 10 ** 6) * max(1, abs(want))
                    if abs(got - want) > tol:
                        bad = 'frame %d channel %s: printed %r, source (%s of %r) = %s, tolerance %s' % (
                            f, nme, cell, method, [str(v) for v in src[(nme, f)]], float(want), float(tol))
                        break
                if bad:
                    break
        if not bad:
            # and through the real reader
            full = ('~Version Information Section\nVERS. 2.0 : CWLS\nWRAP. NO : one line per step\n~Well Information Section\n'
                    'NULL. -999.25 : null\n' + text)
            try:
                las = LASRead.LASRead(io.StringIO(full), 'verif')
                fr = las.frame_array
                got_names = [c.ident for c in fr.channels]
                if got_names != expected:
                    bad = 'read back channels %r, expected %r' % (got_names, expected)
                elif [c.units for c in fr.channels] != [UNITS[n] for n in expected]:
                    bad = 'read back units %r' % ([c.units for c in fr.channels],)
                elif len(fr.x_axis.array) != nfr:
                    bad = 'read back %d frames, wrote %d' % (len(fr.x_axis.array), nfr)
                else:
                    for f in range(nfr):
                        for ci, nme in enumerate(expected):
                            v = fr.channels[ci].array[f][0]
                            if np.ma.is_masked(v):
                                v = -999.25
                            if float(v) != float(drows[f][ci]):
                                bad = 'read back %r for printed %r' % (v, drows[f][ci])
            except Exception as e:
                bad = 'LASRead of the written text raised %s: %s' % (type(e).__name__, e)
        if bad:
            ctx.fail('LAS write: %s; case %s' % (bad, json.dumps({k: v for k, v in case.items() if k != 'text'}, default=str)[:600]),
                     case, sig=dict(kind='write'))
    ctx.notes['rows_in_table'] = len(rows)
    ctx.rule = ('one case per (frame array, request) row of the TLC table (quick: every second row) with dtype/dimension/'
                'reduction/width/format drawn per case; non-trivial = non-empty request and >= 2 channels')
    ctx.assumptions += ['channel names without spaces/dots/colons; integer values within +-2^53 (the LAS reader holds float64)',
                        'finite values', 'field width >= 2 (the heading writes the first name in width - 2)', 'mean/median tolerance adds n*eps(dtype)*max|v| for the reduction itself']
    ctx.explanation = 'TLC design check of the three listing predicates; TLC table of Expected replayed with concrete arrays'


def replay(ctx, path):
    run(ctx)
