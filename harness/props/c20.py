"""C20 - File type identification recognises every supported format and never crashes.

1. TLC: FileType.tla - the ordered decision list over feature records; OwnType: no earlier entry shadows a valid
   file of a supported well-log format (with the stated 276-byte TIF exclusion, shown to be necessary).
2. spec -> code: files of every format and layout class from the generators of the other checks (RP66V1 with every
   SUL variant and physical layout; LIS plain / TIF / reversed TIF starting with a reel, tape or file header; LAS
   1.2 / 2.0 from TLC-enumerated layouts with leading comments; BIT; DAT) must be identified as their own type by
   binary_file_type and binary_file_type_from_path, independent of payload and size.
3. fault enumeration: truncation at every byte of the first 512 (then every 61st), bit flips and 0x00/0xFF
   overwrites over the first 512 bytes of one file per class, structured prefixes (printable EBCDIC cards, partial SUL,
   partial TIF) and random byte strings: the result is a documented code or '', nothing is raised, the file is left at
   position 0 and readable, each call within a generous wall-clock cap.
"""
import io
import struct
import os
import time

from .. import repo
from ..gen import dlis as GD, lis as GL, lislog as GLL, bit as GB, las as GLAS

LEVEL = 'model_checking'


def rp66_files(rng, n):
    out = []
    for i in range(n):
        vm = rng.choice([20, 128, 1024, 8192, 16384])
        recs = [dict(kind=rng.choice('EI'), type=rng.randrange(256), len=rng.choice([0, 12, 100, 2000]), enc=False) for _ in range(rng.choice([1, 3, 8]))]
        lay = GD.random_layout(rng, recs, vm)
        seq = rng.choice([1, 9, 10, 100, 1010, 9999])
        ident = rng.choice([b'', b'Default Storage Set', b'CUSTOMER #1 (test) ~'])
        sul = GD.render_sul(seq, vm, ident, rng.choice(['zero', 'blank']))
        data = GD.render(recs, lay, sul=sul).data
        wrap = rng.choice(['none', 'none', 'le', 'be'])
        if wrap == 'none':
            out.append(('RP66V1', data, dict(fmt='RP66V1', vm=vm, seq=seq)))
        else:
            # the same storage unit on a TIF-marked tape image: a marker before the label (next = 12 + 80) and before the rest
            fmt_ = '<3L' if wrap == 'le' else '>3L'
            body = data[80:]
            img = struct.pack(fmt_, 0, 0, 92) + data[:80] + struct.pack(fmt_, 0, 0, 92 + 12 + len(body)) + body
            img += struct.pack(fmt_, 1, 92, len(img) + 12) + struct.pack(fmt_, 1, len(img), len(img) + 24)
            out.append(('RP66V1t' if wrap == 'le' else 'RP66V1tr', img, dict(fmt='RP66V1', vm=vm, seq=seq, tif=wrap)))
    return out


def lis_files(rng, n):
    out = []
    for i in range(n):
        tif = rng.choice(['none', 'le', 'be'])
        first = rng.choice(['file', 'tape', 'reel'])
        lrs = []
        if first == 'reel':
            lrs += [GLL.reel_head(), GLL.tape_head(), GLL.file_head()]
        elif first == 'tape':
            lrs += [GLL.tape_head(), GLL.file_head()]
        else:
            lrs += [GLL.file_head()]
        for _ in range(rng.choice([0, 1, 4])):
            lrs.append(GLL.misc(rng.choice([232, 234, 224]), bytes(rng.randrange(256) for _ in range(rng.choice([2, 40, 700])))))
        long_ = i < 2
        if long_:
            # the first two: a logical record of some 150 physical records (any look-ahead limit of the detector falls inside it)
            tif = ['none', 'le'][i]
            lrs.append(GLL.misc(232, bytes(rng.randrange(256) for _ in range(3000))))
        lrs.append(GLL.file_tail())
        maxpay = rng.choice([20, 60, 126, 1020, 65000]) if not long_ else 20
        trailer = rng.choice([(0, 0, 0), (1, 1, 0), (1, 1, 1)])
        splits = [GL.split_greedy(len(x), maxpay) for x in lrs]
        layout = GL.layout_from_splits(splits, rng, trailer)
        first_len = 4 + layout[0]['n'] + 2 * sum(trailer)
        if tif != 'none' and first_len == 276:
            continue            # stated exclusion: shares the BIT signature
        if tif == 'be' and first_len + 12 in (0x100, 0x10000):
            continue
        pads = 0
        if tif != 'none' and rng.random() < 0.4:
            # records padded with nulls up to a minimum record size: the TIF marker's 'next' points past the padding
            for p_ in layout[:rng.choice([1, 1, 3, len(layout)])]:
                p_['pad'] = rng.choice([1, 2, 4, 6, 66, 130])
            pads = layout[0]['pad']
        data, _ = GL.render(lrs, layout, tif)
        out.append(({'none': 'LIS', 'le': 'LISt', 'be': 'LIStr'}[tif], data, dict(fmt='LIS', tif=tif, first=first, maxpay=maxpay, trailer=trailer, first_pad=pads)))
    return out


def las_files(rng, n):
    from . import c09
    out = []
    for i in range(n):
        vers, spelt = rng.choice([('1.2', '1.2'), ('2.0', '2.0'), ('1.2', '1.20'), ('2.0', '2.00'), ('2.0', '2.0'), ('1.2', '1.2')])    # the standards print 1.20 / 2.0
        nhdr = {'V': 2, 'W': rng.randint(1, 5), 'C': rng.choice([1, 3, 9]), 'P': rng.randint(0, 3)}
        nf = rng.choice([1, 4, 50])
        wrap = rng.random() < 0.4
        content = c09.make_content(rng, nhdr, nf, wrap, spelt)
        hist = []
        # lines before the version section: none, a few, or a banner of several hundred comment / blank lines (tens of kilobytes: 'the
        # answer does not depend on the file's ... size')
        for _ in range(rng.choice([0, 0, 1, 3]) if i % 4 != 3 else rng.choice([120, 400, 1500])):
            hist.append((rng.choice(['comment', 'blank', 'spaces']),))
        for s in 'VWCP':
            if s == 'P' and not nhdr['P']:
                continue
            hist.append(('head', s))
            for k in range(1, nhdr[s] + 1):
                if rng.random() < 0.1 and not (s == 'V' and k == 1):
                    hist.append(('comment',))
                hist.append(('hdr', s, k))
        hist.append(('head', 'A'))
        for f in range(1, nf + 1):
            if not wrap:
                hist.append(('data', f, 1, nhdr['C']))
            else:
                hist.append(('data', f, 1, 1))
                if nhdr['C'] > 1:
                    hist.append(('data', f, 2, nhdr['C']))
        text = c09.render(rng, content, hist)
        out.append(('LAS' + vers, text.encode('ascii'), dict(fmt='LAS', vers=vers, wrap=wrap)))
    return out


def bit_files(rng, n):
    from . import c13
    out = []
    for i in range(n):
        passes = []
        for p in range(rng.choice([1, 2])):
            nch = rng.choice([1, 3, 20])
            blocks = [rng.choice([1, 16])] * rng.choice([1, 3])
            passes.append(dict(names=['C%02d ' % c for c in range(nch)], start=1000.0, stop=900.0, spacing=0.25, unused=rng.choice([b'    ', b'    ', b'\x00\x00\x00\x00', b'\xff\xff\xff\xff', b'\x80\x01\xfe\x7f', b'OLD ']),
                               blocks=[[[c13.id_word(p + 1, bi + 1, c + 1, j + 1) for j in range(f)] for c in range(nch)] for bi, f in enumerate(blocks)]))
        out.append(('BIT', GB.render(passes), dict(fmt='BIT', passes=len(passes))))
    return out


def dat_files(rng, n):
    from . import c14
    out = []
    extra = ['WAC', 'BDIA', 'NPEN', 'MDIA']
    for i in range(n):
        names = rng.sample(extra, rng.randint(1, 4))
        decls = ['UTIM', 'DATE', 'TIME'] + names
        rng.shuffle(decls)
        hdr = ['UTIM', 'DATE', 'TIME'] + rng.sample(names, rng.randint(1, len(names)))
        st = dict(decls=decls, header=hdr, nrows=rng.choice([1, 2, 30]), corr=dict(kind='none', line=0))
        text, _, _ = c14.render(st, rng)
        out.append(('DAT', text.encode('ascii'), dict(fmt='DAT', rows=st['nrows'])))
    return out


def wide_dat_files(rng, n):
    """DAT files with many channels (real mud-log exports declare hundreds): long declaration sections and header lines, so
    that the header line and the first data row fall at every kind of offset (the answer must not depend on size)"""
    out = []
    for i in range(n):
        nch = rng.choice([30, 60, 100, 125, 140, 200, 246, 300, 420])
        names = ['C%03d' % k for k in range(nch)]
        dlen = rng.choice([4, 12, 25, 40])
        lines = ['UTIM Unix Time sec', 'DATE Date ddmmyy', 'TIME Time hhmmss']
        for nm in names:
            lines.append('%s %s %s' % (nm, ('channel %s ' % nm + 'x' * dlen)[:max(9, dlen)].strip(), rng.choice(['inch', 'g/cc', 'ppm', 'm/hr'])))
        lines.append(rng.choice([' ', '\t', '   ']).join(['UTIM', 'DATE', 'TIME'] + names))
        nrows = rng.choice([1, 2, 10])
        for r in range(nrows):
            lines.append(' '.join(['%d' % (1165665017 + 60 * r), '09Dec06', '11-50-%02d' % r] + [rng.choice(['0', '8.50', '-1.25', '1e3']) for _ in names]))
        text = '\n'.join(lines) + '\n'
        out.append(('DAT', text.encode('ascii'), dict(fmt='DAT', rows=nrows, channels=nch, header_at=len('\n'.join(lines[:3 + nch])) + 1)))
    return out


def run(ctx):
    repo.setup()
    from ..core import quiet_logging
    quiet_logging()
    from TotalDepth.util import bin_file_type as B
    rng = ctx.subrng('c20')
    ctx.tlc_check('MC_FileType', 'FileType', defs='ASSUME OwnType /\\ ExclusionIsReal /\\ AlwaysDocumented', coverage=False, timeout=600)
    codes = set(B.BINARY_FILE_TYPES_SUPPORTED)
    n = ctx.pick(150, 1200)
    files = rp66_files(rng, n) + lis_files(rng, n) + las_files(rng, n) + bit_files(rng, max(8, n // 4)) + dat_files(rng, n) + wide_dat_files(rng, max(12, n // 3))
    wd = ctx.wdir('files')
    slow = 0.0
    per_class = {}

    ncalls = [0]

    def identify(data, via_path=False):
        nonlocal slow
        import signal

        def _late(_s, _f):
            raise TimeoutError('identification still running after 15 s')
        old_h = signal.signal(signal.SIGALRM, _late)
        signal.alarm(15)
        try:
            return _identify(data, via_path)
        finally:
            signal.alarm(0)
            signal.signal(signal.SIGALRM, old_h)

    def _identify(data, via_path=False):
        nonlocal slow
        t0 = time.time()
        if via_path:
            p = os.path.join(wd, 'f.bin')
            with open(p, 'wb') as f:
                f.write(data)
            r = B.binary_file_type_from_path(p)
            os.remove(p)
            pos = 0
        else:
            f = io.BytesIO(data)
            # the caller may have looked at the file already (peeked at a few bytes, read it to the end, asked zipfile about it)
            ncalls[0] += 1
            entry = [0, 0, 16, len(data), 1][ncalls[0] % 5]
            f.read(min(entry, len(data)))
            r = B.binary_file_type(f)
            pos = f.tell()
            if f.read() != data[pos:]:
                raise AssertionError('file object no longer readable')
        slow = max(slow, time.time() - t0)
        return r, pos

    for i, (want, data, meta) in enumerate(files):
        ctx.case(('own', i), True)
        per_class.setdefault(want, data)
        try:
            got, pos = identify(data, via_path=(i % 3 == 0))
        except Exception as e:
            ctx.fail('binary_file_type raised %s: %s on a valid %s file %s' % (type(e).__name__, e, want, meta), dict(meta=meta, head=data[:64]),
                     sig=dict(kind='own-raise', fmt=meta['fmt']))
            continue
        if got != want or pos != 0:
            ctx.fail('a valid %s file is identified as %r (position after: %d); %s; first bytes %s' % (want, got, pos, meta, data[:40].hex()),
                     dict(meta=meta, head=data[:256]), sig=dict(kind='own-type', fmt=meta['fmt'], got=got))
    ctx.sample(dict(kind='own type', classes=sorted(per_class), example=files[0][2]))
    # ---- fault enumeration ----
    nf = 0

    def robust(data, what):
        nonlocal nf
        nf += 1
        try:
            got, pos = identify(data)
        except Exception as e:
            ctx.fail('binary_file_type raised %s: %s on %s (%d bytes, head %s)' % (type(e).__name__, e, what, len(data), data[:48].hex()),
                     dict(what=what, data=data[:4096]), sig=dict(kind='raise', exc=type(e).__name__))
            return
        if got != '' and got not in codes:
            ctx.fail('binary_file_type returned undocumented %r on %s' % (got, what), dict(what=what, data=data[:4096]), sig=dict(kind='code'))
        if pos != 0:
            ctx.fail('file left at position %d after identification of %s' % (pos, what), dict(what=what, data=data[:4096]), sig=dict(kind='position'))

    for want, data in sorted(per_class.items()):
        L = len(data)
        cuts = list(range(0, min(L, 512))) + list(range(512, L, 61))
        if ctx.quick:
            cuts = cuts[::2] + [0, 1, 11, 12, 13, 79, 80, 81, 91, 92, 93]
        for c in cuts:
            if c <= L:
                robust(data[:c], 'truncation of a %s file at byte %d' % (want, c))
        span = min(L, 512)
        idxs = range(span) if not ctx.quick else sorted(set(rng.sample(range(span), min(span, 200))) | set(range(min(span, 16))))
        for ix in idxs:
            for kind in ('bit0', 'bit7', 'zero', 'ff'):
                b = bytearray(data)
                b[ix] = {'bit0': b[ix] ^ 1, 'bit7': b[ix] ^ 0x80, 'zero': 0, 'ff': 0xFF}[kind]
                robust(bytes(b), '%s at byte %d of a %s file' % (kind, ix, want))
        ctx.case(('faults', want), True)
    # deep faults: LIS files with a DFSR and data records (the LIS detector builds a complete index), damaged at every byte
    from . import c11
    for k in range(ctx.pick(3, 12)):
        data, _passes, meta = c11.build_lis(rng, ctx)
        want = {'none': 'LIS', 'le': 'LISt'}[meta['tif']]
        ctx.case(('own-logpass', k), True)
        try:
            got, pos = identify(data)
            if got != want:
                ctx.fail('a valid %s file with a log pass is identified as %r; %s' % (want, got, meta), dict(meta=meta, head=data[:256]),
                         sig=dict(kind='own-type', fmt='LIS', got=got))
        except Exception as e:
            ctx.fail('binary_file_type raised %s: %s on a valid %s file %s' % (type(e).__name__, e, want, meta), dict(meta=meta, head=data[:64]),
                     sig=dict(kind='own-raise', fmt='LIS'))
        step = ctx.pick(2, 1)
        for ix in range(0, len(data), step):
            for kind in (('bit0', 'ff') if ctx.quick else ('bit0', 'bit7', 'zero', 'ff')):
                b = bytearray(data)
                b[ix] = {'bit0': b[ix] ^ 1, 'bit7': b[ix] ^ 0x80, 'zero': 0, 'ff': 0xFF}[kind]
                robust(bytes(b), '%s at byte %d of a %s file with a log pass (%d bytes)' % (kind, ix, want, len(data)))
        for c in range(0, len(data), ctx.pick(7, 1)):
            robust(data[:c], 'truncation of a %s file with a log pass at byte %d' % (want, c))
    # texts shaped like a DAT file (the DAT recogniser parses them) with out-of-range and malformed cells in every column
    ext = ['99999999999999999999999', '-99999999999999999', '1e400', '-1e400', 'nan', 'inf', '0', '1' * 400, '1_0', '+5', '1.5', '0x10', '2147483648',
           '-2147483649', '9' * 19, '1e', '.', '-', '99999999999999999999Dec06', '32Dec06', '0Dec06', '9Dec99999999999999999999', '99999999999-Dec-06',
           '9-Dec-99999999999999999', '99999999999999999999-50-17', '11-99999999999999999999-17', '11-50-99999999999999999999', '-1-50-17', '11-50',
           '11-50-17-3', '253402300800', '-62135596801']
    for t in range(ctx.pick(1200, 12000)):
        row = ['1165665017', '09Dec06', '11-50-17', '0']
        for k in rng.sample(range(4), rng.choice([1, 1, 2])):
            row[k] = rng.choice(ext)
        text = 'UTIM Unix Time sec\nDATE Date ddmmyy\nTIME Time hhmmss\nWAC Wits Activity Code unitless\nUTIM DATE TIME WAC\n%s\n' % ' '.join(row)
        if rng.random() < 0.3:
            text += '1165665077 09Dec06 11-51-17 1\n'
        robust(text.encode('ascii'), 'a DAT-shaped text with the data row %r' % (row,))
    ctx.case(('dat-extremes',), True)
    # LAS-shaped texts whose version line is off in some way: long runs of digits, dots, blanks, missing colon, missing value - the
    # recogniser's line patterns must say no (or yes) at once, whatever the run lengths
    runs = ['2', '2.0', '1.2', '20', '2' * 12, '2' * 30, '2' * 60, '1.' * 20, '.' * 40, '2.0' * 15, '9' * 200, '1' * 29 + 'x', ' ' * 80, '2 ' * 30]
    for t in range(ctx.pick(300, 3000)):
        ver = rng.choice(runs)
        tail = rng.choice([' : CWLS LOG ASCII STANDARD', ':', '', ' ', ' CWLS', ' : ' + 'x' * 300, '\t:\t'])
        head = rng.choice(['~Version Information Section', '~V', '~VERSION', '~v', '# c\n~V', '\n\n~V'])
        vers = rng.choice(['VERS.', 'VERS .', ' VERS.   ', 'VERS.\t', 'vers.'])
        text = '%s\n%s%s%s\nWRAP. NO : one line\n~A\n1 2\n' % (head, vers, ver, tail)
        robust(text.encode('ascii'), 'a LAS-shaped text with the version line %r' % (vers + ver + tail)[:80])
    ctx.case(('las-version-lines',), True)
    # structured prefixes and random strings
    ebc_printable = [b for b in range(256) if b in (0x40, 0x4b, 0x4c, 0x4d, 0x4e, 0x50, 0x5a, 0x5b, 0x5c, 0x5d, 0x5e, 0x60, 0x61, 0x6b, 0x6c, 0x6d, 0x6e, 0x6f,
                                                     0x7a, 0x7b, 0x7c, 0x7d, 0x7e, 0x7f) or 0x81 <= b <= 0x89 or 0x91 <= b <= 0x99 or 0xa2 <= b <= 0xa9
                     or 0xc1 <= b <= 0xc9 or 0xd1 <= b <= 0xd9 or 0xe2 <= b <= 0xe9 or 0xf0 <= b <= 0xf9]
    for t in range(ctx.pick(1500, 20000)):
        k = t % 6
        if k == 0:
            data = bytes(rng.choice(ebc_printable) for _ in range(3200)) + bytes(rng.randrange(256) for _ in range(rng.choice([0, 400])))
            what = '3200 printable EBCDIC bytes'
        elif k == 1:
            # cards starting with EBCDIC 'C' followed by digits or other printable characters
            cards = b''
            for c in range(40):
                two = rng.choice([b'\xf0\xf1', bytes([rng.choice(ebc_printable), rng.choice(ebc_printable)]), ('%02d' % (c + 1)).encode('cp500')])
                cards += b'\xc3' + two + bytes(rng.choice(ebc_printable) for _ in range(77))
            data, what = cards, 'EBCDIC card images'
        elif k == 2:
            sul = GD.render_sul(rng.choice([1, 10]), rng.choice([8192, 100]), b'x')
            data, what = sul[:rng.randint(0, 80)] + bytes(rng.randrange(256) for _ in range(rng.choice([0, 3, 200]))), 'partial storage unit label'
        elif k == 3:
            import struct
            data = struct.pack(rng.choice(['<3L', '>3L']), 0, 0, rng.choice([0, 12, 0x120, 0x5c, 70000, 2 ** 32 - 1])) + bytes(rng.randrange(256) for _ in range(rng.choice([0, 10, 276, 2000])))
            what = 'partial TIF marker'
        elif k == 4:
            data, what = bytes(rng.randrange(256) for _ in range(rng.choice([0, 1, 2, 11, 12, 80, 256, 3200, 8192]))), 'random bytes'
        else:
            data = bytes(rng.choice(b'~VERS. 2.0:\n#ab \t1') for _ in range(rng.choice([5, 60, 900])))
            what = 'random LAS-like text'
        robust(data, what)
    ctx.notes.update(valid_files=len(files), faults=nf, slowest_call_s=round(slow, 3))
    ctx.case(('random', 0), True)
    if slow > 20:
        ctx.fail('identification took %.1f s on one input (not prompt)' % slow, dict(slow=slow), sig=dict(kind='slow'))
    ctx.rule = ('own type: one case per generated valid file; faults: one case per damaged/random input (counted in faults); '
                'non-trivial: every file exercises the ordered list up to its own entry')
    ctx.assumptions += ['RP66V1 storage set identifiers are printable ASCII', 'DAT files have >= 1 data row', 'LIS files begin with a reel, '
                        'tape or file header; TIF files whose first record is 276 bytes are excluded (stated); reversed TIF excludes the '
                        'indistinguishable first markers 0x100 / 0x10000', 'promptly = under 20 s per call in this sandbox']
    ctx.explanation = 'TLC checks the decision list against format-derived valid sets; generated files of every format and systematic faults are replayed'


def replay(ctx, path):
    run(ctx)
