"""C06 - LIS log pass frame sets are exact; any sub-selection is a sub-matrix.

1. TLC: LisFrames.tla - the interpreter of frame-load event plans (seek / read / skip / extrapolate with a cursor
   inside the data record); TLC explores EVERY plan the interpreter accepts for a set of small cases and checks that
   such a plan loads only requested cells at their true byte positions, gives every row its true implied X, visits only
   records holding requested frames (CellsSound, XSound, CursorInside, OnlyVisited, CompleteIsRight), and that a
   complete load is reachable (the interpreter is not vacuous).
2. code -> spec: generated LIS files (DFSR with explicit or implied X, up/down, 1..5 channels of every supported
   representation code with samples and bursts, frames-per-record patterns with a short last record, random physical
   layout) are indexed and loaded by the real FileIndex / LogPass with sequences of (slice, channel subset) loads on the
   SAME LogPass; for every load the real event plan (LogPass._genFrameSetEvents), the rows, the implied X values and
   the seekLr targets observed on the file are validated by TLC against LisFramesTrace.tla; the loaded matrix is
   compared with the recorded values decoded by the reference decoders of RepCodes.tla.
"""
import io
import json
import math

from .. import repo
from ..gen import lis as GL, lislog as GLL, repcodes as RC
from ..tlaval import FrozenDict

LEVEL = 'model_checking'


def design_cases():
    fd = FrozenDict
    def recs(fr, x0, dx):
        out, b = [], 0
        for i, f in enumerate(fr):
            out.append(fd(frames=f, x0=x0 + b * dx, pos=100 * (i + 1)))
            b += f
        return tuple(out)
    return [
        fd(cs=(2, 4), ix=4, dx=60, recs=recs([3, 2], 1000, 60), sel=(1, 3, 4), want=frozenset([1, 2])),
        fd(cs=(2, 4), ix=4, dx=-5, recs=recs([2, 2, 1], 900, -5), sel=(0, 2, 4), want=frozenset([2])),
        fd(cs=(1, 2, 1), ix=0, dx=1, recs=recs([2, 2], 0, 1), sel=(1, 2), want=frozenset([1, 3])),
        fd(cs=(4,), ix=4, dx=10, recs=recs([4, 4, 4], 0, 10), sel=(0, 3, 6, 9), want=frozenset([1])),
    ]


def py_slice(a, b, c, n):
    return list(range(n))[slice(a, b, c)]


def f11_signature(pattern, sel):
    """known finding F11 applies: a Logical Record after the first loaded one whose first selected frame is not its frame 0"""
    seen = set()
    for i_, g_ in enumerate(sel):
        r_ = next(r for r in range(len(pattern)) if sum(pattern[:r]) <= g_ < sum(pattern[:r + 1]))
        if r_ not in seen:
            seen.add(r_)
            if i_ > 0 and g_ - sum(pattern[:r_]) > 0:
                return True
    return False


def f11_emulate(pattern, x0, dx, sel):
    """exactly the defective X values of F11 (only to recognise the listed finding)"""
    emu, seen = [], set()
    for i, g in enumerate(sel):
        r_ = next(r for r in range(len(pattern)) if sum(pattern[:r]) <= g < sum(pattern[:r + 1]))
        f0 = g - sum(pattern[:r_])
        rx0 = x0 + sum(pattern[:r_]) * dx
        if r_ not in seen:
            seen.add(r_)
            emu.append(float(rx0 + f0 * dx) if (i == 0 or f0 == 0) else emu[i - 1] + f0 * dx)
        else:
            emu.append(emu[i - 1] + (g - sel[i - 1]) * dx)
    return emu


def build_lrs(rng, ctx, cons=None, xunits=b'FEET', dx_menu=(1, 5, 60, 250, 1, 5, 60, 250, 0)):          # 0: a stationary measurement, every frame at one X
    """the logical records of one LIS logical file (head, optional table, DFSR, data records, tail) + what they hold"""
    nch = rng.choice([1, 2, 3, 5, 1, 2, 3, 5, 9, 12, 40])       # wide passes: channel indexes beyond 8 and 32
    indirect = rng.random() < 0.5
    up = rng.random() < 0.5
    dxa = rng.choice(list(dx_menu))
    dx = -dxa if up else dxa
    chans = []
    for c in range(nch):
        rc = rng.choice([49, 50, 56, 66, 68, 70, 73, 79])
        if c == 0 and not indirect:
            rc = rng.choice([68, 73])
        samples = 1 if (c == 0 and not indirect) else rng.choice([1, 1, 2, 4])
        bursts = 1 if (c == 0 and not indirect) else rng.choice([1, 1, 2])
        chans.append(dict(mnem=('CH%02d' % c).encode() if c else (b'DEPT' if not indirect else b'CH00'), units=(xunits if not indirect else b'FEET') if c == 0 else b'    ',
                          size=RC.SIZE[rc] * samples * bursts, samples=samples, rc=rc, nvals=samples * bursts))
    xrc = rng.choice([68, 73])
    blocks = {4: (1, 66, 1 if up else 255), 12: (4, 68, -999.25)}
    if indirect:
        blocks.update({13: (1, 66, 1), 14: (4, 65, xunits), 15: (1, 66, xrc), 8: (4, 68, float(dxa)), 9: (4, 65, xunits)})
    pattern = rng.choice([[3, 3, 3], [3, 3, 2], [1, 1, 1, 1], [4, 2], [1], [5], [7, 7, 7, 7, 3], [2, 2, 2, 2, 2, 2, 1], [16, 16, 5]])
    x0 = rng.choice([1000, 0, 12000, 500])
    if up:
        x0 += 100000
    lrs = [GLL.file_head()]
    kinds = [('lr', 128)]
    if (rng.random() < 0.5) if cons is None else cons:
        lrs.append(bytes([34, 0]) + b'IA\x04\x00TYPE    CONS' + b'\x00A\x04\x00MNEM    BS  ')
        kinds.append(('lr', 34))
    lrs.append(GLL.dfsr(blocks, chans))
    kinds.append(('lr', 64))
    g = 0
    cells = []       # cells[g][c] = list of values
    xs = []
    data_idx = []
    for r, f in enumerate(pattern):
        frames = []
        rx0 = x0 + g * dx
        for j in range(f):
            fb = b''
            row = []
            for c, ch in enumerate(chans):
                if c == 0 and not indirect:
                    xv = x0 + g * dx
                    by = RC.enc68(float(xv)) if ch['rc'] == 68 else xv.to_bytes(4, 'big', signed=True)
                    vals = [float(xv) if ch['rc'] == 68 else xv]
                else:
                    by = b''
                    vals = []
                    for _ in range(ch['nvals']):
                        w = RC.random_word(rng, ch['rc'])
                        by += w
                        vals.append(RC.dec(ch['rc'], w))
                fb += by
                row.append(vals)
            frames.append(fb)
            cells.append(row)
            xs.append(x0 + g * dx)
            g += 1
        xb = b''
        if indirect:
            xb = RC.enc68(float(rx0)) if xrc == 68 else rx0.to_bytes(4, 'big', signed=True)
        lrs.append(GLL.data_record(0, xb, frames))
        kinds.append(('data', r))
        data_idx.append(len(lrs) - 1)
        if rng.random() < 0.15 and r < len(pattern) - 1:
            lrs.append(GLL.misc(232, b'a comment between data records'))
            kinds.append(('lr', 232))
    lrs.append(GLL.file_tail())
    kinds.append(('lr', 129))
    return dict(lrs=lrs, kinds=kinds, chans=chans, indirect=indirect, dx=dx, x0=x0, pattern=pattern, cells=cells, xs=xs, data_idx=data_idx,
                ix=(4 if indirect else 0), xrc=xrc, up=up, nch=nch)


def build_file(rng, ctx):
    L = build_lrs(rng, ctx)
    lrs, kinds, chans, indirect, dx, x0, pattern, cells, xs, data_idx, xrc, up, nch = (L[k] for k in (
        'lrs', 'kinds', 'chans', 'indirect', 'dx', 'x0', 'pattern', 'cells', 'xs', 'data_idx', 'xrc', 'up', 'nch'))
    maxpay = rng.choice([16, 60, 200, 1020, 60000])
    tif = rng.choice(['none', 'le'])
    splits = [GL.random_split(rng, len(x), maxpay) for x in lrs]
    layout = GL.layout_from_splits(splits, rng, rng.choice([(0, 0, 0), (1, 1, 0)]))
    data, starts = GL.render(lrs, layout, tif)
    return dict(data=data, starts=starts, kinds=kinds, chans=chans, indirect=indirect, dx=dx, x0=x0, pattern=pattern, cells=cells, xs=xs,
                data_idx=data_idx, ix=(4 if indirect else 0), xrc=xrc, meta=dict(nch=nch, indirect=indirect, up=up, dx=dx, pattern=pattern,
                                                                                 rcs=[c['rc'] for c in chans], samples=[c['samples'] for c in chans],
                                                                                 sizes=[c['size'] for c in chans], tif=tif, maxpay=maxpay))


def index_replay(ctx, rng):
    """LisIndex.tla: TLC checks the indexer design against the abstract answer for every valid record sequence in the bound and
    writes the table of sequences; every row is rendered as a real file (random physical layout) and indexed by the real
    FileIndex: listed records at their true positions in order, log passes with true frame counts and first X."""
    import io
    import json
    import os
    from TotalDepth.LIS.core import File, FileIndexer
    cc = dict(MaxLen=ctx.pick('3', '4'), MaxFrames='2')
    ctx.tlc_check('MC_LisIndex', 'LisIndex', cfg_consts=cc, invariants=['ListedOK', 'PassesOK', 'NoDataLost'], need_actions=['Step'], timeout=3000)
    ft = os.path.join(ctx.wdir('lisindex'), 'rows.json')
    ctx.tlc_check('MC_LisIndexTable', 'LisIndexTable', cfg_consts=cc, env={'OUT_TABLE': ft}, workers=1, coverage=False, timeout=3000)
    rows = json.load(open(ft))
    TYPE = {'FH': 128, 'FT': 129, 'TH': 130, 'TT': 131, 'RH': 132, 'RT': 133, 'TAB': 34, 'MISC': 232, 'MARK': 137, 'UNK': 7}
    MAKE = {'FH': GLL.file_head, 'FT': GLL.file_tail, 'TH': GLL.tape_head, 'TT': GLL.tape_tail, 'RH': GLL.reel_head, 'RT': GLL.reel_tail}
    nrow = 0
    ntab = [0]
    for row in rows:
        nrow += 1
        if ctx.quick and nrow % 2 and len(row['passes']) == 0:
            continue
        recs = row['file']
        lrs = []
        passx = {}            # data type -> [next x, dx] of the DFSR in force
        first_x = {}          # position (1-based) of a data record -> X of its first frame
        tab_at = {}           # position of a table record -> (type, name)
        for pos, r in enumerate(recs, 1):
            k = r['k']
            if k in MAKE:
                lrs.append(MAKE[k]())
                if k in ('FH', 'FT', 'TH', 'TT', 'RH', 'RT'):
                    passx = {}
            elif k == 'TAB':
                # the three table record types (job identification 32, wellsite data 34, tool string info 39), each with its table name
                ntab[0] += 1
                ttype = (34, 32, 39)[ntab[0] % 3]          # every table type in turn (not drawn: each place of a table sees each type)
                tname = rng.choice([b'CONS', b'TOOL', b'OUTP', b'PRES', b'FILM'])
                tab_at[pos] = (ttype, tname)
                lrs.append(bytes([ttype, 0]) + b'IA\x04\x00TYPE    ' + tname + b'\x00A\x04\x00MNEM    BS  ')
            elif k in ('MISC', 'MARK', 'UNK'):
                lrs.append(GLL.misc(TYPE[k], b'' if k == 'MARK' else b'operator text'))
            elif k in ('DFSR0', 'DFSR1'):
                t = 0 if k == 'DFSR0' else 1
                up = rng.random() < 0.5
                chans = [dict(mnem=b'DEPT', units=b'FEET', size=4, samples=1, rc=68, nvals=1), dict(mnem=b'CH01', units=b'    ', size=4, samples=1, rc=68, nvals=1)]
                lrs.append(GLL.dfsr({4: (1, 66, 1 if up else 255), 12: (4, 68, -999.25)}, chans, iflr_type=t))
                passx[t] = [float(rng.choice([1000, 5000, 250]) + 100 * pos), -0.5 if up else 0.5]
            else:
                t = 0 if k == 'DATA0' else 1
                frames = []
                first_x[pos] = passx[t][0]
                for _ in range(r['f']):
                    frames.append(RC.enc68(passx[t][0]) + RC.enc68(float(rng.randint(-1000, 1000))))
                    passx[t][0] += passx[t][1]
                lrs.append(GLL.data_record(t, b'', frames))
        maxpay = rng.choice([16, 60, 1020])
        tif = rng.choice(['none', 'le'])
        splits = [GL.random_split(rng, len(x), maxpay) for x in lrs]
        data, starts = GL.render(lrs, GL.layout_from_splits(splits, rng, rng.choice([(0, 0, 0), (1, 1, 0)])), tif)
        case = dict(records=[(r['k'], r['f']) for r in recs], tif=tif, maxpay=maxpay)
        ctx.case(('index', nrow), len(row['passes']) > 0)
        try:
            f = File.FileRead(io.BytesIO(data), 'verif', keepGoing=False)
            idx = FileIndexer.FileIndex(f)
        except Exception as e:
            ctx.fail('indexing the record sequence %s raised %s: %s' % (case['records'], type(e).__name__, e), case, sig=dict(kind='index-seq-exception'))
            continue
        got = [(e.tell, e.lrType) for e in idx._idx]
        want_listed = [(starts[p - 1], tab_at[p][0] if p in tab_at else TYPE[recs[p - 1]['k']]) for p in row['listed']]
        got_listed = [g for g in got if g[1] in (128, 129, 130, 131, 132, 133, 34, 32, 39)]
        want_names = [(starts[p - 1], tab_at[p][1]) for p in row['listed'] if p in tab_at]
        got_names = [(e.tell, getattr(e, 'name', None)) for e in idx._idx if e.lrType in (34, 32, 39)]
        bad = None
        if got_listed != want_listed:
            bad = 'headers/trailers/tables listed as %r, the file has %r' % (got_listed, want_listed)
        elif got_names != want_names:
            bad = 'tables listed with the names %r, the file has %r' % (got_names, want_names)
        elif [g[0] for g in got] != sorted(g[0] for g in got):
            bad = 'index entries are not in file order: %r' % (got,)
        else:
            lps = [e for e in idx._idx if isinstance(e, FileIndexer.IndexLogPass)]
            if [e.tell for e in lps] != [starts[p['pos'] - 1] for p in row['passes']]:
                bad = 'log passes found at %r, DFSR records are at %r' % ([e.tell for e in lps], [starts[p['pos'] - 1] for p in row['passes']])
            else:
                for e, p in zip(lps, row['passes']):
                    lp = e.logPass
                    if lp.totalFrames != p['frames']:
                        bad = 'log pass at record %d: %d frames indexed, %d recorded' % (p['pos'], lp.totalFrames, p['frames'])
                        break
                    if p['frames'] and float(lp.xAxisFirstVal) != first_x[p['first']]:
                        bad = 'log pass at record %d: first X %r, recorded %r' % (p['pos'], lp.xAxisFirstVal, first_x[p['first']])
                        break
        if bad:
            ctx.fail('LIS index of the record sequence %s: %s' % (case['records'], bad), case, sig=dict(kind='index-seq'))
    ctx.notes['index_sequences_replayed'] = nrow


def planner_replay(ctx):
    """LisPlan.tla: the frame-set planner transcribed; TLC checks every plan in the bound against the abstract interpreter
    (PlanOK) and exports every case with its plan; the real FrameSetPlan.genEvents is compared with it and, where it differs, its own
    plan is judged by the same abstract interpreter (LisPlanJudge)."""
    import json
    import os
    import types
    from ..tlc import raw
    from TotalDepth.LIS.core import Type01Plan
    cc = dict(MaxCh='3', MaxStart=ctx.pick('2', '3'), MaxStop=ctx.pick('4', '5'), MaxStep='3')
    consts = dict(SizeMenu=raw('{1, 2}' if ctx.quick else '{1, 2, 4}'), IndrMenu=raw('{0, 4}'))
    ctx.tlc_check('MC_LisPlan', 'LisPlan', consts=consts, cfg_consts=cc, defs='ASSUME AllPlansOK', coverage=False, timeout=3000)
    ft = os.path.join(ctx.wdir('lisplan'), 'rows.json')
    ctx.tlc_check('MC_LisPlanTable', 'LisPlanTable', consts=consts, cfg_consts=cc, env={'OUT_TABLE': ft}, workers=1, coverage=False, timeout=3000)
    rows = json.load(open(ft))
    differing = []
    for ri, row in enumerate(rows):
        dfsr = types.SimpleNamespace(ebs=types.SimpleNamespace(recordingMode=1 if row['indr'] else 0, depthRepCode=68 if row['indr'] else 0),
                                     dsbBlocks=[types.SimpleNamespace(size=z) for z in row['S']])
        ctx.case(('plan', ri), row['step'] > 1 or len(row['chs']) < len(row['S']))
        try:
            plan = Type01Plan.FrameSetPlan(dfsr)
            got = [dict(t=e[0], siz=e[1], fr=-1 if e[2] is None else e[2], c0=-1 if e[3] is None else e[3], c1=-1 if e[4] is None else e[4])
                   for e in plan.genEvents(slice(row['start'], row['stop'], row['step']), list(row['chs']))]
        except Exception as e:
            ctx.fail('FrameSetPlan.genEvents raised %s: %s for %s' % (type(e).__name__, e, json.dumps({k: row[k] for k in row if k != 'plan'})), row, sig=dict(kind='planner-exception'))
            continue
        if got != row['plan']:
            differing.append((row, got))
    # a plan that differs from the transcription is judged by the abstract statement (TLC, LisPlanJudge), not by equality
    if differing:
        fin, fout = os.path.join(ctx.wdir('lisplan'), 'given.json'), os.path.join(ctx.wdir('lisplan'), 'verdicts.json')
        json.dump([dict(S=r_['S'], indr=r_['indr'], start=r_['start'], stop=r_['stop'], step=r_['step'], chs=r_['chs'], plan=g_) for r_, g_ in differing], open(fin, 'w'))
        ctx.tlc_check('MC_LisPlanJudge', 'LisPlanJudge', consts=consts, cfg_consts=cc, env={'IN_PLANS': fin, 'OUT_TABLE': fout}, workers=1, coverage=False, timeout=3000)
        verdicts = json.load(open(fout))
        sound = 0
        for (row, got), ok in zip(differing, verdicts):
            if ok:
                sound += 1
                continue
            k = next((i for i in range(min(len(got), len(row['plan']))) if got[i] != row['plan'][i]), min(len(got), len(row['plan'])))
            ctx.fail('FrameSetPlan.genEvents(slice(%d,%d,%d), %r) on channel sizes %r, indirect %d does not read exactly the requested cells at their '
                     'offsets (abstract interpreter of LisPlan.tla); first difference from the planned events at %d: %r, planned %r' % (
                         row['start'], row['stop'], row['step'], row['chs'], row['S'], row['indr'], k, got[k] if k < len(got) else None,
                         row['plan'][k] if k < len(row['plan']) else None), dict(row=row, got=got), sig=dict(kind='planner'))
        ctx.notes['planner_plans_differing_but_sound'] = sound
    ctx.notes['planner_cases_replayed'] = len(rows)


def run(ctx):
    repo.setup()
    from ..core import quiet_logging
    quiet_logging()
    from TotalDepth.LIS.core import File, FileIndexer, LogPass
    rng = ctx.subrng('c06')
    index_replay(ctx, ctx.subrng('c06-index'))
    planner_replay(ctx)
    ctx.tlc_check('MC_LisFrames', 'LisFrames', consts={'Cases': frozenset(design_cases())},
                  invariants=['CellsSound', 'XSound', 'CursorInside', 'OnlyVisited', 'CompleteIsRight'], timeout=900)
    rv = ctx.tlc_check('MC_LisFrames_reach', 'LisFrames', consts={'Cases': frozenset(design_cases()[:1])}, invariants=['NeverComplete'],
                       expect_ok=False, timeout=600)
    if rv.ok():
        ctx.vacuity.append('no complete load is reachable in LisFrames: the interpreter is vacuous')
    traces, cases, meta = [], [], []
    for fi in range(ctx.pick(250, 2000)):
        F = build_file(rng, ctx)
        total = sum(F['pattern'])
        try:
            f = File.FileRead(io.BytesIO(F['data']), 'verif', keepGoing=False)
            idx = FileIndexer.FileIndex(f)
            lps = list(idx.genLogPasses())
        except Exception as e:
            ctx.fail('indexing a generated LIS file raised %s: %s; %s' % (type(e).__name__, e, F['meta']), F['meta'], sig=dict(kind='index-exception'))
            continue
        if len(lps) != 1:
            ctx.fail('%d log passes found, 1 written; %s' % (len(lps), F['meta']), F['meta'], sig=dict(kind='index'))
            continue
        lp = lps[0].logPass
        recs = tuple(dict(frames=n, x0=F['x0'] + sum(F['pattern'][:r]) * F['dx'], pos=F['starts'][F['data_idx'][r]]) for r, n in enumerate(F['pattern']))
        index_expected = [[F['starts'][i], k[1]] for i, k in enumerate(F['kinds']) if k[0] == 'lr']
        got_entries = [[e.tell, e.lrType] for e in idx._idx]
        seeks = []
        orig_seek = f.seekLr

        def traced_seek(off, _o=orig_seek, _s=seeks):
            _s.append(off)
            return _o(off)
        f.seekLr = traced_seek
        shared_list = None
        for li in range(ctx.pick(4, 8)):
            a = rng.randrange(0, total)
            b = rng.randint(a + 1, total)
            c = rng.choice([1, 1, 2, 3, 4, 7])
            sl = slice(a, b, c) if rng.random() < 0.85 else None
            sel = py_slice(a, b, c, total) if sl is not None else list(range(total))
            nch = len(F['chans'])
            if rng.random() < 0.4:
                chl = None
            else:
                chl = sorted(rng.sample(range(nch), rng.choice([1, 2, 3, rng.randint(1, nch), rng.randint(1, nch)]) if nch > 3 else rng.randint(1, nch)))
                if rng.random() < 0.25:
                    chl = rng.sample(chl, len(chl)) + ([chl[0]] if rng.random() < 0.3 else [])       # any order, a repeat: still a set of channels
                if rng.random() < 0.3:
                    if shared_list is None:
                        shared_list = list(chl)
                    chl = shared_list            # the same list object passed again (the loader must not leak into it)
            want_in = None if chl is None else sorted(set(chl))
            del seeks[:]
            case = dict(F['meta'], slice=[a, b, c] if sl is not None else None, channels=want_in)
            try:
                lp.setFrameSet(f, sl, chl)
                fs = lp.frameSet
                loaded = list(fs.genExtChIndexes())
                sl_used = sl or slice(0, total, 1)
                events = list(lp._genFrameSetEvents(sl_used, loaded))
                frames = fs.frames
                xvals = [float(fs.xAxisValue(i)) for i in range(fs.numFrames)]
            except Exception as e:
                ctx.fail('LogPass.setFrameSet raised %s: %s for %s' % (type(e).__name__, e, case), case, sig=dict(kind='load-exception'))
                break
            want = list(range(nch)) if want_in is None else sorted(set(want_in) | (set() if F['indirect'] else {0}))
            tr = []
            if li == 0:
                tr.append(dict(op='index', entries=got_entries, total=lp.rle.totalFrames(), firstx=int(lp.xAxisFirstVal),
                               lastx=int(lp.xAxisLastVal) if lp.xAxisLastVal is not None else -1))
            for ty, siz, fr, cf, ct in events:
                if ty == 'seekLr':
                    tr.append(dict(op='seek', pos=siz))
                elif ty == 'read':
                    tr.append(dict(op='read', size=siz, row=fr + 1, cf=-1 if cf is None else cf, ct=-1 if ct is None else ct))
                elif ty == 'skip':
                    tr.append(dict(op='skip', size=siz))
                elif ty == 'extrapolate':
                    tr.append(dict(op='extrapolate', n=siz, row=fr + 1))
            # known finding F11: with an implied X, a Logical Record after the first whose first selected frame is not its
            # frame 0 gets its X extrapolated from the previous loaded row.  Cases with that signature are judged on X by
            # the emulation below (exactly the defective values => KNOWN-FINDING, anything else => violation), not by TLC.
            f11_sig = F['indirect'] and f11_signature(F['pattern'], sel)
            tr.append(dict(op='result', rows=len(xvals), x=[int(v) if v == int(v) else -12345678 for v in xvals], seeks=list(seeks),
                           judgex=not f11_sig))
            traces.append(tr)
            cases.append(dict(cs=[c_['size'] for c_ in F['chans']], ix=F['ix'], dx=F['dx'], recs=list(recs), sel=sel, want=[c_ + 1 for c_ in want],
                              index=index_expected))
            meta.append(case)
            ctx.case(('load', fi, li), len(sel) > 1 and (c > 1 or want_in is not None))
            # the matrix itself against the recorded values (reference decoders of RepCodes.tla)
            bad = None
            if loaded != want:
                bad = 'channels loaded %r, requested (with X) %r' % (loaded, want)
            elif frames.shape[0] != len(sel):
                bad = '%d rows loaded, slice selects %d' % (frames.shape[0], len(sel))
            else:
                for i, g in enumerate(sel):
                    exp = [v for c_ in want for v in F['cells'][g][c_]]
                    got = [float(v) for v in frames[i]]
                    if len(exp) != len(got) or any(float(e_) != g_ for e_, g_ in zip(exp, got)):
                        bad = 'row %d (frame %d): loaded %r, recorded %r' % (i, g, got[:8], exp[:8])
                        break
                    if xvals[i] != float(F['xs'][g]) and not f11_sig:
                        bad = 'row %d (frame %d): X %r, true X %r' % (i, g, xvals[i], F['xs'][g])
                        break
                    # the same values through the accessors: by (channel, sample, burst) - LIS-79 order: bursts fastest -
                    # and as the channel's value vector
                    if i in (0, len(sel) - 1) or (i + fi) % 3 == 0:
                        for c_ in want:
                            ch_ = F['chans'][c_]
                            ns, nb_ = ch_['samples'], ch_['nvals'] // ch_['samples']
                            rec_ = F['cells'][g][c_]
                            try:
                                if fs.numSamples(c_, 0) != ns or fs.numBursts(c_, 0) != nb_:
                                    bad = 'channel %d: %d samples x %d bursts reported, recorded %d x %d' % (c_, fs.numSamples(c_, 0), fs.numBursts(c_, 0), ns, nb_)
                                    break
                                for sa_ in range(ns):
                                    for bu_ in range(nb_):
                                        v_ = float(fs.value(i, c_, 0, sa_, bu_))
                                        if v_ != float(rec_[sa_ * nb_ + bu_]):
                                            bad = 'row %d (frame %d) channel %d sample %d burst %d: value() gives %r, recorded %r' % (
                                                i, g, c_, sa_, bu_, v_, rec_[sa_ * nb_ + bu_])
                                            break
                                    if bad:
                                        break
                                if not bad:
                                    vec = [float(v) for v in fs.frame_channel_sub_channel_values(i, c_, 0)]
                                    if vec != [float(v) for v in rec_]:
                                        bad = 'row %d (frame %d) channel %d: values %r, recorded %r' % (i, g, c_, vec[:8], rec_[:8])
                            except Exception as e:
                                bad = 'row %d channel %d: accessor raised %s: %s' % (i, c_, type(e).__name__, e)
                            if bad:
                                break
                        if bad:
                            break
                if not bad and f11_sig:
                    # emulate the defect exactly
                    emu = f11_emulate(F['pattern'], F['x0'], F['dx'], sel)
                    if xvals == [float(F['xs'][g]) for g in sel]:
                        pass                                    # the defect is gone: fine
                    elif xvals == emu:
                        ctx.fail('implied X wrong after a record change with a stepped slice: %r, true %r' % (xvals[:6], [F['xs'][g] for g in sel][:6]),
                                 case, sig=dict(kind='implied-x-record-change'))
                    else:
                        bad = 'implied X %r is neither the true X %r nor the known defect %r' % (xvals[:8], [F['xs'][g] for g in sel][:8], emu[:8])
            if bad:
                ctx.fail('LIS frame load: %s; %s' % (bad, json.dumps(case)[:500]), case,
                         sig=dict(kind='load', indirect=F['indirect'], xwrong=': X ' in bad, step_gt_1=(c > 1 and sl is not None)))
            if shared_list is not None and chl is shared_list and sorted(set(shared_list)) != want_in:
                pass    # the loader appended the X axis to the caller's list: tolerated (the result is still judged above)
    for i in (0, len(traces) // 2):
        if traces:
            ctx.sample(dict(meta=meta[i], events=traces[i][:10]))
    rej = ctx.validate_traces('LisFramesTrace', 'LisFramesTrace', traces, payload_extra=dict(cases=cases), workers=16, timeout=3000,
                              consts={'Cases': frozenset()})
    for t, l, st in rej:
        ev = traces[t][l - 1] if l and l <= len(traces[t]) else None
        ctx.fail('LIS frame load plan/result rejected by LisFramesTrace at event %s: %s; interpreter state rec=%s cur=%s x=%s; %s' % (
            l, json.dumps(ev)[:300], st.get('rec'), st.get('cur'), st.get('x'), json.dumps(meta[t])[:400]),
            dict(meta=meta[t], event=ev, l=l, prior=traces[t][max(0, l - 6):l - 1]), sig=dict(kind='trace', op=ev and ev.get('op')))
    ctx.rule = ('one case per load (slice, channel subset) on a generated log pass, several loads per LogPass object; '
                'non-trivial = >= 2 rows and a step > 1 or a channel subset')
    ctx.assumptions += ['slices are 0 <= start < stop <= frames, step >= 1 (the API takes no open-ended or negative slices)',
                        'X values and spacing are integers (exact in codes 68/73); implied X uses the same units for spacing and depth',
                        'code 50 words use exponent fields 0..30', 'evenly spaced frames']
    ctx.explanation = 'TLC checks the plan interpreter over all accepted plans; real plans, rows, X and seeks validated as traces; matrix vs content'


def replay(ctx, path):
    run(ctx)
