"""C03 - DLIS logical files and their tables decode to what was encoded.

1. TLC: DlisEflr.tla - the component grammar of an explicitly formatted record (template attributes ordinary or
   invariant with any subset of characteristics; objects with overriding characteristics, absent attributes, trailing
   omission) and the parse machine; TableIsResolve for every content in the bound.  DlisLogical.tla - splitting of the
   record sequence into logical files at FILE-HEADER records, encrypted records skipped (SplitOK).
2. spec -> code: one implementation test per terminal state: the content is encoded by an independent encoder with
   concrete values (representation codes rotate through all supported scalar and compound codes, counts 0..3, units),
   decoded by the real ExplicitlyFormattedLogicalRecord and compared cell by cell with the specification's Resolve
   (which source each of count / code / units / value comes from, or absent).  Record-kind sequences enumerated by TLC
   are rendered as whole files (random physical layout, encrypted records included) and indexed by the real
   LogicalIndex.
"""
import io
import json

from .. import repo
from ..gen import dlis as GD, dlislog as GL
from ..tlaval import FrozenDict

LEVEL = 'model_checking'

VALS = {2: [1.5, -0.25, 153.0, 0.0], 7: [1e-3, 2.5, -1e300, 0.0], 12: [-128, 5, 127, 0], 13: [-300, 7, 0, -32768], 14: [-70000, 2147483647, 0, -2147483648], 15: [255, 0], 16: [65535, 256, 0],
        17: [4000000000, 1, 0, 4294967295], 18: [0, 127, 128, 16383, 16384], 19: [b'', b'ID', b'LONGER-IDENT.1'], 20: [b'', b'some text', b'x' * 200],
        5: [1.0, -118.625, 0.0, 0.5], 6: [1.0, 4.0, -2.0, 0.5, 0.0, -1024.0, 0.25], 22: [0, 1, 127, 128, 70000],
        21: [(1987, 0, 4, 19, 21, 20, 15, 620), (2021, 2, 12, 31, 23, 59, 59, 999)], 23: [(1, 0, b'CH1'), (300, 2, b'')],
        24: [(b'CHANNEL', (1, 0, b'X')), (b'', (0, 0, b'Y'))], 26: [0, 1], 27: [b'm/s', b'', b'0.1 in']}
CODES = sorted(VALS)
# (ISINGL values are handed to the encoder as their four bytes; VSINGL values are powers of two, on which every reading of the format agrees)
IBM5 = {1.0: bytes.fromhex('41100000'), -118.625: bytes.fromhex('c276a000'), 0.0: bytes(4), 0.5: bytes.fromhex('40800000')}


def raw(rc, vals):
    return [IBM5[v] for v in vals] if rc == 5 and vals is not None else vals
COUNTS = [1, 2, 3, 0, 1, 2, 3, 0, 1, 2, 130, 300]


def norm_value(rc, v):
    """decoded value -> comparable python value"""
    if rc == 21:
        return (v.year, v.tz, v.month, v.day, v.hour, v.minute, v.second, v.millisecond)
    if rc == 23:
        return (v.O, v.C, v.I)
    if rc == 24:
        return (v.T, (v.N.O, v.N.C, v.N.I))
    return v


class Rot:
    def __init__(self, rng):
        self.rng = rng
        self.i = rng.randrange(len(CODES))

    def code(self):
        self.i = (self.i + 1) % len(CODES)
        return CODES[self.i]

    def values(self, rc, n):
        return [self.rng.choice(VALS[rc]) for _ in range(n)]


def concretize(st, rot, rng):
    """returns (bytes, expected) for a model state of DlisEflr"""
    nt = len(st['tmpl'])
    t_conc = []
    out = GL.set_component(b'VERIF-SET', rng.choice([None, b'SETNAME', b'']), role=rng.choice(['SET', 'SET', 'RDSET', 'RSET']))
    for c, ta in enumerate(st['tmpl']):
        has = set(ta['has'])
        count = rng.choice(COUNTS) if 'C' in has else None       # (counts are UVARIs: 130 and 300 need two bytes)
        rc = rot.code() if 'R' in has else None
        units = rng.choice([b'm', b'ft/s', b'']) if 'U' in has else None
        erc, ecnt = (rc if rc is not None else 19), (count if count is not None else 1)
        vals = rot.values(erc, ecnt) if 'V' in has else None
        out += GL.attr_component(ta['role'], ['L'] + sorted(has), label=b'ATTR%d' % c, count=count, rc=rc, units=units, values=raw(erc, vals), value_rc=erc)
        t_conc.append(dict(count=ecnt, rc=erc, units=units if units is not None else b'', value=vals, role=ta['role']))
    expected = []
    for o, row in enumerate(st['objs']):
        name = (1, o % 3, b'OBJ%d' % o)
        out += GL.object_component(*name)
        erow = []
        for c, cell in enumerate(row):
            tc = t_conc[c]
            if cell['k'] in ('none', 'omitted'):
                erow.append(dict(kind='template', **{k: tc[k] for k in ('count', 'rc', 'units', 'value')}))
                continue
            if cell['k'] == 'absent':
                out += bytes([GL.ROLE['ABSATR']])
                erow.append(dict(kind='absent'))
                continue
            has = set(cell['has'])
            count = rng.choice(COUNTS) if 'C' in has else None
            rc = rot.code() if 'R' in has else None
            units = rng.choice([b'kg', b'', b'us/ft']) if 'U' in has else None
            erc = rc if rc is not None else tc['rc']
            ecnt = count if count is not None else tc['count']
            eunits = units if units is not None else tc['units']
            vals = rot.values(erc, ecnt) if 'V' in has else None
            out += GL.attr_component('ATTRIB', sorted(has), count=count, rc=rc, units=units, values=raw(erc, vals), value_rc=erc)
            erow.append(dict(kind='cell', count=ecnt, rc=erc, units=eunits, value=vals if vals is not None else tc['value']))
        expected.append((name, erow))
    return out, t_conc, expected


def check_eflr(EFLR, File, lr_bytes, t_conc, expected):
    e = EFLR.ExplicitlyFormattedLogicalRecord(5, File.LogicalData(lr_bytes))
    if e.set.type != b'VERIF-SET':
        return 'set type %r' % e.set.type
    if len(e.template) != len(t_conc):
        return 'template has %d attributes, encoded %d' % (len(e.template), len(t_conc))
    for c, tc in enumerate(t_conc):
        ta = e.template[c]
        got = (ta.label, ta.count, ta.rep_code, ta.units, None if ta.value is None else [norm_value(ta.rep_code, v) for v in ta.value])
        want = (b'ATTR%d' % c, tc['count'], tc['rc'], tc['units'], tc['value'])
        if got != want:
            return 'template attribute %d decoded as %r, encoded %r' % (c, got, want)
    if len(e.objects) != len(expected):
        return '%d objects decoded, %d encoded' % (len(e.objects), len(expected))
    for o, (name, erow) in enumerate(expected):
        obj = e.objects[o]
        if (obj.name.O, obj.name.C, obj.name.I) != name:
            return 'object %d name %r, encoded %r' % (o, obj.name, name)
        if len(obj.attrs) != len(erow):
            return 'object %d has %d attributes, template has %d' % (o, len(obj.attrs), len(erow))
        for c, ec in enumerate(erow):
            a = obj.attrs[c]
            if ec['kind'] == 'absent':
                if not (a is None or a.component_descriptor.is_absent_attribute):
                    return 'object %d column %d encoded absent, decoded as %s' % (o, c, a)
                continue
            if a is None:
                return 'object %d column %d decoded as None, encoded %r' % (o, c, ec)
            got = (a.count, a.rep_code, a.units, None if a.value is None else [norm_value(a.rep_code, v) for v in a.value])
            want = (ec['count'], ec['rc'], ec['units'], ec['value'])
            if got != want:
                return 'object %d column %d decoded (count, code, units, value) = %r, encoded %r' % (o, c, got, want)
    if e.logical_data_consumed != len(lr_bytes):
        return 'consumed %d of %d bytes' % (e.logical_data_consumed, len(lr_bytes))
    return ''


def run(ctx):
    repo.setup()
    from ..core import quiet_logging
    quiet_logging()
    from TotalDepth.RP66V1.core import File, LogicalFile
    from TotalDepth.RP66V1.core.LogicalRecord import EFLR
    rng = ctx.subrng('c03')
    rot = Rot(rng)
    fs = frozenset
    menu_small = fs([fs(), fs(['V']), fs(['R', 'V']), fs(['C', 'R', 'U', 'V']), fs(['U']), fs(['C'])])
    menu_tiny = fs([fs(), fs(['V']), fs(['C', 'R', 'U', 'V'])])
    # (NO = 0: a set with a template and no object - a table without rows)
    configs = [('2', '1', menu_small), ('3', '1', menu_tiny), ('2', '0', menu_small)] if ctx.quick else [('2', '1', menu_small), ('3', '1', menu_tiny), ('2', '2', menu_tiny), ('3', '0', menu_small)]
    ntests = 0
    for nt, no, menu in configs:
        r, states = ctx.tlc_dump('MC_DlisEflr_%s_%s' % (nt, no), 'DlisEflr', consts={'HasMenu': menu}, cfg_consts={'NT': nt, 'NO': no},
                                 invariants=['TableIsResolve', 'RowsInOrder'], deadlock=True, timeout=2400,
                                 need_actions=['ReadTAttr', 'StartObj', 'SkipInvariant', 'ReadOAttr', 'EndObj'] if no != '0' else ['ReadTAttr'])
        for st in states:
            if st['phase'] != 'done':
                continue
            ntests += 1
            tm = [dict(role=t['role'], has=sorted(t['has'])) for t in st['tmpl']]
            ob = [[dict(k=c['k'], has=sorted(c.get('has', []))) for c in row] for row in st['objs']]
            case = dict(template=tm, objects=ob)
            first_inv = next((i for i, t in enumerate(tm) if t['role'] == 'INVATR'), None)
            inv_before_ordinary = first_inv is not None and any(t['role'] == 'ATTRIB' for t in tm[first_inv + 1:])
            no_components = any(all(c['k'] in ('none', 'omitted') for c in row) for row in ob)
            ctx.case(('eflr', nt, no, ntests), any(c['k'] != 'present' or c['has'] != ['V'] for row in ob for c in row))
            try:
                by, t_conc, expected = concretize(dict(tmpl=tm, objs=ob), rot, rng)
                bad = check_eflr(EFLR, File, by, t_conc, expected)
            except Exception as e:
                bad = 'ExplicitlyFormattedLogicalRecord raised %s: %s' % (type(e).__name__, e)
                by = b''
            if bad:
                sig = dict(kind='eflr', invariant_before_ordinary=inv_before_ordinary, object_without_components=no_components)
                ctx.fail('EFLR decode: %s; content %s; bytes %s' % (bad, json.dumps(case)[:500], by.hex()[:200]), dict(case, bytes=by.hex()), sig=sig)
            if ntests == 17:
                ctx.sample(dict(case, bytes=by.hex()))
    ctx.notes['eflr_tests'] = ntests
    # ---- logical files ----
    r, states = ctx.tlc_dump('MC_DlisLogical', 'DlisLogical', cfg_consts={'MaxRecs': ctx.pick('5', '6')}, invariants=['SplitOK', 'NoBad'],
                             deadlock=True, timeout=1200, need_actions=['Step'])
    nseq = 0
    for st in states:
        if st['i'] != len(st['recs']) + 1:
            continue
        nseq += 1
        if ctx.quick and nseq % 2:
            continue
        kinds = list(st['recs'])
        recs, payloads = [], []
        chans = [dict(name=b'DEPT', long_name=b'Depth', rc=2, units=b'm', dims=[1]), dict(name=b'GR', long_name=b'Gamma', rc=2, units=b'api', dims=[1])]
        have_frame = False
        for k in kinds:
            if k == 'FH':
                p, typ, kind, enc = GL.file_header(len(recs) + 1), 0, 'E', False
                have_frame = False
            elif k == 'OR':
                p, typ, kind, enc = GL.origin(), 1, 'E', False
            elif k == 'EF':
                if not have_frame and rng.random() < 0.5:
                    have_frame = True        # at most one CHANNEL set per logical file (the indexer supports one)
                    p = GL.channel_eflr(chans) if rng.random() < 0.5 else GL.simple_eflr(b'PARAMETER', [(b'VALUES', 2, None, None)], [((1, 0, b'P1'), [[1.5]])])
                    typ = 3 if p.startswith(GL.set_component(b'CHANNEL')) else 5
                else:
                    # (now and then a table too long for one visible record, so that visible records of the maximum length occur)
                    descr = b'tool' if rng.random() < 0.85 else bytes(65 + (i_ * 7) % 26 for i_ in range(17000))
                    p, typ = GL.simple_eflr(b'TOOL', [(b'DESCRIPTION', 20, None, None)], [((1, 0, b'T%d' % len(recs)), [[descr]])]), 5
                kind, enc = 'E', False
            elif k == 'IF':
                p, typ, kind, enc = b'', 0, 'I', False       # an empty IFLR body is skipped by the indexer
                p = GL.obname(1, 0, b'NOFRAME') + GL.uvari(1)
            elif k == 'XE':
                p, typ, kind, enc = bytes(rng.randrange(256) for _ in range(rng.choice([12, 20, 64]))), rng.choice([0, 3, 5]), 'E', True
            else:
                p, typ, kind, enc = bytes(rng.randrange(256) for _ in range(rng.choice([12, 30]))), 0, 'I', True
            recs.append(dict(kind=kind, type=typ, len=len(p), enc=enc))
            payloads.append(p)
        vm = rng.choice([128, 1024, 8192, 16384])
        big_ = any(r_['len'] > 16000 for r_ in recs)
        if big_:
            vm = 16384
        for rec in recs:
            if rec['enc'] and not GD.enc_len_ok(rec['len'], vm - 8):
                rec['enc'] = False
        lay = GD.random_layout(rng, recs, vm, style='fill' if big_ else None)
        data = GD.render(recs, lay, sul=GD.render_sul(1, vm), payloads=payloads).data
        case = dict(kinds=kinds)
        ctx.case(('logical', nseq), kinds.count('FH') > 1 or 'XE' in kinds or 'XI' in kinds)
        want_files = []
        for n, (k, rec) in enumerate(zip(kinds, recs)):
            if k == 'FH':
                want_files.append([])
            if k in ('FH', 'OR', 'EF') and not rec['enc']:
                want_files[-1].append(n)
        try:
            with LogicalFile.LogicalIndex(io.BytesIO(data)) as li:
                got_files = []
                for lf in li.logical_files:
                    got_files.append([e.lrsh_position.lrsh_position for e in lf.eflrs])
                idx_pos = [e.position.lrsh_position for e in li._logical_record_index.lr_pos_desc]
                got_files = [[idx_pos.index(p) for p in f] for f in got_files]
                types_ok = all(lf.eflrs[0].eflr.set.type == b'FILE-HEADER' and lf.eflrs[1].eflr.set.type == b'ORIGIN' for lf in li.logical_files)
        except Exception as e:
            ctx.fail('LogicalIndex raised %s: %s for record kinds %s' % (type(e).__name__, e, kinds), case, sig=dict(kind='logical-exception'))
            continue
        if got_files != want_files or not types_ok:
            ctx.fail('logical files %r, specification split %r for record kinds %s' % (got_files, want_files, kinds), case, sig=dict(kind='logical'))
    ctx.notes['logical_sequences'] = nseq
    ctx.rule = ('EFLR: one test per terminal state of DlisEflr.tla; logical files: one per conformant record-kind sequence '
                '(quick: every second); non-trivial = some cell is not a plain value / several files or encrypted records')
    ctx.assumptions += ['an absent cell may be decoded as None or as an attribute whose descriptor is ABSATR',
                        'a FILE-HEADER is followed by an ORIGIN (ignoring encrypted records)',
                        'rep codes used: ' + ', '.join(str(c) for c in CODES)]
    ctx.explanation = 'TLC checks the parse machine against Resolve; every terminal state is one decode test with rotated rep codes'


def replay(ctx, path):
    run(ctx)
