"""C11 - Conversion to LAS keeps exactly the selected frames, channels and values.

1. TLC: ToLas.tla - the converters' pipeline (select rows, well section, columns, shared request set) with the design
   choices as constants; TLC says which combinations refine ToLasAbs for every selector x pass length in the bound and
   every short sequence of passes with overlapping channel names.  The combinations the code uses must refine; the
   combinations it used before the repairs (Slice.last()+1 as the exclusive stop, STOP from Slice.last()) must NOT
   (TLC's counterexamples are kept in the evidence).
2. code -> spec: generated RP66V1 (1..2 logical files x 1..2 frame arrays), LIS (1..2 log passes, direct and implied X)
   and BIT (1..3 passes) files are converted by the real single_*_to_las functions under (selector x channel request x
   reduction x width x format); every output file is split by an independent reader, projected onto the source (rows
   by unique X, columns by name, printed STRT/STOP/STEP to scaled integers) and the run is validated by TLC against
   ToLasTrace.tla / ToLasAbs.tla.  Values are compared with the recorded content within the print precision and every
   output must be accepted by the real LASRead with the same shape.  Foreign-format files must be ignored (file gate).
"""
import io
import json
import math
import os
import shutil
from fractions import Fraction

import numpy as np

from .. import repo
from ..gen import dlis as GD, dlislog as GL, bit as GB, lis as GLP
from . import c04, c06, c10, c13

LEVEL = 'model_checking'
NOX = -987654321          # "no number" in the projected events (far from anything a generated file holds)


def _prod(d):
    n = 1
    for x in d:
        n *= x
    return n


# ----------------------------------------------------------------------------- sources
def dlis_value(rc, r, c, e):
    """the value recorded in an RP66V1 channel: as in C04, except that a VSINGL channel (never the index) also holds exact powers of
    two of both signs (zero fraction field: the hidden leading bit alone)"""
    if rc == 6 and c > 0 and (r + c + e) % 3 == 0:
        return (1.0 if r % 2 == 0 else -1.0) * 2.0 ** ((r + e) % 9 - 3)
    return c04.value_of(rc, r, c, e)


def build_dlis(rng, origin_kw=None):
    nlf = rng.choice([1, 1, 2])
    recs, payloads, passes = [], [], []
    for lf in range(nlf):
        ntypes = rng.choice([1, 1, 2])
        xnames = [b'DEPT', b'TIME'] if lf == 0 else [b'INDX', b'ETIM']
        types, chans_all = [], []
        for t in range(ntypes):
            nch = rng.choice([1, 2, 3, 5])
            chs = []
            for c in range(nch):
                # the index channel: a float, or an integer (a depth in mm as ULONG, a counter as UNORM): either may run up or down
                rc = rng.choice([2, 7, 2, 7, 14, 16, 17, 13]) if c == 0 else rng.choice([2, 7, 12, 13, 14, 15, 16, 17, 5, 6])
                dims = [1] if c == 0 else rng.choice([[1], [1], [2], [3], [2, 2]])
                name = xnames[t] if c == 0 else b'C%d%d%d' % (lf, t, c)
                chs.append(dict(name=name, long_name=b'long name %d' % c, rc=rc, units=b'm' if c == 0 else b'', dims=dims))
            if lf == 1 and nch > 1 and rng.random() < 0.5:
                chs[rng.randrange(1, nch)]['name'] = b'DEPT' if t == 0 else b'TIME'   # the name of an earlier pass's X axis
            chans_all += chs
            types.append(dict(name=b'FT%d' % t, channels=chs, n=rng.choice([1, 2, 3, 5, 9, 14]), up=rng.random() < 0.4))
        order = []
        for t, ty in enumerate(types):
            order += [t] * ty['n']
        rng.shuffle(order)
        # a PARAMETER table whose values differ from file to file (the ORIGIN does not): it ends up in the LAS parameter section
        ptab = GL.simple_eflr(b'PARAMETER', [(b'LONG-NAME', 20, None, None), (b'VALUES', 20, None, None)],
                              [((1, 0, b'RIG'), [[b'Rig name'], [b'RIG #%d' % rng.randrange(10 ** 6)]]), ((1, 0, b'BS'), [[b'Bit size'], [b'%d' % rng.randrange(100)]])])
        recs += [dict(kind='E', type=0, enc=False), dict(kind='E', type=1, enc=False), dict(kind='E', type=5, enc=False), dict(kind='E', type=3, enc=False),
                 dict(kind='E', type=4, enc=False)]
        payloads += [GL.file_header(seq=lf + 1), GL.origin_full(**(origin_kw or {})), ptab,
                     GL.channel_eflr(rng.sample(chans_all, len(chans_all)) if rng.random() < 0.6 else chans_all),
                     GL.frame_eflr([dict(name=ty['name'], channels=ty['channels']) for ty in types])]
        counters = [0] * ntypes
        for t in order:
            i_ = counters[t]
            r = types[t]['n'] - 1 - i_ if types[t]['up'] else i_           # an up log: the index decreases from record to record
            counters[t] += 1
            data = b''
            for c, ch in enumerate(types[t]['channels']):
                for e in range(_prod(ch['dims'])):
                    data += c04.enc(ch['rc'], dlis_value(ch['rc'], r, c, e))
            payloads.append(GL.iflr(types[t]['name'], i_ + 1, data))
            recs.append(dict(kind='I', type=0, enc=False))
        for t, ty in enumerate(types):
            chs = ty['channels']
            rmap = [ty['n'] - 1 - i if ty['up'] else i for i in range(ty['n'])]
            xfloat = chs[0]['rc'] in (2, 7)
            passes.append(dict(key='_%d_%s.las' % (lf, ty['name'].decode()), names=[c['name'].decode() for c in chs], n=ty['n'], Q=2 if xfloat else 1,
                               xq=[int(c04.value_of(chs[0]['rc'], r_, 0, 0) * (2 if xfloat else 1)) for r_ in rmap],
                               kinds=['f' if c['rc'] in (2, 5, 6, 7) else 'i' for c in chs],
                               f32=[c['rc'] in (2, 5, 6) for c in chs],
                               cells=[[[dlis_value(ch['rc'], r_, c, e) for e in range(_prod(ch['dims']))] for c, ch in enumerate(chs)]
                                      for r_ in rmap]))
    for rec, p in zip(recs, payloads):
        rec['len'] = len(p)
    vm = rng.choice([256, 8192])
    lay = GD.random_layout(rng, recs, vm)
    data = GD.render(recs, lay, sul=GD.render_sul(1, vm), payloads=payloads).data
    return data, passes, dict(fmt='RP66V1', logical_files=nlf, passes=[(p['key'], p['n'], p['names']) for p in passes])


def build_lis(rng, ctx):
    npass = rng.choice([1, 1, 2, 3])
    lrs, passes, metas = [], [], []
    for k in range(npass):
        # the X axis may be recorded in a unit other than the one the LAS well section is written in (.1IN -> FEET, CM -> M):
        # rows stay in the recorded unit, STRT / STOP / STEP are in the "optical" unit
        xunits, wellmult, dx_menu = rng.choice([(b'FEET', 1, (1, 5, 60, 250)), (b'FEET', 1, (1, 5, 60, 250)), (b'.1IN', 120, (60, 120, 600)),
                                                (b'CM  ', 100, (25, 50, 100)), (b'M   ', 1, (1, 5))])
        L = c06.build_lrs(rng, ctx, cons=None, xunits=xunits, dx_menu=dx_menu)
        lrs += L['lrs']
        n = sum(L['pattern'])
        if L['indirect']:
            names = ['X'] + [c['mnem'].decode() for c in L['chans']]
            cells = [[[L['xs'][i]]] + [list(L['cells'][i][c]) for c in range(L['nch'])] for i in range(n)]
        else:
            names = [c['mnem'].decode() for c in L['chans']]
            cells = [[list(L['cells'][i][c]) for c in range(L['nch'])] for i in range(n)]
        passes.append(dict(key='_%d.las' % k, names=names, n=n, Q=1, wellmult=wellmult, xq=[int(x) for x in L['xs']], kinds=['f'] * len(names), f32=[False] * len(names),
                           cells=cells, indirect=L['indirect'], pattern=L['pattern'], x0=L['x0'], dx=L['dx']))
        metas.append(dict(indirect=L['indirect'], up=L['up'], dx=L['dx'], pattern=L['pattern'], rcs=[c['rc'] for c in L['chans']],
                          samples=[c['nvals'] for c in L['chans']]))
    maxpay = rng.choice([60, 200, 1020, 60000])
    tif = rng.choice(['none', 'le'])
    splits = [GLP.random_split(rng, len(x), maxpay) for x in lrs]
    layout = GLP.layout_from_splits(splits, rng, rng.choice([(0, 0, 0), (1, 1, 0)]))
    data, _starts = GLP.render(lrs, layout, tif)
    return data, passes, dict(fmt='LIS', passes=metas, tif=tif, maxpay=maxpay)


def build_bit(rng):
    np_ = rng.choice([1, 1, 2, 3])
    rp, passes = [], []
    for pi in range(1, np_ + 1):
        nch = rng.choice([1, 2, 3, 5, 10])
        full = rng.choice([1, 2, 16])
        blocks = [full] * rng.choice([1, 2, 5])
        if rng.random() < 0.5:
            blocks.append(rng.randint(1, full))
        down = rng.random() < 0.5
        start = rng.choice([1000.0, 11916.0, 512.5])
        spacing = rng.choice([0.25, 0.5, 1.0, 0.125])
        n = sum(blocks)
        stop = start + max(1, n - 1) * spacing * (1 if down else -1)
        words = [[[c13.id_word(pi, bi, c, j) for j in range(1, f + 1)] for c in range(1, nch + 1)] for bi, f in enumerate(blocks, 1)]
        names = ['C%02d ' % c for c in range(nch)]
        rp.append(dict(names=names, start=start, stop=stop, spacing=spacing, blocks=words, unused=rng.choice([b'    ', b'    ', b'\x00\x00\x00\x00', b'\xff\xff\xff\xff', b'\x80\x01\xfe\x7f', b'OLD '])))
        sgn = 1 if stop > start else -1
        xs = [start + sgn * i * spacing for i in range(n)]
        flat = []      # flat[c][i] = word
        for c in range(nch):
            col = []
            for b in words:
                col += b[c]
            flat.append(col)
        cells, alt = [], []
        for i in range(n):
            row, arow = [[xs[i]]], [[xs[i]]]
            for c in range(nch):
                w = flat[c][i]
                s, E, M = w[0] >> 7, w[0] & 0x7f, int.from_bytes(w[1:], 'big')
                row.append([c13.dyadic_value(s, E, M)])
                arow.append([c13.f3_value(s, E, M)])
            cells.append(row)
            alt.append(arow)
        passes.append(dict(key='_%04d.las' % (pi - 1), names=['X   '] + names, n=n, Q=8, xq=[int(x * 8) for x in xs], kinds=['f'] * (nch + 1),
                           f32=[False] * (nch + 1), cells=cells, alt=alt))
    return GB.render(rp), passes, dict(fmt='BIT', passes=[(p['n'], len(p['names'])) for p in passes])


# ----------------------------------------------------------------------------- output
def parse_las(text):
    sec, well, curves, heading, rows, sections = None, {}, [], None, [], []
    for ln in text.split('\n'):
        if ln.startswith('~'):
            sec = ln[1:2].upper()
            sections.append(sec)
            if sec == 'A':
                toks = ln[2:].split()
                heading = None if (toks and toks[0].startswith('(')) else toks
            continue
        if sec == 'A' and heading is None and ln.startswith('#'):
            heading = []
            for tok in ln[1:].split():
                if tok.startswith('.') and heading:          # 'X   .FEET': a padded mnemonic and its unit
                    heading[-1] += tok
                else:
                    heading.append(tok)
            continue
        if ln.startswith('#') or not ln.strip():
            continue
        if sec in ('W', 'C'):
            left, _, _right = ln.partition(':')
            mnem, _, rest = left.partition('.')
            unit, _, val = rest.partition(' ')
            if sec == 'W':
                well[mnem.strip()] = (unit.strip(), val.strip())
            else:
                curves.append(mnem.strip())
        elif sec == 'A':
            rows.append(ln.split())
    return dict(well=well, curves=curves, heading=heading, rows=rows, sections=sections)


def _decimals(txt):
    return len(txt.partition('.')[2]) if '.' in txt and 'e' not in txt.lower() else 0


def scaled_range(txt, mult, rel=0):
    """a printed number -> (lo, hi): the integers k with |value * mult - k| within the print precision ((NOX, NOX) if none)"""
    try:
        v = Fraction(txt)
    except (ValueError, ZeroDivisionError):
        return NOX, NOX
    tol = Fraction(mult, 2 * 10 ** _decimals(txt)) if 'e' not in txt.lower() else abs(v) * mult * Fraction(1, 10 ** 12)
    tol += abs(v * mult) * (Fraction(1, 10 ** 12) + Fraction(rel)) + Fraction(1, 10 ** 9)
    lo, hi = math.ceil(v * mult - tol), math.floor(v * mult + tol)
    if lo > hi or abs(lo) >= 2 ** 30 or abs(hi) >= 2 ** 30:
        return NOX, NOX
    return int(lo), int(hi)


def scaled(txt, mult):
    """a printed number -> the integer k with |value * mult - k| within the print precision (NOX if none or not unique)"""
    lo, hi = scaled_range(txt, mult)
    return lo if lo == hi else NOX


def project(P, out, dec, method):
    """Projects one parsed output file onto pass P. Returns (event out-record, list of harness-level complaints)."""
    bad = []
    names = [n.strip() for n in P['names']]
    cols = [names.index(c) + 1 if c in names else 0 for c in out['curves']]
    head = [h.split('.')[0] for h in (out['heading'] or [])]
    if out['heading'] is not None and head != out['curves']:
        # LIS headings are MNEM.UNIT tokens, the others plain names
        bad.append('~A heading %r differs from the curve section %r' % (head, out['curves']))
    Q = P['Q']
    WQ = Q * P.get('wellmult', 1)            # well-section numbers are in the optical unit: brought back to the unit of the rows
    rows = []
    for r, cells in enumerate(out['rows']):
        if len(cells) != len(cols):
            bad.append('row %d has %d cells for %d curves' % (r, len(cells), len(cols)))
            rows.append(-1)
            continue
        k = scaled(cells[0], Q)
        src = [i for i in range(P['n']) if P['xq'][i] == k]
        rows.append(src[0] if len(src) == 1 and cols and cols[0] == 1 else -1)
    w = out['well']
    strt = scaled(w['STRT'][1], WQ) if 'STRT' in w else NOX
    stop = scaled(w['STOP'][1], WQ) if 'STOP' in w else NOX
    steptxt = w['STEP'][1] if 'STEP' in w else (w['STRP'][1] if 'STRP' in w else None)
    # a step computed in single precision (float32 X channel) is printed as the shortest float32 representation
    steplo, stephi = scaled_range(steptxt, WQ * max(1, len(rows) - 1), rel=2.0 ** -22 if P['f32'][0] else 0) if steptxt is not None else (NOX, NOX)
    return dict(status='ok', rows=rows, cols=cols, strt=strt, stop=stop, steplo=steplo, stephi=stephi), bad


def check_values(P, out, ev, dec, method, use_alt=False, skip_x=False):
    """printed cells against the recorded content; returns None or a complaint"""
    cells_src = P['alt'] if use_alt else P['cells']
    for r, (cells, i) in enumerate(zip(out['rows'], ev['rows'])):
        if i < 0 or len(cells) != len(ev['cols']):
            continue
        for cell, col in zip(cells, ev['cols']):
            if col < 1 or (skip_x and col == 1):
                continue
            c = col - 1
            vals = cells_src[i][c]
            want = c10.reduce_exact(vals, method)
            try:
                got = Fraction(cell)
            except (ValueError, ZeroDivisionError):
                return 'row %d column %s: %r is not a number (source %r)' % (r, P['names'][c], cell, vals[:4])
            kind = P['kinds'][c]
            tol = Fraction(1, 2 * 10 ** (0 if kind == 'i' else dec))
            if kind == 'f' and method in ('mean', 'median'):
                eps = Fraction(2.0 ** -23 if P['f32'][c] else 2.0 ** -52)
                tol += eps * len(vals) * max(abs(c10.exact(v)) for v in vals)
            if kind == 'i' and method in ('mean', 'median'):
                tol += Fraction(1, 10 ** 6) * max(1, abs(want)) + Fraction(2.0 ** -52) * len(vals) * max(abs(c10.exact(v)) for v in vals)
            if abs(got - want) > tol:
                return 'row %d (frame %d) column %s: printed %s, source (%s of %r) = %s' % (r, i, P['names'][c], cell, method, [str(v) for v in vals[:6]], float(want))
    return None


# ----------------------------------------------------------------------------- the check
def design(ctx):
    from ..tlc import raw
    base = dict(MaxN=ctx.pick('4', '5'), NoneV='NoneV', MaxPasses='1', MaxCh='1')

    def variant(name, mech, stopfn, wellfn, share, regular, invs, expect_ok=True, cc=None, menu=('X',), **kw):
        c = dict(base)
        c.update(cc or {})
        c.update(Regular=regular, Share=share)
        consts = dict(NoX=raw(str(NOX)), Mech=mech, StopFn=stopfn, WellFn=wellfn, NameMenu=frozenset(menu))
        consts.update(kw.pop('consts', {}))
        r = ctx.tlc_check('MC_ToLas_' + name, 'ToLas', consts=consts, cfg_consts=c, invariants=invs, expect_ok=expect_ok, timeout=1200, **kw)
        if not expect_ok:
            if r.ok():
                ctx.vacuity.append('ToLas variant %s was expected to violate %s but TLC found no counterexample' % (name, invs))
            else:
                last = r.trace[-1][1] if r.trace else {}
                ctx.notes['design_counterexample_' + name] = json.dumps(
                    {k: last.get(k) for k in ('sel', 'passes', 'req0', 'out')}, default=lambda o: sorted(o) if isinstance(o, (set, frozenset)) else str(o))[:700]
        return r
    acts = ['Select', 'Well', 'Columns']
    # the designs the code uses now
    variant('rp66', 'indices', 'count', 'indices', 'FALSE', 'FALSE', ['RowsRefine', 'WellRefines', 'EmptyIffEmpty', 'Refines'], need_actions=acts)
    variant('bit', 'range', 'count', 'rows', 'FALSE', 'FALSE', ['RowsRefine', 'WellRefines', 'EmptyIffEmpty', 'Refines'], need_actions=acts)
    # the designs as found (F9): must be refuted
    variant('rp66_stop_from_last', 'indices', 'count', 'last', 'FALSE', 'FALSE', ['WellRefines'], expect_ok=False)
    variant('range_stop_last_plus_1', 'range', 'last+1', 'rows', 'FALSE', 'FALSE', ['RowsRefine'], expect_ok=False)
    variant('lis_well_of_whole_pass', 'range', 'count', 'pass', 'FALSE', 'TRUE', ['WellRefines'], expect_ok=False)
    # the shared, mutated request set over two passes with overlapping names (F16)
    trivial = raw('{[kind |-> "slice", a |-> NoneV, b |-> NoneV, c |-> NoneV]}')
    two = dict(MaxN='1', MaxPasses='2', MaxCh='3')
    variant('request_copied', 'indices', 'count', 'indices', 'FALSE', 'TRUE', ['ColsRefine', 'Refines'], cc=two, menu=('X', 'Y', 'A'),
            consts={'Sels': trivial}, need_actions=acts)
    variant('request_shared', 'indices', 'count', 'indices', 'TRUE', 'TRUE', ['ColsRefine'], expect_ok=False, cc=two, menu=('X', 'Y', 'A'),
            consts={'Sels': trivial})


def selection_empty(sel, n):
    if sel['kind'] == 'sample':
        return n == 0
    return len(range(n)[slice(*(x[0] if x else None for x in (sel['a'], sel['b'], sel['c'])))]) == 0


def make_selector(rng, n, Slice, negative=False):
    k = rng.random()
    if k < 0.7:
        a, b = [rng.choice([None, None, rng.randint(-n - 1, n + 1)]) for _ in range(2)]
        c = rng.choice([None, 1, 2, 3, 4, max(1, n)])
        if negative and rng.random() < 0.3:
            c = rng.choice([-1, -1, -2, -3, -max(1, n)])          # Python slice semantics: the frames in reverse order
        if rng.random() < 0.9 and len(range(n)[slice(a, b, c)]) == 0:
            a = None if rng.random() < 0.5 else 0
            b = None
        return dict(kind='slice', a=[] if a is None else [a], b=[] if b is None else [b], c=[] if c is None else [c]), Slice.Slice(a, b, c)
    N = rng.choice([1, 2, 3, 7, max(1, n), n + 3])
    return dict(kind='sample', N=N), Slice.Sample(N)


def split_replay(ctx, LT, Slice):
    """LisSplit.tla: the cut of a LIS index into logical files.  TLC checks the loop as coded against the abstract
    statement (and refutes the two earlier designs); every entry sequence in the bound is rendered as a real LIS file,
    converted by the real converter and the LAS files found compared with the design's (LisSplitTable)."""
    import re
    from ..gen import lislog as GLL, repcodes as RC
    rng = ctx.subrng('c11-split')
    cc = dict(MaxLen=ctx.pick('4', '6'))
    invs = ['NeverRaises', 'SplitOK', 'NoConsLost', 'EveryPassWritten', 'NoAbort']
    ctx.tlc_check('MC_LisSplit', 'LisSplit', cfg_consts=dict(cc, Variant='"as_coded"'), invariants=invs, need_actions=['Step', 'Finish'], timeout=1500)
    for name, inv in (('abort_on_empty', 'EveryPassWritten'), ('no_pass_split', 'SplitOK')):
        r = ctx.tlc_check('MC_LisSplit_' + name, 'LisSplit', cfg_consts=dict(cc, Variant='"%s"' % name), invariants=[inv], expect_ok=False, timeout=1500)
        if r.ok():
            ctx.vacuity.append('LisSplit variant %s was expected to violate %s but TLC found no counterexample' % (name, inv))
    ft = os.path.join(ctx.wdir('lissplit'), 'rows.json')
    ctx.tlc_check('MC_LisSplitTable', 'LisSplitTable', cfg_consts=dict(MaxLen=ctx.pick('4', '5'), Variant='"as_coded"'), env={'OUT_TABLE': ft},
                  workers=1, coverage=False, timeout=1500)
    rows = json.load(open(ft))
    wd = ctx.wdir('lissplit_files')
    cons_diffs = 0
    chans = [dict(mnem=b'DEPT', units=b'FEET', size=4, samples=1, rc=68, nvals=1), dict(mnem=b'CH01', units=b'    ', size=4, samples=1, rc=68, nvals=1)]
    n = 0
    for row in sorted(rows, key=lambda r: (len(r['file']), r['file'])):
        seq = row['file']
        n += 1
        nfr = {}
        paired = set()
        lrs = [GLL.file_head()]
        for pos, k in enumerate(seq, 1):
            if k == 'CONS':
                lrs.append(bytes([34, 0]) + b'IA\x04\x00TYPE    CONS' + b'\x00A\x04\x00MNEM    ' + rng.choice([b'BS  ', b'WN  ', b'FN  '])
                           + b'EA\x04\x00VALU    ' + (b'T%03d' % pos))
            elif k == 'OTHER':
                lrs.append(rng.choice([bytes([34, 0]) + b'IA\x04\x00TYPE    ' + rng.choice([b'TOOL', b'OUTP']) + b'\x00A\x04\x00MNEM    BS  ',
                                       GLL.misc(232, b'operator text'), GLL.file_tail(), GLL.file_head()]))
            elif pos in paired:
                continue                          # rendered together with the pass before it
            else:
                # two passes in a row are, now and then, two SIMULTANEOUS recordings (LIS-79: a type 0 and a type 1 format
                # specification, then their data records interleaved) - the same index entries, another file
                simultaneous = pos < len(seq) and seq[pos] in ('P0', 'P1') and rng.random() < 0.5
                group = [(pos, k, 0)] + ([(pos + 1, seq[pos], 1)] if simultaneous else [])
                recs_of = {}
                for pos_, k_, ty in group:
                    up = rng.random() < 0.5
                    lrs.append(GLL.dfsr({4: (1, 66, 1 if up else 255), 12: (4, 68, -999.25)}, chans, iflr_type=ty))
                    if k_ == 'P1':
                        nfr[pos_] = rng.randint(1, 4)
                        fr = [RC.enc68(1000.0 * pos_ + (-j if up else j)) + RC.enc68(float(pos_)) for j in range(nfr[pos_])]
                        recs_of[ty] = [[f_] for f_ in fr] if simultaneous else [fr]
                if simultaneous:
                    paired.add(pos + 1)
                order = [ty for ty in recs_of for _ in recs_of[ty]]
                if simultaneous:
                    rng.shuffle(order)
                for ty in order:
                    lrs.append(GLL.data_record(ty, b'', recs_of[ty].pop(0)))
        if rng.random() < 0.7:
            lrs.append(GLL.file_tail())
        maxpay = rng.choice([60, 1020])
        data, _ = GLP.render(lrs, GLP.layout_from_splits([GLP.random_split(rng, len(x), maxpay) for x in lrs], rng, (0, 0, 0)), rng.choice(['none', 'le']))
        path_in = os.path.join(wd, 's%d.lis' % n)
        with open(path_in, 'wb') as f:
            f.write(data)
        outdir = os.path.join(wd, 'o%d' % n)
        case = dict(entries=seq, maxpay=maxpay)
        ctx.case(('split', n), any(k == 'P1' for k in seq))
        try:
            res = LT.single_lis_file_to_las(path_in, 'first', os.path.join(outdir, 'f'), Slice.Slice(), set(), 16, '.3f')
        except Exception as e:
            ctx.fail('LIS converter raised %s: %s for the index entries %s' % (type(e).__name__, e, seq), case, sig=dict(kind='split-exception'))
            continue
        got = []
        for fn in sorted(os.listdir(outdir), key=lambda x: int(re.search(r'_(\d+)\.las$', x).group(1))) if os.path.isdir(outdir) else []:
            text = open(os.path.join(outdir, fn)).read()
            tags = [int(t) for t in re.findall(r'\bT(\d{3})\b', text)]
            rowsA = []
            if '~A' in text:
                rowsA = [l.split() for l in text[text.index('~A'):].splitlines()[1:] if l.strip() and not l.startswith('#')]
            ps = 0
            if rowsA:
                ps = int(round(float(rowsA[0][0]) / 1000.0))
                if len(rowsA) != nfr.get(ps) or any(float(r[1]) != ps for r in rowsA):
                    ps = -ps
            got.append(dict(cons=tags, **{'pass': ps}))
        want = [dict(cons=w['cons'], **{'pass': w['pass']}) for w in row['las']]
        # the property: one LAS file per log pass with frames, in order, holding that pass's frames; which CONS tables a file
        # carries and files without data are the design's business (compared, counted, not judged)
        if got != want or res.las_count != len(want):
            cons_diffs += 1
        if res.exception or [g['pass'] for g in got if g['pass']] != [w['pass'] for w in want if w['pass']]:
            ctx.fail('LIS index entries %s: LAS files %s (result: exception=%s, las_count=%d); the log passes with frames are at %s and the split gives %s'
                     % (seq, got, res.exception, res.las_count, [p for p, k in enumerate(seq, 1) if k == 'P1'], want), case,
                     sig=dict(kind='split', exc=bool(res.exception)))
        shutil.rmtree(outdir, ignore_errors=True)
        os.remove(path_in)
    ctx.notes['split_sequences_replayed'] = n
    ctx.notes['split_files_differing_from_the_design_outside_the_property'] = cons_diffs


def run(ctx):
    repo.setup()
    from ..core import quiet_logging
    quiet_logging()
    from TotalDepth.RP66V1 import ToLAS as RT
    from TotalDepth.LIS import ToLAS as LT
    from TotalDepth.BIT import ToLAS as BT
    from TotalDepth.LAS.core import LASRead
    from TotalDepth.common import Slice

    def fail(msg, payload, sig):
        """known finding F34: the LIS frame loader does not implement negative slice steps - whatever goes wrong in a LIS conversion
        with a negative step (the file fails, or frames other than the selected ones are written) carries that signature"""
        c_ = payload.get('meta', payload) if isinstance(payload, dict) else {}
        sel_ = c_.get('selector') or {}
        if c_.get('converter') == 'LIS' and c_.get('fmt') == 'LIS' and sel_.get('kind') == 'slice' and sel_.get('c') and sel_['c'][0] < 0:
            sig = dict(kind='lis-negative-step')
        ctx.fail(msg, payload, sig=sig)
    design(ctx)
    split_replay(ctx, LT, Slice)
    rng = ctx.subrng('c11')
    wd = ctx.wdir('files')
    conv = {'RP66V1': RT.single_rp66v1_file_to_las, 'LIS': LT.single_lis_file_to_las, 'BIT': BT.single_bit_path_to_las_path}
    ext = {'RP66V1': '.dlis', 'LIS': '.lis', 'BIT': '.bit'}
    traces, meta = [], []
    nfiles = ctx.pick(70, 1500)
    for fi in range(nfiles):
        for fmt in ('RP66V1', 'LIS', 'BIT'):
            if fmt == 'RP66V1':
                data, passes, fmeta = build_dlis(rng)
            elif fmt == 'LIS':
                data, passes, fmeta = build_lis(rng, ctx)
            else:
                data, passes, fmeta = build_bit(rng)
            path_in = os.path.join(wd, 'f%d%s' % (fi, ext[fmt]))
            with open(path_in, 'wb') as f:
                f.write(data)
            for ri in range(ctx.pick(3, 4)):
                gate = None
                if ri == 0 and fi % 5 == 0:
                    gate = rng.choice([k for k in conv if k != fmt])       # another format's converter on this file
                sel, selobj = make_selector(rng, rng.choice(passes)['n'], Slice, negative=(gate is None))
                pool = sorted({n for p in passes for n in p['names'][1:]})
                if rng.random() < 0.35 or not pool:
                    req = []
                else:
                    req = rng.sample(pool, rng.randint(1, min(3, len(pool))))
                    if rng.random() < 0.2:
                        req.append('NOSUCH')
                    if rng.random() < 0.2:
                        req.append(rng.choice(passes)['names'][0])
                method = rng.choice(['first', 'mean', 'median', 'min', 'max']) if fmt != 'BIT' else 'first'
                width = rng.choice([10, 16, 24])
                ffmt = rng.choice(['.1f', '.3f', '.6f'] + (['.0f'] if fmt == 'LIS' else []))
                if any(p_.get('wellmult', 1) > 1 for p_ in passes) and ffmt in ('.0f', '.1f'):
                    ffmt = rng.choice(['.3f', '.6f'])         # the well section is printed in a coarser unit than the rows: enough decimals to compare
                dec = int(ffmt[1:-1])
                outdir = os.path.join(wd, 'o_%d_%s_%d' % (fi, fmt, ri))
                path_out = os.path.join(outdir, 'f.las')
                case = dict(fmeta, file=fi, selector=sel, request=sorted(req), reduction=method, width=width, format=ffmt,
                            converter=gate or fmt)
                chset = set(req)
                try:
                    res = conv[gate or fmt](path_in, method, path_out, selobj, chset, width, ffmt)
                except Exception as e:
                    fail('%s converter raised %s: %s; %s' % (gate or fmt, type(e).__name__, e, json.dumps(case)[:400]), case,
                             sig=dict(kind='escaped-exception', fmt=gate or fmt))
                    continue
                outs = sorted(os.listdir(outdir)) if os.path.isdir(outdir) else []
                tr = [dict(op='run', sel=sel, req=sorted(r.strip() for r in req), mine=gate is None)]
                ctx.case(('run', fi, fmt, ri), gate is None and (sel['kind'] == 'sample' or bool(sel['a'] or sel['b'] or sel['c'])))
                if gate is None:
                    used = set()
                    earlier_empty = False
                    for P in passes:
                        cand = [o for o in outs if o.endswith(P['key'])]
                        ev = dict(op='pass', n=P['n'], names=[n.strip() for n in P['names']], xq=P['xq'])
                        text, out = None, None
                        if len(cand) == 1:
                            used.add(cand[0])
                            text = open(os.path.join(outdir, cand[0])).read()
                            out = parse_las(text)
                        if out is None or ('A' not in out['sections'] and 'C' not in out['sections']):
                            # no file, or a file without curve and data sections (BIT writes that on purpose for an empty selection;
                            # the others leave it behind when they fail)
                            ev['out'] = dict(status='failed' if out is None else 'nodata', rows=[], cols=[], strt=NOX, stop=NOX, steplo=NOX, stephi=NOX)
                            empty_here = selection_empty(sel, P['n'])
                            if not empty_here and earlier_empty and fmt in ('RP66V1', 'LIS'):
                                # known finding F23: an empty selection in an earlier pass aborted the whole file
                                fail('%s -> LAS: pass %s (%d frames, selection not empty) was not written because the selection is empty '
                                         'for an earlier pass of the file' % (fmt, P['key'], P['n']), case, sig=dict(kind='empty-selection-aborts-file', fmt=fmt))
                                continue
                            earlier_empty = earlier_empty or empty_here
                            tr.append(ev)
                            continue
                        o, bad = project(P, out, dec, method)
                        skip_x = skip_read = False
                        # known finding F11 (LIS implied X after a record change): recognise exactly the defective X column
                        if fmt == 'LIS' and P.get('indirect'):
                            if sel['kind'] == 'slice':
                                want = list(range(P['n']))[slice(*(x[0] if x else None for x in (sel['a'], sel['b'], sel['c'])))]
                            else:
                                stride = 1 if sel['N'] >= P['n'] else P['n'] // sel['N']
                                want = list(range(0, min(sel['N'], P['n']) * stride, stride))
                            no_channel = bool(req) and not (set(r.strip() for r in req) & set(ev['names'][1:]))
                            # known finding F22: implied X and none of the requested channels in this pass -> nothing is read, the X
                            # column is uninitialised memory.  Recognised by: only the X curve is written, the row count is right.
                            if no_channel and o['cols'] == [1] and len(out['rows']) == len(want) and o['rows'] != want:
                                fail('LIS -> LAS: implied X, no requested channel in the pass: the X column is not the X axis (%r)' % [r[0] for r in out['rows']][:4],
                                         case, sig=dict(kind='lis-implied-x-no-channel'))
                                o['rows'] = want
                                o['strt'], o['stop'] = P['xq'][want[0]], P['xq'][want[-1]]
                                if len(want) > 1:
                                    o['steplo'] = o['stephi'] = o['stop'] - o['strt']
                                skip_x = skip_read = True
                            elif o['rows'] != want and len(want) == len(out['rows']) and c06.f11_signature(P['pattern'], want):
                                emu = c06.f11_emulate(P['pattern'], P['x0'], P['dx'], want)
                                if all(len(r) and scaled(r[0], 1) == int(e) for r, e in zip(out['rows'], emu)):
                                    fail('LIS -> LAS: implied X wrong after a record change with a stepped slice (X column %r)' % [r[0] for r in out['rows']][:6],
                                             case, sig=dict(kind='implied-x-record-change'))
                                    o['rows'] = want            # judge the rest of the file on the frames the values come from
                                    skip_x = True
                                    # the well section describes the (defective) X column that was written: same finding
                                    if (o['strt'], o['stop']) == (int(emu[0]), int(emu[-1])) and (len(want) < 2 or o['steplo'] <= int(emu[-1]) - int(emu[0]) <= o['stephi']):
                                        o['strt'], o['stop'] = P['xq'][want[0]], P['xq'][want[-1]]
                                        if len(want) > 1:
                                            o['steplo'] = o['stephi'] = o['stop'] - o['strt']
                        ev['out'] = o
                        tr.append(ev)
                        if fmt == 'BIT' and 'STEP' not in out['well'] and 'STRP' in out['well']:
                            fail('BIT -> LAS: the well section has no STEP line, the step is written under the mnemonic STRP', case,
                                     sig=dict(kind='bit-strp'))
                        if not bad:
                            v = check_values(P, out, o, dec, method, skip_x=skip_x)
                            if v and fmt == 'BIT' and check_values(P, out, o, dec, method, use_alt=True) is None:
                                fail('BIT -> LAS: %s (the value gen_floats gives, known IBM divisor defect)' % v, case, sig=dict(kind='ibm-divisor'))
                            elif v:
                                bad.append(v)
                        if not bad and not skip_read:
                            try:
                                las = LASRead.LASRead(io.StringIO(text), 'verif')
                                fr = las.frame_array
                                if fr is None:
                                    if out['rows']:
                                        bad.append('LASRead finds no frame array, the file has %d rows' % len(out['rows']))
                                elif len(fr.channels) != len(out['curves']) or len(fr.x_axis.array) != len(out['rows']):
                                    bad.append('LASRead sees %d channels x %d frames, the file has %d curves x %d rows' % (
                                        len(fr.channels), len(fr.x_axis.array), len(out['curves']), len(out['rows'])))
                            except Exception as e:
                                bad.append('LASRead of the output raised %s: %s' % (type(e).__name__, e))
                        for b in bad[:1]:
                            fail('%s -> LAS %s: %s; %s' % (fmt, cand[0], b, json.dumps(case)[:500]), dict(case, text=text[:3000]),
                                     sig=dict(kind='output', fmt=fmt, what=b.split(':')[0][:40]))
                    extra = [o for o in outs if o not in used]
                    if extra:
                        fail('%s -> LAS wrote unexpected files %r; %s' % (fmt, extra, json.dumps(case)[:300]), case, sig=dict(kind='extra-files', fmt=fmt))
                tr.append(dict(op='result', ignored=bool(res.ignored), exception=bool(res.exception), las_count=int(res.las_count), outputs=len(outs)))
                traces.append(tr)
                meta.append(case)
                if os.environ.get('VERIF_C11_KEEP') != str(fi):
                    shutil.rmtree(outdir, ignore_errors=True)
            if os.environ.get('VERIF_C11_KEEP') != str(fi):
                os.unlink(path_in)
    for i in (0, 1, 2):
        if i < len(traces):
            ctx.sample(dict(meta=meta[i], events=traces[i]))
    rej = ctx.validate_traces('ToLasTrace', 'ToLasTrace', traces, workers=16, consts={'NoX': __import__('harness.tlc', fromlist=['raw']).raw(str(NOX))},
                              cfg_consts={'MaxN': '5', 'NoneV': 'NoneV'}, timeout=3000, max_reject=40)
    for t, l, st in rej:
        ev = traces[t][l - 1] if l and l <= len(traces[t]) else None
        m = meta[t]
        what = 'result'
        if ev and ev.get('op') == 'pass':
            what = 'pass'
        fail('conversion run rejected by ToLasTrace at event %s: %s; run %s' % (l, json.dumps(ev)[:700], json.dumps(m)[:500]),
                 dict(meta=m, event=ev, l=l), sig=dict(kind='trace', fmt=m['converter'], op=what))
    ctx.rule = ('one case per conversion run (file x selector x request x reduction x width x format); non-trivial = own-format '
                'run with a sample or a slice with at least one explicit part')
    ctx.assumptions += ['RP66V1 ORIGIN carries CREATION-TIME, COMPANY, WELL-NAME, FIELD-NAME, PRODUCER-NAME (the converter reads them)',
                        'X values unique per pass and exactly representable; formats with >= 1 decimal where X has halves/eighths',
                        'channel names without spaces inside; LIS channels are not dipmeter sub-channel codes',
                        'an empty selection may be reported as a failed conversion or a file without rows',
                        'negative slice steps are Python slice semantics too: the frames in reverse order, STRT / STOP / STEP of the rows as written '
                        '(RP66V1 and BIT do it; the LIS frame loader refuses negative steps: known finding F34)']
    ctx.explanation = ('TLC decides which converter designs refine ToLasAbs (and refutes the as-found ones); real conversions of generated '
                       'RP66V1/LIS/BIT files validated as traces; printed values vs recorded content; outputs through LASRead')


def replay(ctx, path):
    run(ctx)
