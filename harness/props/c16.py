"""C16 - Run-length indexes reproduce the positions they encode.

1. TLC: the run-forming design (Rle.tla) refines the abstract sequence semantics (RleAbs.tla) for every
   integer sequence over Vals of length <= MaxLen and every record-triple sequence of length <= MaxRecs.
2. code -> spec: the call history of real RLE / RLEType01 objects (every short sequence exhaustively, with
   queries interleaved between the adds, and long seeded-random sequences) is validated by TLC against
   RleTrace.tla, i.e. against the abstract state only - never the run structure.
3. float variant: the same histories with v -> v*0.1 + c; each result is mapped back to the nearest
   lattice point with a rounding bound and the lattice indices are validated by TLC.
"""
import itertools
import json
import sys

from .. import repo

LEVEL = 'model_checking'
EPS = sys.float_info.epsilon


def _call(fn, *a):
    try:
        return True, fn(*a)
    except Exception as e:                  # noqa
        return False, '%s: %s' % (type(e).__name__, e)


def _ev(op, ok, r, **kw):
    d = dict(op=op, ok=bool(ok), **kw)
    d['r'] = r if ok else 0
    if not ok:
        d['err'] = str(r)[:120]
    return d


_SHADOW = dict(rle=None, alone=None, bad=[], n=0)


def _shadow_probe():
    """another run-length index is in use at the same time (one per frame type of a file): it answers as it does alone"""
    sh = _SHADOW
    if sh['rle'] is None:
        return
    sh['n'] += 1
    r = sh['rle']
    now = (list(r.values()), r.value(4), r.largest_le(21), r.num_values(), len(r))
    if now != sh['alone'] and len(sh['bad']) < 3:
        sh['bad'].append('%r, alone %r' % (now, sh['alone']))


def _queries(rle, vals, rng=None, conv=None, allq=True):
    """All queries on the current object; conv maps a result back to the integer lattice (float variant)."""
    _shadow_probe()
    c = conv or (lambda x: x)
    n = len(vals)
    evs = []
    ok, r = _call(rle.num_values)
    evs.append(_ev('num_values', ok, r))
    if n:
        ok, r = _call(rle.first)
        evs.append(_ev('first', ok, c(r) if ok else r))
        ok, r = _call(rle.last)
        evs.append(_ev('last', ok, c(r) if ok else r))
    idxs = range(-n, n) if allq else sorted({rng.randrange(-n, n) for _ in range(6)}) if n else []
    for i in idxs:
        ok, r = _call(rle.value, i)
        evs.append(_ev('value', ok, c(r) if ok else r, i=i))
    ok, r = _call(lambda: list(rle.values()))
    evs.append(_ev('values', ok, [c(x) for x in r] if ok else r))
    if n and all(vals[i] <= vals[i + 1] for i in range(n - 1)):
        qs = range(vals[0], vals[-1] + 2) if allq else sorted({rng.randint(vals[0], vals[-1] + 1) for _ in range(6)})
        for q in qs:
            ok, r = _call(rle.largest_le, q if conv is None else conv.inv(q))
            evs.append(_ev('largest_le', ok, c(r) if ok else r, q=q))
    return evs


class _Conv:
    """float lattice f(k) = k * scale + off, with a rounding bound for results computed by up to n additions"""
    def __init__(self, scale, off, n):
        self.scale, self.off, self.n = scale, off, n
        self.bad = None

    def inv(self, k):
        return k * self.scale + self.off

    def __call__(self, x):
        k = round((x - self.off) / self.scale)
        tol = (self.n + 4) * EPS * max(abs(x), abs(self.off), abs(self.scale) * (self.n + 4))      # relative: rounding of <= n additions
        if abs(x - self.inv(k)) > tol and self.bad is None:
            self.bad = (x, k, self.inv(k), tol)
        return k


def in_situ(ctx, traces, meta):
    """RLE objects the library creates itself (RP66V1 XML index and HTML scan of generated files) and the ones created by the
    repository's own tests, recorded call by call from the harness process and validated like every other history."""
    import contextlib
    import io
    import os
    from .. import rletrace
    from . import c18
    from TotalDepth.RP66V1 import IndexXML, ScanHTML
    from TotalDepth.RP66V1.core import LogicalFile
    from TotalDepth.common import Slice
    rng = ctx.subrng('c16-insitu')
    wd = ctx.wdir('insitu')
    n0 = len(traces)
    import warnings
    quiet = contextlib.ExitStack()
    devnull_ = quiet.enter_context(open(os.devnull, 'w'))
    quiet.enter_context(contextlib.redirect_stdout(devnull_))
    quiet.enter_context(contextlib.redirect_stderr(devnull_))
    quiet.enter_context(warnings.catch_warnings())
    warnings.simplefilter('ignore')
    errs = []
    with quiet, rletrace.record_rle() as recs:
        for t in range(ctx.pick(12, 120)):
            data, _truth = c18.build_nasty_dlis(rng)
            pin = os.path.join(wd, 'f%d.dlis' % t)
            with open(pin, 'wb') as f:
                f.write(data)
            try:
                with LogicalFile.LogicalIndex(pin) as li:
                    IndexXML.write_logical_file_sequence_to_xml(li, io.StringIO(), False)
                ScanHTML.html_scan_RP66V1_file_data_content(pin, io.StringIO(), False, Slice.Slice(), False)
            except Exception as e:
                errs.append((t, '%s: %s' % (type(e).__name__, e)))          # reported after the output redirection ends
            os.remove(pin)
        nlib = len(recs)
        import pytest
        root = repo.REPO if os.path.isdir(os.path.join(repo.REPO, 'tests')) else '/repo'
        tfile = os.path.join(root, 'tests/unit/common/test_Rle.py')
        if os.path.exists(tfile):
            with open(os.devnull, 'w') as devnull, contextlib.redirect_stdout(devnull), contextlib.redirect_stderr(devnull):
                rc = pytest.main(['-q', '-p', 'no:cacheprovider', '--no-header', '-W', 'ignore', '--rootdir', root, tfile])
            ctx.notes['repo_test_Rle_exit_code'] = int(rc)
    for t, e in errs:
        ctx.fail('indexing a generated RP66V1 file raised %s' % e, dict(file=t), sig=dict(kind='insitu-exception'))
    judged = 0
    for i, r in enumerate(recs):
        if not r.judged or not r.ev:
            continue
        judged += 1
        traces.append(r.ev)
        meta.append(dict(kind='insitu_library' if i < nlib else 'insitu_repo_test', seq=r.vals[:40]))
        ctx.case(('insitu', i), len(r.vals) > 2)
    ctx.notes['insitu_rle_objects'] = dict(recorded=len(recs), judged=judged, from_library=nlib)
    if judged == 0:
        ctx.vacuity.append('no RLE object of the library or the repository tests was recorded')


def run(ctx):
    repo.setup()
    from TotalDepth.common import Rle
    from TotalDepth.LIS.core import Rle as LisRle

    maxlen = ctx.pick(5, 6)
    maxrecs = ctx.pick(5, 6)
    vals_set = list(range(-2, 4))
    ctx.tlc_check('MC_Rle', 'Rle',
                  consts={'Vals': frozenset(vals_set), 'PosSteps': frozenset([10, 12]), 'FrameCounts': frozenset([1, 2, 3])},
                  cfg_consts={'MaxLen': str(maxlen), 'MaxRecs': str(maxrecs)},
                  invariants=['Refines', 'CountRefines', 'ValueRefines', 'OverrunDetected', 'FirstLastRefine',
                              'LargestLERefines', 'TotalRefines', 'FrameLocRefines', 'FrameOverrun', 'XKept'],
                  need_actions=['Add', 'AddRec'])
    ctx.rule = ('integer sequences: every sequence over -2..3 of length <= %d (queries at the end) and of full length with '
                'queries interleaved after every add; non-trivial = length >= 3 and not an arithmetic progression '
                '(so at least two runs) or containing equal neighbours; record-triple sequences: every sequence of '
                'length <= %d over position steps {10,12} x frames {1,2,3}; random long sequences distinct by content' %
                (maxlen, maxrecs))
    traces = []
    meta = []
    sh_ = Rle.create_rle([3, 5, 7, 20, 22, 24, 24])
    _SHADOW.update(rle=sh_, alone=(list(sh_.values()), sh_.value(4), sh_.largest_le(21), sh_.num_values(), len(sh_)), bad=[], n=0)

    def nontrivial(seq):
        if len(seq) < 3:
            return False
        d = {seq[i + 1] - seq[i] for i in range(len(seq) - 1)}
        return len(d) > 1 or 0 in d

    # (a) exhaustive short integer sequences
    for n in range(0, maxlen + 1):
        for seq in itertools.product(vals_set, repeat=n):
            rle = Rle.RLE()
            tr = []
            for i, v in enumerate(seq):
                rle.add(v)
                tr.append(dict(op='add', v=v))
                # queries interleaved between the adds of every longest sequence (validated in shards)
                if n == maxlen and i < n - 1:
                    tr += _queries(rle, seq[:i + 1])
            tr += _queries(rle, seq)
            traces.append(tr)
            meta.append(dict(kind='rle', seq=list(seq)))
            ctx.case(('rle',) + seq, nontrivial(seq))
    # create_rle must be the same thing
    for seq in itertools.product(vals_set, repeat=3):
        rle = Rle.create_rle(seq)
        traces.append([dict(op='add', v=v) for v in seq] + _queries(rle, seq))
        meta.append(dict(kind='create_rle', seq=list(seq)))
    # ... from every kind of iterable: ranges (empty, one value, counting down), lists, generators; and added to afterwards
    for seq_obj in (range(0), range(5, 5), range(10, 0, 2), range(3, 4), range(0, 6), range(7, -5, -3), range(-2, 9, 4), [], [4], [2, 2, 2], (1, 3, 5, 9),
                    (x for x in ()), (x * x for x in range(5))):
        try:
            if isinstance(seq_obj, (range, list, tuple)):
                rle = Rle.create_rle(seq_obj)
                vals_ = list(seq_obj)
            else:
                vals_ = list(seq_obj)
                rle = Rle.create_rle(iter(vals_))
            tr = [dict(op='add', v=v) for v in vals_] + _queries(rle, vals_)
            extra = [vals_[-1] + 5, vals_[-1] + 10] if vals_ else [3, 4]
            for v in extra:
                rle.add(v)
                tr.append(dict(op='add', v=v))
            tr += _queries(rle, vals_ + extra)
        except Exception as e:
            ctx.fail('create_rle(%r) or a query on its result raised %s: %s' % (seq_obj, type(e).__name__, e), dict(seq=repr(seq_obj)), sig=dict(kind='create_rle'))
            continue
        traces.append(tr)
        meta.append(dict(kind='create_rle', seq=vals_, source=type(seq_obj).__name__))
        ctx.case(('create_rle', repr(seq_obj)), True)
    # (b) exhaustive record-triple sequences
    # the first X of a record is whatever was logged: evenly spaced as a rule, but a depth gap, an overlap after a tool pull-back or a
    # pause in a time log put a jump into an otherwise regular run of records (xjump = (record, amount))
    t01_cases = []
    for n in range(0, maxrecs + 1):
        for steps in itertools.product([(dp, f) for dp in (10, 12) for f in (1, 2, 3)], repeat=n):
            if n and steps[0][0] != 10:
                continue        # the first record's position step is irrelevant
            t01_cases.append((steps, None))
            if n >= 3 and len(set(steps[1:])) == 1:
                for k_ in range(2, n):
                    for amt in (500, -500, 1):
                        t01_cases.append((steps, (k_, amt)))
    for steps, xjump in t01_cases:
        n = len(steps)
        if True:
            t01 = LisRle.RLEType01('FEET')
            tr = []
            pos, frames_before = 100, 0
            recs = []
            for dp, f in steps:
                pos = pos + dp if recs else 100
                x = 1000 + frames_before * 5 + (xjump[1] if xjump is not None and len(recs) >= xjump[0] else 0)
                t01.add(pos, f, x)
                recs.append((pos, f, x))
                tr.append(dict(op='add_rec', pos=pos, frames=f, x=x))
                frames_before += f
            ok, r = _call(t01.totalFrames)
            tr.append(_ev('total', ok, r))
            for fn in range(frames_before):
                ok, r = _call(t01.tellLrForFrame, fn)
                tr.append(dict(op='tell', f=fn, ok=ok, pos=r[0] if ok else 0, off=r[1] if ok else 0,
                               **({} if ok else {'err': str(r)})))
            traces.append(tr)
            meta.append(dict(kind='t01', recs=recs))
            ctx.case(('t01', xjump) + tuple(steps), len({s for s in steps}) > 1 or xjump is not None)
    # (c) long random histories, queries interleaved
    rng = ctx.subrng('long')
    for t in range(ctx.pick(60, 600)):
        n = rng.choice([20, 50, 120])
        style = rng.choice(['runs', 'ascending', 'noise', 'equal'])
        seq, v = [], rng.randint(-50, 50)
        while len(seq) < n:
            if style == 'noise':
                seq.append(rng.randint(-5, 5))
                continue
            stride = {'runs': rng.randint(-4, 4), 'ascending': rng.randint(0, 5), 'equal': 0 if rng.random() < .6 else rng.randint(1, 3)}[style]
            for _ in range(rng.randint(1, 9)):
                seq.append(v)
                v += stride
            if style in ('ascending', 'equal'):
                v += rng.randint(0, 7)
            else:
                v += rng.randint(-30, 30)
        seq = seq[:n]
        rle = Rle.RLE()
        tr = []
        for i, v in enumerate(seq):
            rle.add(v)
            tr.append(dict(op='add', v=v))
            if rng.random() < 0.15:
                tr += _queries(rle, seq[:i + 1], rng, allq=False)
        tr += _queries(rle, seq, rng, allq=len(seq) <= 50)
        traces.append(tr)
        meta.append(dict(kind='rle_long', style=style, seq=seq))
        ctx.case(('long', t), True)
    # long record-triple histories with irregular frame counts (short last record etc.)
    for t in range(ctx.pick(40, 400)):
        t01 = LisRle.RLEType01('M')
        tr, recs, pos, fb = [], [], rng.randint(0, 500), 0
        xoff = 0
        nrec = rng.choice([3, 10, 40])
        base_f = rng.randint(1, 9)
        for k in range(nrec):
            f = base_f if rng.random() < 0.8 else rng.randint(1, 12)
            if rng.random() < 0.12:
                xoff += rng.choice([-300, 300, 40, -1])
            x = 5000 - fb * 2 + xoff
            t01.add(pos, f, x)
            recs.append((pos, f, x))
            tr.append(dict(op='add_rec', pos=pos, frames=f, x=x))
            fb += f
            pos += rng.choice([1024, 1024, 1024, 1000, rng.randint(1, 3000)])
            if rng.random() < 0.2:
                fn = rng.randrange(fb)
                ok, r = _call(t01.tellLrForFrame, fn)
                tr.append(dict(op='tell', f=fn, ok=ok, pos=r[0] if ok else 0, off=r[1] if ok else 0))
        ok, r = _call(t01.totalFrames)
        tr.append(_ev('total', ok, r))
        for fn in (range(fb) if fb <= 80 else sorted({rng.randrange(fb) for _ in range(60)} | {0, fb - 1})):
            ok, r = _call(t01.tellLrForFrame, fn)
            tr.append(dict(op='tell', f=fn, ok=ok, pos=r[0] if ok else 0, off=r[1] if ok else 0))
        traces.append(tr)
        meta.append(dict(kind='t01_long', recs=recs))
        ctx.case(('t01long', t), True)
    # (d) float variant: lattice k -> k*scale + off
    for t in range(ctx.pick(300, 3000)):
        n = rng.choice([3, 6, 15, 40])
        scale, off = rng.choice([(0.1, 0.0), (0.1, 1234.5), (0.25, -3.0), (1e-3, 7e3), (152.4, 0.0), (0.5, 1e6),
                                 (1e-17, 0.0), (2.0 ** -60, 0.0), (1e-20, 5e-9), (1e-12, 0.0), (1e-9, 1e-6), (3e15, 0.0), (0.5, 1.6e12), (1000.0, 1.6e12)])   # small and large magnitudes
        seq, k = [], rng.randint(-20, 20)
        while len(seq) < n:
            stride = rng.randint(-3, 4)
            for _ in range(rng.randint(1, 8)):
                seq.append(k)
                k += stride
            k += rng.randint(-10, 10)
        seq = seq[:n]
        conv = _Conv(scale, off, n)
        rle = Rle.RLE()
        tr = []
        for k in seq:
            rle.add(conv.inv(k))
            tr.append(dict(op='add', v=k))
        qs = [e for e in _queries(rle, seq, rng, conv=conv, allq=n <= 15) if e['op'] != 'largest_le']
        tr += qs
        # largest_le on floats: asked half way between lattice points (a query ON a stored value is a matter of rounding), for ascending
        # sequences on lattices whose spacing is well above the rounding of the values
        if all(seq[i] <= seq[i + 1] for i in range(n - 1)) and 0.25 * scale > 64 * EPS * max(abs(off), abs(scale) * 100):
            for k in range(seq[0], min(seq[-1], seq[0] + 40) + 1):
                ok, r = _call(rle.largest_le, conv.inv(k) + 0.5 * scale)
                tr.append(_ev('largest_le', ok, conv(r) if ok else r, q=k))
        if conv.bad:
            ctx.fail('float RLE result %r is not within rounding of the added value %r (lattice index %d, tol %g)' % (
                conv.bad[0], conv.bad[2], conv.bad[1], conv.bad[3]), dict(seq=seq, scale=scale, off=off), sig=dict(kind='float'))
        traces.append(tr)
        meta.append(dict(kind='rle_float', scale=scale, off=off, seq=seq))
        ctx.case(('float', t), True)
    in_situ(ctx, traces, meta)
    ctx.sample(dict(meta=meta[len(meta) // 7], events=traces[len(meta) // 7][:12]))
    ctx.sample(dict(meta=meta[-1], events=traces[-1][:6]))
    rej = ctx.validate_traces('RleTrace', 'RleTrace', traces, workers=16, max_reject=12)
    for t, l, st in rej:
        ev = traces[t][l - 1] if l and l <= len(traces[t]) else None
        m = meta[t]
        seq = m.get('seq', [])
        sig = dict(kind=m['kind'].split('_')[0], op=ev and ev['op'],
                   equal_neighbours=any(seq[i] == seq[i + 1] for i in range(len(seq) - 1)))
        ctx.fail('%s history rejected by RleTrace at event %s: %s; history %s' % (
            m['kind'], l, json.dumps(ev), json.dumps(m)[:300]), dict(meta=m, event=ev, l=l), sig=sig)
    ctx.assumptions += ['indices and frame numbers are valid ones; largest_le only on non-decreasing sequences with a '
                        'stored value <= query', 'record positions strictly increasing, frames >= 1',
                        'float results: |result - added| <= (n+4)*eps*max(|x|, |offset|, (n+4)|stride|) (relative: rounding of at most n additions)']
    for b_ in _SHADOW['bad'][:1]:
        ctx.fail('a run-length index in use alongside the ones under test answers %s' % b_, dict(kind='two-objects'), sig=dict(kind='two-objects'))
    ctx.notes['shadow_index_probes'] = _SHADOW['n']
    ctx.explanation = 'design refinement by TLC; every real-object history validated event by event against RleAbs'


def replay(ctx, path):
    run(ctx)
