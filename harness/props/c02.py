"""C02 - DLIS index gives random access identical to the sequential read (see dlis_phys.py)."""
from . import dlis_phys

LEVEL = 'model_checking'


def run(ctx):
    dlis_phys.run(ctx, 'C02')
    ctx.explanation = ('TLC checks the offset/length slicing loop (DlisIndex) against GetAbs for every segment split in the '
                       'bound; index entries and histories of fetches on one real LogicalRecordIndex per generated file '
                       '(with the file reads observed per fetch) are validated by TLC against DlisPhysTrace.')


def replay(ctx, path):
    run(ctx)
