"""C12 - Batch conversion isolates bad files and is independent of job scheduling.

1. TLC: Batch.tla - every schedule of <= 3 workers x <= 4 files for several class assignments (good / bad / foreign):
   one result per file, never aborted, results and tree equal to the isolated conversions, liveness (every batch ends and
   every good file gets its result) under weak fairness; the model makes the three mechanisms explicit and TLC refutes
   the variants without them (no per-file guard => abort; state carried between conversions of the sequential driver =>
   schedule dependence; coinciding output paths => last writer wins).
2. code -> spec: generated directories (valid RP66V1 / LIS / BIT files from the C11 generators mixed with empty, foreign,
   truncated and bit-damaged files, sub-directories) are converted by the real convert_dir_or_file_to_las and
   convert_dir_or_file_to_las_multiprocessing (jobs 1..16) with a traced picklable conversion function (per-process event
   files with sequence numbers); every file is also converted on its own (twice: must agree with itself).  Each batch run
   is one trace (start / take / finish / end) validated by TLC against BatchTrace.tla: results and output tree (content
   digests without the creation-time line) must equal the isolated ones.
3. fault enumeration: one valid file per format damaged at enumerated positions (truncation, bit flips, 0x00/0xFF
   overwrites) + empty / foreign files: each converted alone under a watchdog - must return a result tuple, must be
   failed/ignored where no other answer is possible, and a sample of them inside batches must not change the others.
"""
import hashlib
import json
import multiprocessing
import os
import random
import shutil
import signal
import time

from .. import repo
from . import c11

LEVEL = 'model_checking'


class Traced:
    """picklable conversion function that logs take/finish per process"""

    def __init__(self, fn, evdir):
        self.fn = fn
        self.evdir = evdir

    def _log(self, rec):
        p = os.path.join(self.evdir, '%d.jsonl' % os.getpid())
        n = 0
        if os.path.exists(p):
            with open(p) as f:
                n = sum(1 for _ in f)
        rec['seq'] = n
        rec['w'] = 'p%d' % os.getpid()
        with open(p, 'a') as f:
            f.write(json.dumps(rec) + '\n')

    def __call__(self, path_in, *args):
        self._log(dict(op='take', f=path_in))
        try:
            r = self.fn(path_in, *args)
        except BaseException as e:
            self._log(dict(op='escape', f=path_in, error='%s: %s' % (type(e).__name__, e)))
            raise
        self._log(dict(op='finish', f=path_in, status=status_of(r), fields=fields_of(r)))
        return r


def status_of(r):
    return 'ignored' if r.ignored else ('failed' if r.exception else 'ok')


def fields_of(r):
    return [str(r.binary_file_type), int(r.size_input), int(r.size_output), int(r.las_count)]


def digest_tree(root):
    out = []
    for d, _dirs, fns in os.walk(root):
        for fn in fns:
            p = os.path.join(d, fn)
            with open(p, 'rb') as f:
                lines = [ln for ln in f.read().split(b'\n') if not ln.startswith(b'CREA.')]
            out.append([os.path.relpath(p, root), hashlib.sha1(b'\n'.join(lines)).hexdigest()[:16]])
    return sorted(out)


class Watchdog(Exception):
    pass


def with_alarm(seconds, fn, *a):
    def h(_s, _f):
        raise Watchdog()
    old = signal.signal(signal.SIGALRM, h)
    signal.alarm(seconds)
    try:
        return fn(*a)
    finally:
        signal.alarm(0)
        signal.signal(signal.SIGALRM, old)


def damage(rng, data, kind):
    b = bytearray(data)
    if kind == 'empty':
        return b''
    if kind == 'truncate':
        return bytes(b[:rng.randrange(1, max(2, len(b)))])
    if kind == 'flip':
        for _ in range(rng.choice([1, 1, 3])):
            i = rng.randrange(len(b))
            b[i] ^= 1 << rng.randrange(8)
        return bytes(b)
    if kind == 'header':
        for i in range(min(80, len(b))):
            b[i] = 0
        return bytes(b)
    if kind == 'text':
        return b'This is not a well log.\n' * rng.randint(1, 30)
    if kind == 'foreign':
        # whole and cut-off files of the other formats the type sniffer knows (cut at line / field boundaries)
        las = [b'~Version Information Section', b'VERS. 2.0 : CWLS LOG ASCII STANDARD - VERSION 2.0', b'WRAP. NO : One line per depth step',
               b'~Well Information Section', b'STRT.M 100.0 : START', b'STOP.M 101.0 : STOP', b'STEP.M 0.5 : STEP', b'NULL. -999.25 : NULL',
               b'~Curve Information Section', b'DEPT.M : depth', b'GR.GAPI : gamma', b'~A', b'100.0 1.0', b'100.5 2.0', b'101.0 3.0']
        dat = [b'UTIM Unix Time sec', b'DATE Date ddmmyy', b'TIME Time hhmmss', b'WAC Wits Activity Code unitless', b'UTIM DATE TIME WAC',
               b'1165665017 09Dec06 11-50-17 0', b'1165665077 09Dec06 11-51-17 0']
        pick = rng.choice(['las', 'las-cut', 'las-cut', 'las-comment', 'dat', 'dat-cut', 'xml', 'pdf', 'ps', 'zip', 'tiff', 'jpeg', 'exe', 'lisver', 'ebcdic'])
        nl = rng.choice([b'\n', b'\r\n'])
        if pick == 'las':
            return nl.join(las) + nl
        if pick == 'las-cut':
            k = rng.randint(1, 4)
            return nl.join(las[:k]) + rng.choice([b'', nl, nl + nl, nl + b'# comment' + nl])
        if pick == 'las-comment':
            return b'# exported' + nl + nl + nl.join(las[:rng.randint(1, len(las))]) + nl
        if pick == 'dat':
            return nl.join(dat) + nl
        if pick == 'dat-cut':
            return nl.join(dat[:rng.randint(1, 5)]) + rng.choice([b'', nl])
        if pick == 'lisver':
            return rng.choice([b'', b'\n']) + b'=LIS VERIFICATION by PETROLOG rev 5.2\n' + b'text\n' * rng.randint(0, 5)
        if pick == 'ebcdic':
            return bytes(rng.choice([0x40, 0xc3, 0xf0, 0xf1, 0xc1, 0xd5]) for _ in range(rng.choice([10, 3200, 3600])))
        magic = {'xml': b'<?xml version="1.0"?>\n<a/>', 'pdf': b'%PDF-1.4\n%', 'ps': b'%!PS-Adobe-3.0\n', 'zip': b'PK\x03\x04\x14\x00',
                 'tiff': rng.choice([b'II*\x00', b'MM\x00*']), 'jpeg': b'\xff\xd8\xff\xe0\x00\x10JFIF\x00', 'exe': b'MZ\x90\x00'}[pick]
        return magic[:rng.randint(1, len(magic))] + bytes(rng.randrange(256) for _ in range(rng.choice([0, 0, 40])))
    if kind == 'random':
        return bytes(rng.randrange(256) for _ in range(rng.randint(1, 600)))
    if kind == 'zeros':
        return bytes(rng.randint(1, 600))
    raise ValueError(kind)


class Fresh:
    """Conversions in a process that has never converted anything: a server forked before the harness touches the converters forks one
    child per job, so module-level state left behind by an earlier conversion (in the harness process) cannot be there."""

    def __init__(self, conv):
        import multiprocessing
        mp = multiprocessing.get_context('fork')
        self.parent, child = mp.Pipe()
        self.proc = mp.Process(target=Fresh._serve, args=(child, conv))
        self.proc.start()
        child.close()

    @staticmethod
    def _serve(conn, conv):
        import multiprocessing
        mp = multiprocessing.get_context('fork')
        while True:
            try:
                job = conn.recv()
            except EOFError:
                break
            if job is None:
                break
            a, b = mp.Pipe()
            p = mp.Process(target=Fresh._one, args=(b, conv, job))
            p.start()
            b.close()
            try:
                res = a.recv() if a.poll(90) else ('hang', None)
            except EOFError:
                res = ('escaped', 'process died')
            p.join(2)
            if p.is_alive():
                p.terminate()
            conn.send(res)

    @staticmethod
    def _one(conn, conv, job):
        cname, args = job
        try:
            conn.send(('ok', tuple(conv[cname](*args))))
        except BaseException as e:
            conn.send(('escaped', type(e).__name__))
        os._exit(0)

    def run(self, cname, args):
        self.parent.send((cname, args))
        return self.parent.recv()

    def close(self):
        try:
            self.parent.send(None)
            self.proc.join(5)
        except Exception:
            pass
        if self.proc.is_alive():
            self.proc.terminate()


def foreign_variants():
    """the 'foreign' files of damage(), enumerated: every cut of the LAS / DAT texts at a line boundary with every ending, the
    whole files, and every prefix of the magic numbers the sniffer knows"""
    las = [b'~Version Information Section', b'VERS. 2.0 : CWLS LOG ASCII STANDARD - VERSION 2.0', b'WRAP. NO : One line per depth step',
           b'~Well Information Section', b'STRT.M 100.0 : START', b'STOP.M 101.0 : STOP', b'STEP.M 0.5 : STEP', b'NULL. -999.25 : NULL',
           b'~Curve Information Section', b'DEPT.M : depth', b'GR.GAPI : gamma', b'~A', b'100.0 1.0', b'100.5 2.0', b'101.0 3.0']
    dat = [b'UTIM Unix Time sec', b'DATE Date ddmmyy', b'TIME Time hhmmss', b'WAC Wits Activity Code unitless', b'UTIM DATE TIME WAC',
           b'1165665017 09Dec06 11-50-17 0', b'1165665077 09Dec06 11-51-17 0']
    out = []
    for nl in (b'\n', b'\r\n'):
        out.append(('las', nl.join(las) + nl))
        out.append(('dat', nl.join(dat) + nl))
        for k in range(1, 6):
            for end in (b'', nl, nl + nl, nl + b'# comment' + nl):
                out.append(('las-cut-%d' % k, nl.join(las[:k]) + end))
            out.append(('las-comment-cut-%d' % k, b'# exported' + nl + nl + nl.join(las[:k]) + nl))
        for k in range(1, 7):
            for end in (b'', nl):
                out.append(('dat-cut-%d' % k, nl.join(dat[:k]) + end))
    for name, magic in (('xml', b'<?xml version="1.0"?>\n<a/>'), ('pdf', b'%PDF-1.4\n%'), ('ps', b'%!PS-Adobe-3.0\n'), ('zip', b'PK\x03\x04\x14\x00'),
                        ('tiff-le', b'II*\x00'), ('tiff-be', b'MM\x00*'), ('jpeg', b'\xff\xd8\xff\xe0\x00\x10JFIF\x00'), ('exe', b'MZ\x90\x00'),
                        ('lisver', b'\n=LIS VERIFICATION by PETROLOG rev 5.2\ntext\n')):
        for k in sorted({1, 2, len(magic) // 2, len(magic) - 1, len(magic)}):
            if k >= 1:
                out.append(('%s-%d' % (name, k), magic[:k]))
    return out


MUST_NOT_CONVERT = ('empty', 'text', 'random', 'zeros', 'header', 'foreign')


def design(ctx):
    from ..tlc import raw

    def v(name, mode, guard, carry, classes, paths, invs, props=(), expect_ok=True, workers=('w1', 'w2', 'w3'), **kw):
        files = sorted(classes)
        fs = ', '.join('"%s"' % f for f in files)
        consts = dict(Files=frozenset(files), Workers=frozenset(workers), Mode=mode,
                      Class=raw('[f \\in {%s} |-> CASE %s]' % (fs, ' [] '.join('f = "%s" -> "%s"' % (f, c) for f, c in sorted(classes.items())))),
                      PathOf=raw('[f \\in {%s} |-> CASE %s]' % (fs, ' [] '.join('f = "%s" -> "%s"' % (f, p) for f, p in sorted(paths.items())))))
        r = ctx.tlc_check('MC_Batch_' + name, 'Batch', consts=consts, cfg_consts=dict(Guard=guard, Carry=carry), invariants=invs,
                          properties=props, expect_ok=expect_ok, timeout=900, **kw)
        if not expect_ok:
            if r.ok():
                ctx.vacuity.append('Batch variant %s was expected to be refuted' % name)
            else:
                ctx.notes['design_counterexample_' + name] = '%s %s after %d steps' % (r.error, r.error_name, len(r.trace))
        return r
    inv = ['TypeOK', 'OneResultPerFile', 'AtMostOneWorkerPerFile', 'NeverAborted', 'ScheduleFree', 'TreeExact']
    assigns = [dict(a='good', b='bad', c='foreign', d='good'), dict(a='bad', b='bad', c='good', d='good'), dict(a='good', b='good', c='good', d='bad'),
               dict(a='foreign', b='bad', c='bad', d='bad')]
    if ctx.quick:
        assigns = assigns[:2]
    for i, cl in enumerate(assigns):
        pa = {f: 'p' + f for f in cl}
        v('pool_%d' % i, 'pool', 'TRUE', 'FALSE', cl, pa, inv, props=['Isolation'], need_actions=['Take', 'Finish'])
        v('seq_%d' % i, 'seq', 'TRUE', 'FALSE', cl, pa, inv, props=['Isolation'], need_actions=['Take', 'Finish'])
    v('no_guard', 'pool', 'FALSE', 'FALSE', assigns[0], {f: 'p' + f for f in assigns[0]}, ['NeverAborted'], expect_ok=False)
    v('carried_state', 'seq', 'TRUE', 'TRUE', dict(a='leaky', b='sensitive', c='good'), dict(a='pa', b='pb', c='pc'), ['ScheduleFree'], expect_ok=False)
    v('carried_state_pool', 'pool', 'TRUE', 'TRUE', dict(a='leaky', b='sensitive', c='good'), dict(a='pa', b='pb', c='pc'), inv, props=['Isolation'])
    v('colliding_paths', 'pool', 'TRUE', 'FALSE', dict(a='good', b='good', c='bad'), dict(a='p', b='p', c='pc'), ['TreeExact'], expect_ok=False)


def build_valid(rng, fmt, ctx):
    if fmt == 'RP66V1':
        return c11.build_dlis(rng)[0]
    if fmt == 'LIS':
        return c11.build_lis(rng, ctx)[0]
    return c11.build_bit(rng)[0]


EXT = {'RP66V1': ['.dlis', '.DLIS', '.bin'], 'LIS': ['.lis', '.LIS', '.tap'], 'BIT': ['.bit', '.BIT', '.dat']}


_QUIRKS = [0]


def make_dir(rng, ctx, root, same_stem=False, carry=False, probe=None, full=False):
    """returns list of (relative path, class) of the files written under root"""
    os.makedirs(root)
    files = []
    nvalid = 6 if full else rng.randint(2, 5)
    nbad = rng.randint(1, 4)
    stems = ['%c%02d' % (rng.choice('abmz'), i) for i in range(nvalid + nbad + 1)]
    rng.shuffle(stems)
    sub = full or rng.random() < 0.4
    if sub:
        os.makedirs(os.path.join(root, 'sub', 'deep', 'er'))       # files one and three levels down
    k = 0
    valid_data = []
    for i in range(nvalid):
        fmt = ['RP66V1', 'LIS', 'BIT'][i % 3] if full else rng.choice(['RP66V1', 'LIS', 'BIT'])
        data = build_valid(rng, fmt, ctx)
        valid_data.append((fmt, data))
        rel = stems[k] + rng.choice(EXT[fmt])
        if sub and rng.random() < 0.4:
            rel = os.path.join(rng.choice(['sub', 'sub', os.path.join('sub', 'deep', 'er')]), rel)
        k += 1
        if full and i == nvalid - 1:
            rel = os.path.join('sub', 'deep', 'er', os.path.basename(rel))
        files.append((rel, 'valid-' + fmt, data))
    for i in range(nbad + (1 if full else 0)):
        kind = rng.choice(['empty', 'truncate', 'truncate', 'flip', 'flip', 'header', 'text', 'random', 'zeros', 'foreign', 'foreign', 'foreign', 'origin-quirk'])
        if full and i == nbad:
            kind = 'origin-quirk'
        fmt, base = rng.choice(valid_data)
        if kind == 'origin-quirk':
            # a conformant RP66V1 file whose ORIGIN lacks something the converter reads (an Absent Attribute, or the label is
            # not in the template): the converter may fail on it or convert it, but must do the same in every mode
            lab = rng.choice([b'CREATION-TIME', b'CREATION-TIME', b'WELL-NAME', b'FIELD-NAME', b'COMPANY', b'PRODUCER-NAME'])
            how = rng.choice(['absent', 'absent', 'omit'])
            if full and i == nbad:
                # the one every full directory has: each attribute in turn, absent first (not drawn)
                labs_ = [b'CREATION-TIME', b'WELL-NAME', b'COMPANY', b'FIELD-NAME', b'PRODUCER-NAME']
                lab, how = labs_[_QUIRKS[0] % len(labs_)], ('absent', 'omit')[(_QUIRKS[0] // len(labs_)) % 2]
                _QUIRKS[0] += 1
            fmt, data = 'RP66V1', c11.build_dlis(rng, origin_kw={how: (lab,)})[0]
        else:
            data = damage(rng, base, kind)
        rel = stems[k] + rng.choice(EXT[fmt] + ['.txt', ''])
        if sub and rng.random() < 0.4:
            rel = os.path.join(rng.choice(['sub', 'sub', os.path.join('sub', 'deep', 'er')]), rel)
        k += 1
        files.append((rel, kind, data))
    if probe is not None:
        # one file per format that its own converter recognises but fails on, placed first and last in alphabetical order
        for fmt in ('RP66V1', 'LIS', 'BIT'):
            for attempt in range(60):
                base = build_valid(rng, fmt, ctx)
                data = damage(rng, base, rng.choice(['truncate', 'flip']))
                if probe(fmt, data) == 'failed':
                    fname = rng.choice(['0fail_', 'zzfail_']) + fmt + EXT[fmt][0]
                    files.append((fname, 'fails-' + fmt, data))
                    # and a VALID neighbour whose name continues the failing file's stem with '_' (BASIC_FILE.dlis /
                    # BASIC_FILE_WITH_....dlis in the repository's own data): what a failing conversion cleans up must be its own
                    small = min((build_valid(rng, fmt, ctx) for _ in range(4)), key=len)
                    files.append((os.path.splitext(fname)[0] + '_more' + EXT[fmt][0], 'valid-' + fmt, small))
                    break
    if carry:
        # a file whose X axis is DEPT, then (alphabetically and by size) a file with an ordinary channel called DEPT
        while True:
            a, pa, _ = c11.build_dlis(rng)
            if pa[0]['names'][0] == 'DEPT':
                break
        while True:
            b, pb, _ = c11.build_dlis(rng)
            if any('DEPT' in p['names'][1:] for p in pb) and len(b) > len(a):
                break
        files.append(('carry_a.dlis', 'valid-RP66V1', a))
        files.append(('carry_b.dlis', 'valid-RP66V1', b))
        # the same for LIS: a file whose only log pass lacks requested channels (CH01, CH02), then a file that has them
        while True:
            la, pa, _ = c11.build_lis(rng, ctx)
            if len(pa) == 1 and 'CH00' in pa[0]['names'] and 'CH01' not in pa[0]['names']:
                break
        while True:
            lb, pb, _ = c11.build_lis(rng, ctx)
            if all('CH00' in p['names'] and 'CH01' in p['names'] and 'CH02' in p['names'] for p in pb):
                break
        files.append(('carry_c.lis', 'valid-LIS', la))
        files.append(('carry_d.lis', 'valid-LIS', lb))
    if same_stem:
        a = c11.build_dlis(rng)[0]
        b = c11.build_dlis(rng)[0]
        files.append(('same.dlis', 'valid-RP66V1', a))
        files.append(('same.bin', 'valid-RP66V1', b))
    for rel, _cls, data in files:
        with open(os.path.join(root, rel), 'wb') as f:
            f.write(data)
    return [(rel, cls) for rel, cls, _ in files]


def dirwalk_replay(ctx):
    """DirWalk.tla: TLC checks the generator design against the abstract walk for every tree in the bound (every file in
    scope exactly once, equal sizes included) and writes the table of trees; sampled rows are created on disk and walked by the
    real dirWalk in all four modes: the (input, output) pairs must be exactly the abstract ones, no path twice."""
    import fnmatch
    from ..tlc import raw
    from TotalDepth.util import DirWalk
    names, dirs = ['a1', 'b2', 'c3'], ['a9', 'b1']
    rank = {n: i for i, n in enumerate(sorted(names + dirs))}

    def consts(order, match=()):
        return dict(FileNames=frozenset(names), DirNames=frozenset(dirs), Sizes=raw('{1, 2}'), Match=frozenset(match), BigFirstOrder=order,
                    Rank=raw('[n \\in {%s} |-> CASE %s]' % (', '.join('"%s"' % n for n in rank), ' [] '.join('n = "%s" -> %d' % (n, i) for n, i in rank.items()))))
    ctx.tlc_check('MC_DirWalk', 'DirWalk', consts=consts('ascending'), defs='ASSUME Refines', coverage=False, timeout=900)
    ctx.tlc_check('MC_DirWalk_match', 'DirWalk', consts=consts('ascending', ['a1', 'c3']), defs='ASSUME Refines', coverage=False, timeout=900)
    r = ctx.tlc_check('MC_DirWalk_order', 'DirWalk', consts=consts('ascending'), defs='ASSUME LargestFirst', coverage=False, timeout=900, expect_ok=False)
    ctx.notes['dirwalk_big_first_order'] = ('as coded gen_big_first sorts (size, name) ascending: TLC refutes the documented "largest first" for the coded order '
                                            '(not part of C12: any order of tasks is allowed)') if not r.ok() else 'largest first holds'
    ft = os.path.join(ctx.wdir('dirwalk'), 'rows.json')
    ctx.tlc_check('MC_DirWalkTable', 'DirWalkTable', consts=consts('ascending'), env={'OUT_TABLE': ft}, workers=1, coverage=False, timeout=900)
    rows = json.load(open(ft))
    rng = ctx.subrng('dirwalk')
    rows = rng.sample(rows, min(len(rows), ctx.pick(1200, 12000)))
    root = ctx.wdir('dirwalk_trees')
    for ri, row in enumerate(rows):
        top = os.path.join(root, 't%d' % ri, 'in')
        os.makedirs(top)
        for n, sz in row['files']:
            with open(os.path.join(top, n), 'wb') as f:
                f.write(b'x' * sz)
        for d, lst in row['dirs']:
            os.makedirs(os.path.join(top, d))
            for n, sz in lst:
                with open(os.path.join(top, d, n), 'wb') as f:
                    f.write(b'x' * sz)
        scope = [tuple(r) for r in row['scope']]
        equal_sizes = len({sz for _n, sz in row['files']}) < len(row['files'])
        ctx.case(('dirwalk', ri), equal_sizes or bool(row['dirs']))
        for big in (False, True):
            for out in ('', os.path.join(root, 't%d' % ri, 'out')):
                for pat in ('', '*1') if ri % 4 == 0 else ('',):
                    try:
                        got = list(DirWalk.dirWalk(top, out, pat, row['rec'], big))
                    except Exception as e:
                        ctx.fail('dirWalk raised %s: %s on %s' % (type(e).__name__, e, json.dumps(row)[:300]), dict(row=row), sig=dict(kind='dirwalk-exception'))
                        continue
                    want = sorted((os.path.join(top, *r), os.path.join(out, *r) if out else '') for r in scope if not pat or fnmatch.fnmatch(r[-1], pat))
                    pairs = sorted((g.filePathIn, g.filePathOut) for g in got)
                    if pairs != want:
                        ctx.fail('dirWalk(recursive=%s, bigFirst=%s, out=%r, match=%r) yields %r, the tree holds %r; tree %s' % (
                            row['rec'], big, bool(out), pat, [os.path.relpath(a, top) for a, _ in pairs], [os.path.relpath(a, top) for a, _ in want], json.dumps(row)[:300]),
                            dict(row=row, big=big), sig=dict(kind='dirwalk', big=big, equal_sizes=equal_sizes))
        shutil.rmtree(os.path.join(root, 't%d' % ri), ignore_errors=True)
    ctx.notes['dirwalk_trees_replayed'] = len(rows)
    # ---- trees of any depth (DirWalkDeep.tla): the flags must travel down every level ----
    fnames, dnames = ['a1', 'c3'], ['b2']
    drank = {n: i for i, n in enumerate(sorted(fnames + dnames))}

    def dconsts(variant):
        return dict(FileNames=frozenset(fnames), DirNames=frozenset(dnames), Sizes=raw('{1, 2}'), MaxDepth=raw('2'), Variant=variant,
                    Rank=raw('[n \\in {%s} |-> CASE %s]' % (', '.join('"%s"' % n for n in drank), ' [] '.join('n = "%s" -> %d' % (n, i) for n, i in drank.items()))))
    ctx.tlc_check('MC_DirWalkDeep', 'DirWalkDeep', consts=dconsts('as_coded'), defs='ASSUME Refines /\\ SameTasks', coverage=False, timeout=900)
    ctx.tlc_check('MC_DirWalkDeep_fb', 'DirWalkDeep', consts=dconsts('forget_big'), defs='ASSUME Refines /\\ SameTasks', coverage=False, timeout=900)
    r1 = ctx.tlc_check('MC_DirWalkDeep_fr', 'DirWalkDeep', consts=dconsts('forget_recursive_big'), defs='ASSUME SameTasks', coverage=False, timeout=900, expect_ok=False)
    r2 = ctx.tlc_check('MC_DirWalkDeep_fr1', 'DirWalkDeep', consts=dconsts('forget_recursive_big'), defs='ASSUME OneLevelAgrees', coverage=False, timeout=900)
    if r1.ok():
        ctx.vacuity.append('DirWalkDeep: the design that forgets `recursive` in the biggest-first branch was expected to be refuted')
    ctx.notes['dirwalk_deep'] = 'forgetting `recursive` one level down is refuted at depth 2 and agrees on trees one level deep (OneLevelAgrees %s)' % ('holds' if r2.ok() else 'fails')
    ft2 = os.path.join(ctx.wdir('dirwalk'), 'rows_deep.json')
    ctx.tlc_check('MC_DirWalkDeepTable', 'DirWalkDeepTable', consts=dconsts('as_coded'), env={'OUT_TABLE': ft2}, workers=1, coverage=False, timeout=900)
    drows = json.load(open(ft2))
    drows = [r_ for r_ in drows if any(len(p_) == 3 for p_, _ in r_['files'])]          # the trees DirWalk.tla cannot express
    drows = rng.sample(drows, min(len(drows), ctx.pick(300, 3000)))
    for ri, row in enumerate(drows):
        top = os.path.join(root, 'd%d' % ri, 'in')
        for p_, sz in row['files']:
            os.makedirs(os.path.join(top, *p_[:-1]), exist_ok=True)
            with open(os.path.join(top, *p_), 'wb') as f:
                f.write(b'x' * sz)
        scope = [tuple(r_) for r_ in row['scope']]
        ctx.case(('dirwalk-deep', ri), True)
        for big in (False, True):
            out = os.path.join(root, 'd%d' % ri, 'out')
            try:
                got = list(DirWalk.dirWalk(top, out, '', row['rec'], big))
            except Exception as e:
                ctx.fail('dirWalk raised %s: %s on %s' % (type(e).__name__, e, json.dumps(row)[:300]), dict(row=row), sig=dict(kind='dirwalk-exception'))
                continue
            want = sorted((os.path.join(top, *r_), os.path.join(out, *r_)) for r_ in scope)
            pairs = sorted((g.filePathIn, g.filePathOut) for g in got)
            if pairs != want:
                ctx.fail('dirWalk(recursive=%s, bigFirst=%s) on a tree three levels deep yields %r, the tree holds %r' % (
                    row['rec'], big, [os.path.relpath(a, top) for a, _ in pairs], [os.path.relpath(a, top) for a, _ in want]),
                    dict(row=row, big=big), sig=dict(kind='dirwalk', big=big, deep=True))
        shutil.rmtree(os.path.join(root, 'd%d' % ri), ignore_errors=True)
    ctx.notes['dirwalk_deep_trees_replayed'] = len(drows)


def proclog_extra(ctx):
    """Beyond the listed properties: the process logging thread that wraps the sequential driver under --log-process
    (common/process.py).  ProcLog.tla models the two threads and the message queue; TLC refutes NeverStuck for the code as
    written (empty() then blocking get() is not atomic) and proves it, with termination, for a non-blocking take.  The
    counterexample schedule is then replayed on the REAL ProcessLoggingThread through a scheduling proxy for the queue.
    The outcome is recorded in the evidence only - it is not a verdict on C12."""
    import queue
    import threading
    from TotalDepth.common import process as P
    r = ctx.tlc_check('MC_ProcLog_coded', 'ProcLog', cfg_consts=dict(MaxMsgs='2', MaxWakes='2', AtomicDrain='FALSE'), invariants=['NeverStuck'],
                      expect_ok=False, timeout=900)
    ctx.tlc_check('MC_ProcLog_coded_safe', 'ProcLog', cfg_consts=dict(MaxMsgs='2', MaxWakes='2', AtomicDrain='FALSE'), invariants=['AtMostOnce', 'AllLogged'], timeout=900)
    ctx.tlc_check('MC_ProcLog_atomic', 'ProcLog', cfg_consts=dict(MaxMsgs='2', MaxWakes='2', AtomicDrain='TRUE'),
                  invariants=['NeverStuck', 'AtMostOnce', 'AllLogged'], properties=['Termination'], timeout=900)
    note = dict(tlc_refutes_never_stuck=not r.ok(), counterexample_steps=len(r.trace))
    # the queue operations of the counterexample, in order: who performs empty() / get()
    sched = []
    prev = None
    for a, st in r.trace:
        if prev is not None:
            for who, pc in (('M', 'pcM'), ('L', 'pcL')):
                if prev[pc] != st[pc] or (prev['q'] != st['q'] and a.startswith('<' + ('MWrite' if who == 'M' else 'LWrite'))):
                    if prev[pc] in ('w_empty', 'w_loop') and a.startswith('<' + ('MWrite' if who == 'M' else 'LWrite')):
                        sched.append((who, 'empty'))
                    elif prev[pc] == 'w_get' and a.startswith('<' + ('MWrite' if who == 'M' else 'LWrite')):
                        sched.append((who, 'get'))
        prev = st
    stuck = 'L' if r.trace and r.trace[-1][1]['pcL'] == 'w_get' else 'M'
    sched.append((stuck, 'get'))
    note['schedule'] = sched

    class Controlled:
        def __init__(self, schedule):
            self.q, self.sched, self.cv, self.log = queue.Queue(), list(schedule), threading.Condition(), []

        def _turn(self, op):
            role = 'L' if isinstance(threading.current_thread(), P.ProcessLoggingThread) else 'M'
            with self.cv:
                while self.sched and self.sched[0] != (role, op):
                    if not self.cv.wait(timeout=5):
                        self.log.append(('TIMEOUT', role, op))
                        break
                if self.sched and self.sched[0] == (role, op):
                    self.sched.pop(0)
                self.log.append((role, op))
                self.cv.notify_all()

        def put(self, m):
            self.q.put(m)

        def empty(self):
            self._turn('empty')
            return self.q.empty()

        def get(self):
            self._turn('get')
            return self.q.get()
    c = Controlled(sched)
    orig = P.process_queue
    P.process_queue = c
    try:
        nmsg = r.trace[-1][1]['added'] if r.trace else 1
        for k in range(nmsg):
            P.add_message_to_queue('m%d' % (k + 1))
        th = P.ProcessLoggingThread(args=(0.01,), kwargs={})
        th.daemon = True
        th.start()
        joiner = threading.Thread(target=th.join, daemon=True)
        joiner.start()
        joiner.join(3.0)
        note['join_blocked_after_3s'] = joiner.is_alive()
        note['operations_observed'] = [list(x) for x in c.log][:20]
        c.put('release')
        joiner.join(5.0)
        note['released_cleanly'] = not joiner.is_alive()
    except Exception as e:
        note['replay_error'] = '%s: %s' % (type(e).__name__, e)
    finally:
        P.process_queue = orig
    ctx.notes['process_logging_thread'] = note


def run(ctx):
    _QUIRKS[0] = 0
    repo.setup()
    from ..core import quiet_logging
    quiet_logging()
    import logging
    logging.disable(logging.CRITICAL)
    from TotalDepth.RP66V1 import ToLAS as RT
    from TotalDepth.LIS import ToLAS as LT
    from TotalDepth.BIT import ToLAS as BT
    from TotalDepth.LAS.core import WriteLAS
    from TotalDepth.common import Slice
    from TotalDepth.util import DirWalk
    design(ctx)
    dirwalk_replay(ctx)
    proclog_extra(ctx)
    rng = ctx.subrng('c12')
    wd = ctx.wdir('dirs')
    conv = {'RP66V1': RT.single_rp66v1_file_to_las, 'LIS': LT.single_lis_file_to_las, 'BIT': BT.single_bit_path_to_las_path}
    fresh = Fresh(conv)          # forked now, before this process converts anything
    import atexit
    atexit.register(fresh.close)
    traces, meta, special = [], [], []
    pdir = ctx.wdir('probe')

    def probe(fmt, data):
        pin = os.path.join(pdir, 'p.bin')
        with open(pin, 'wb') as f:
            f.write(data)
        try:
            return status_of(with_alarm(60, conv[fmt], pin, 'first', os.path.join(pdir, 'o', 'p.bin'), Slice.Slice(), set(), 16, '.3f'))
        except Exception:
            return 'escaped'
        finally:
            shutil.rmtree(os.path.join(pdir, 'o'), ignore_errors=True)
    ndirs = ctx.pick(6, 40)
    jobs_menu = ctx.pick([1, 2, 3, 16], [1, 2, 3, 4, 8, 16])
    for di in range(ndirs):
        same_stem = (di == 1)
        root = os.path.join(wd, 'd%d' % di)
        carry = (di == 0)
        listing = make_dir(rng, ctx, os.path.join(root, 'in'), same_stem=same_stem, carry=carry, probe=probe, full=di < 2)
        cls = dict(listing)
        recurse = any(os.sep in rel for rel, _ in listing) or rng.random() < 0.5
        visible = [rel for rel, _ in listing if recurse or os.sep not in rel]
        for cname in (['RP66V1', 'LIS', 'BIT'] if (not ctx.quick or di < 2) else [rng.choice(['RP66V1', 'LIS', 'BIT'])]):
            fn = conv[cname]
            sel = rng.choice([Slice.Slice(), Slice.Slice(None, None, 2), Slice.Sample(3), Slice.Slice(20, None, None)])
            if di == 0:
                sel = Slice.Slice()
            elif di == 1:
                sel = Slice.Slice(20, None, None)
            mostly_empty = sel == Slice.Slice(20, None, None)     # selects nothing in most passes: conversions fail (allowed, see C11)
            req = set() if (rng.random() < 0.5 and not carry) else {'C001', 'C101', 'C102', 'CH00', 'CH01', 'CH02', 'C00 '}
            args = ('first', sel, req, 16, '.3f')
            din = os.path.join(root, 'in')
            # isolated conversions (twice)
            iso = {}
            deterministic = True
            for rel in visible:
                two = []
                for rep in range(2):
                    out_root = os.path.join(root, 'iso_%s_%d' % (cname, rep), rel.replace(os.sep, '__'))
                    pout = os.path.join(out_root, 'o', rel)
                    os.makedirs(os.path.dirname(pout), exist_ok=True)
                    try:
                        if rep == 0:
                            r = with_alarm(60, fn, os.path.join(din, rel), args[0], pout, args[1], set(args[2]), args[3], args[4])
                        else:
                            # the second time in a process that has never converted anything (no state left by earlier files)
                            st_, val_ = fresh.run(cname, (os.path.join(din, rel), args[0], pout, args[1], set(args[2]), args[3], args[4]))
                            if st_ == 'hang':
                                raise Watchdog()
                            if st_ != 'ok':
                                raise RuntimeError(val_)
                            r = WriteLAS.LASWriteResult(*val_)
                        two.append(dict(status=status_of(r), fields=fields_of(r), outs=digest_tree(os.path.join(out_root, 'o'))))
                    except Watchdog:
                        two.append(dict(status='hang', fields=[], outs=[]))
                    except Exception as e:
                        two.append(dict(status='escaped', fields=[type(e).__name__], outs=[]))
                if two[0] != two[1]:
                    deterministic = False
                    ctx.fail('%s converter: converting %s (%s) on its own twice - in the process that converted other files before, and in a '
                             'fresh process - gives different answers: %s vs %s' % (cname, rel, cls[rel], two[0], two[1]),
                             dict(file=rel, cls=cls[rel]), sig=dict(kind='nondeterministic', converter=cname))
                iso[rel] = two[0]
                ctx.case(('iso', di, cname, rel), cls[rel] != 'valid-' + cname)
                if two[0]['status'] in ('hang', 'escaped'):
                    ctx.fail('%s converter on %s (%s): %s %s' % (cname, rel, cls[rel], two[0]['status'], two[0]['fields']), dict(file=rel, cls=cls[rel]),
                             sig=dict(kind=two[0]['status'], converter=cname))
                elif cls[rel] in MUST_NOT_CONVERT and two[0]['status'] == 'ok' and two[0]['fields'][3] > 0:
                    ctx.fail('%s converter reports %s file %s as converted: %s' % (cname, cls[rel], rel, two[0]), dict(file=rel, cls=cls[rel]),
                             sig=dict(kind='bad-file-converted', converter=cname, cls=cls[rel]))
                elif cls[rel].startswith('valid-') and cls[rel] != 'valid-' + cname and two[0]['status'] != 'ignored':
                    ctx.fail('%s converter does not ignore the %s file %s: %s' % (cname, cls[rel], rel, two[0]), dict(file=rel, cls=cls[rel]),
                             sig=dict(kind='foreign-not-ignored', converter=cname))
                elif cls[rel] == 'valid-' + cname and two[0]['status'] != 'ok' and not mostly_empty:
                    ctx.fail('%s converter fails on the valid file %s: %s' % (cname, rel, two[0]), dict(file=rel), sig=dict(kind='valid-failed', converter=cname))
            if not deterministic or any(v['status'] in ('hang', 'escaped') for v in iso.values()):
                continue
            files = sorted(visible)
            start = dict(op='start', files=files, mode='', iso=[iso[f] for f in files])
            for mode, jobs in [('seq', 0)] + [('pool', j) for j in jobs_menu]:
                tag = '%s_%s%d' % (cname, mode, jobs)
                evdir = os.path.join(root, 'ev_' + tag)
                dout = os.path.join(root, 'out_' + tag)
                os.makedirs(evdir)
                traced = Traced(fn, evdir)
                raised = None
                res = {}
                try:
                    if mode == 'seq':
                        res = with_alarm(600, WriteLAS.convert_dir_or_file_to_las, din, dout, recurse, args[0], args[1], set(args[2]), args[3], args[4], traced)
                    else:
                        res = with_alarm(600, WriteLAS.convert_dir_or_file_to_las_multiprocessing, din, dout, recurse, args[0], args[1], set(args[2]), args[3], args[4],
                                         jobs, traced)
                except Watchdog:
                    raised = 'the batch did not finish within 600 s'
                    ctx.fail('%s %s run with %d jobs did not finish within 600 s (directory %d)' % (cname, mode, jobs, di), dict(dir=di, converter=cname, mode=mode, jobs=jobs),
                             sig=dict(kind='batch-hang', converter=cname, mode=mode))
                except Exception as e:
                    raised = '%s: %s' % (type(e).__name__, e)
                for ch in multiprocessing.active_children():        # the driver never closes its pool
                    if ch.pid != fresh.proc.pid:
                        ch.terminate()
                        ch.join()
                tr = [dict(start, mode=mode)]
                for evf in sorted(os.listdir(evdir)):
                    for ln in open(os.path.join(evdir, evf)):
                        e = json.loads(ln)
                        e['f'] = os.path.relpath(e['f'], din)
                        e.pop('seq')
                        tr.append(e)
                tree = digest_tree(dout) if os.path.isdir(dout) else []
                tr.append(dict(op='end', raised=raised is not None, error=raised or '',
                               results=[dict(f=os.path.relpath(k, din), status=status_of(v), fields=fields_of(v)) for k, v in res.items()], tree=tree))
                m = dict(dir=di, converter=cname, mode=mode, jobs=jobs, recurse=recurse, files=[(f, cls[f]) for f in files], same_stem=same_stem)
                ctx.case(('batch', di, cname, mode, jobs), mode == 'pool' and jobs > 1)
                if same_stem and cname == 'RP66V1':
                    special.append((tr, m))
                else:
                    traces.append(tr)
                    meta.append(m)
                shutil.rmtree(dout, ignore_errors=True)
                shutil.rmtree(evdir, ignore_errors=True)
        shutil.rmtree(root, ignore_errors=True)
    if traces:
        ctx.sample(dict(meta=meta[0], events=traces[0][1:6], start=dict(files=traces[0][0]['files'], iso=traces[0][0]['iso'][:2])))

    def report(trs, mts, name, known_sig=None):
        rej = ctx.validate_traces(name, 'BatchTrace', trs, workers=16, timeout=3000, max_reject=40)
        for t, l, st in rej:
            ev = trs[t][l - 1] if l and l <= len(trs[t]) else None
            m = mts[t]
            detail = json.dumps(ev)[:600]
            if ev and ev.get('op') == 'end':
                iso_out = sorted(o for i in trs[t][0]['iso'] for o in i['outs'])
                detail = 'raised=%s results=%s; tree-only %s; isolated-only %s' % (
                    ev['error'] or False, json.dumps(ev['results'])[:300],
                    [o for o in ev['tree'] if o not in iso_out][:4], [o for o in iso_out if o not in ev['tree']][:4])
            sig = dict(kind='trace', converter=m['converter'], mode=m['mode'], op=ev and ev.get('op'))
            if known_sig and ev:
                # only differences confined to the colliding 'same.*' inputs / 'same_*' outputs are the listed finding
                if ev.get('op') == 'end' and not ev['raised']:
                    iso_out = sorted(o for i in trs[t][0]['iso'] for o in i['outs'])
                    diff = [o for o in ev['tree'] if o not in iso_out] + [o for o in iso_out if o not in ev['tree']]
                    isoby = dict(zip(trs[t][0]['files'], trs[t][0]['iso']))
                    resdiff = [r for r in ev['results'] if r['f'] not in isoby or r['status'] != isoby[r['f']]['status'] or r['fields'] != isoby[r['f']]['fields']]
                    if all(o[0].startswith('same_') for o in diff) and all(r['f'].startswith('same.') for r in resdiff) \
                            and len(ev['results']) == len(isoby):
                        sig = dict(known_sig)
                elif ev.get('op') == 'finish' and ev['f'].startswith('same.'):
                    sig = dict(known_sig)
            ctx.fail('batch run rejected by BatchTrace at event %s (%s): %s; run %s' % (l, ev and ev.get('op'), detail, json.dumps(m)[:500]),
                     dict(meta=m, event=ev, l=l), sig=sig)
    report(traces, meta, 'BatchTrace')
    if special:
        report([t for t, _ in special], [m for _, m in special], 'BatchTrace_same_stem', known_sig=dict(kind='same-stem-outputs-collide'))

    # 2b. walks that yield no file at all (an empty directory; sub-directories only, converted without recursion; a tree of empty
    # directories): every driver returns an empty result, writes nothing and does not raise - the boundary of "any number of
    # worker processes" / "one result per input file"
    eroot = os.path.join(wd, 'empty_walks')
    for layout, recurse in (('empty', False), ('empty', True), ('only-subdir', False), ('empty-tree', True)):
        din = os.path.join(eroot, layout + str(recurse), 'in')
        os.makedirs(din)
        if layout == 'only-subdir':
            os.makedirs(os.path.join(din, 'sub'))
            with open(os.path.join(din, 'sub', 'a.dlis'), 'wb') as f_:
                f_.write(build_valid(rng, 'RP66V1', ctx))
        elif layout == 'empty-tree':
            os.makedirs(os.path.join(din, 'a', 'b'))
        for cname in ('RP66V1', 'LIS', 'BIT'):
            for mode, jobs in (('seq', 0), ('pool', 1), ('pool', 3)):
                dout = os.path.join(eroot, layout + str(recurse), 'out_%s_%s%d' % (cname, mode, jobs))
                ctx.case(('empty-walk', layout, recurse, cname, mode, jobs), True)
                try:
                    if mode == 'seq':
                        res = with_alarm(120, WriteLAS.convert_dir_or_file_to_las, din, dout, recurse, 'first', Slice.Slice(), set(), 16, '.3f', conv[cname])
                    else:
                        res = with_alarm(120, WriteLAS.convert_dir_or_file_to_las_multiprocessing, din, dout, recurse, 'first', Slice.Slice(), set(), 16, '.3f',
                                         jobs, conv[cname])
                    outs = digest_tree(dout) if os.path.isdir(dout) else []
                    if len(res) or outs:
                        ctx.fail('%s %s run (%d jobs) over a directory whose walk yields no file (%s, recurse=%s) reports %d results and writes %r' % (
                            cname, mode, jobs, layout, recurse, len(res), outs[:3]), dict(layout=layout, converter=cname, mode=mode, jobs=jobs),
                            sig=dict(kind='empty-walk', converter=cname, mode=mode))
                except Exception as e:
                    ctx.fail('%s %s run (%d jobs) over a directory whose walk yields no file (%s, recurse=%s) raised %s: %s' % (
                        cname, mode, jobs, layout, recurse, type(e).__name__, e), dict(layout=layout, converter=cname, mode=mode, jobs=jobs),
                        sig=dict(kind='empty-walk', converter=cname, mode=mode))
                for ch in multiprocessing.active_children():
                    if ch.pid != fresh.proc.pid:
                        ch.terminate()
                        ch.join()
    shutil.rmtree(eroot, ignore_errors=True)
    # 3. fault enumeration on one valid file per format
    frng = ctx.subrng('faults')
    nfault = 0
    for fmt in ('RP66V1', 'LIS', 'BIT'):
        base = build_valid(frng, fmt, ctx)
        fdir = os.path.join(wd, 'fault_' + fmt)
        os.makedirs(fdir)
        positions = list(range(0, min(len(base), ctx.pick(96, 512)), ctx.pick(3, 1))) + list(range(512, len(base), ctx.pick(211, 61)))
        variants = [('empty', b''), ('text', damage(frng, base, 'text')), ('zeros', damage(frng, base, 'zeros')), ('header', damage(frng, base, 'header'))] + \
                   [('foreign', damage(frng, base, 'foreign')) for _ in range(4)] + [('foreign', d_) for _n, d_ in foreign_variants()]
        for p in positions:
            variants.append(('truncate@%d' % p, base[:p]))
            for name, f in (('bit0', lambda x: x ^ 1), ('bit7', lambda x: x ^ 0x80), ('ff', lambda x: 0xFF if x != 0xFF else 0), ('00', lambda x: 0 if x else 0xFF)):
                if ctx.quick and name in ('ff', '00') and p % 2:
                    continue
                b = bytearray(base)
                b[p] = f(b[p])
                variants.append(('%s@%d' % (name, p), bytes(b)))
        for name, data in variants:
            pin = os.path.join(fdir, 'f.bin')
            with open(pin, 'wb') as f:
                f.write(data)
            pout = os.path.join(fdir, 'o', 'f.bin')
            nfault += 1
            ctx.case(('fault', fmt, name), True)
            try:
                r = with_alarm(60, conv[fmt], pin, 'first', pout, Slice.Slice(), set(), 16, '.3f')
                if name in ('empty', 'text', 'zeros', 'header', 'foreign') and status_of(r) == 'ok' and r.las_count > 0:
                    ctx.fail('%s converter reports a %s file as converted: %r' % (fmt, name, r), dict(fmt=fmt, fault=name),
                             sig=dict(kind='bad-file-converted', converter=fmt, cls=name))
            except Watchdog:
                ctx.fail('%s converter hangs (> 60 s) on the valid file damaged by %s' % (fmt, name), dict(fmt=fmt, fault=name, data=data.hex()[:4000]),
                         sig=dict(kind='hang', converter=fmt))
            except Exception as e:
                ctx.fail('%s converter lets %s: %s escape on the valid file damaged by %s' % (fmt, type(e).__name__, e, name),
                         dict(fmt=fmt, fault=name, data=data.hex()[:4000]), sig=dict(kind='escaped', converter=fmt, error=type(e).__name__))
            shutil.rmtree(os.path.join(fdir, 'o'), ignore_errors=True)
        shutil.rmtree(fdir, ignore_errors=True)
    ctx.notes['faults_enumerated'] = nfault
    fresh.close()
    ctx.rule = ('isolated conversions: one case per (directory, converter, file), non-trivial = not a valid file of that converter; batch runs: '
                'one case per (directory, converter, mode, jobs), non-trivial = pool with > 1 job; faults: one case per damaged variant')
    ctx.assumptions += ['output names of different input files do not coincide except in the same-stem scenario (judged separately)',
                        'benign damage may still convert: a damaged file must only fail where no other answer is possible (empty, foreign, destroyed header)',
                        'file names are ASCII without spaces']
    ctx.explanation = ('TLC explores every schedule of the pool/sequential model and refutes the variants without the guard / with carried state / '
                       'with colliding paths; real sequential and pool runs (1..16 jobs) validated as traces against isolated conversions; fault enumeration')


def replay(ctx, path):
    run(ctx)
