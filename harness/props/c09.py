"""C09 - LAS files parse to their content, independent of layout.

1. TLC: LasRead.tla - the line generator / section dispatch / wrap buffer design reads back exactly the content
   for every layout the writer can produce (comments, blank and space-only lines anywhere, every wrap split);
   the first-dot / last-colon field split is checked over character classes (FieldSplitOK).
2. spec -> code: every complete layout enumerated by TLC (LasReadMC with hist) is rendered to text with concrete
   content drawn from pools (typed values, units, values with colons / dots / spaces / times, paddings, separators)
   and parsed by the real LASRead; the parse must equal the content.  All layouts of one content are rendered from the
   same content, so equality with the content is also layout independence.
3. larger seeded-random contents and layouts (40 curves, 300 frames) against the same content oracle.
"""
import datetime
import io
import math

import numpy as np

from .. import repo

LEVEL = 'model_checking'

# (text, typed value) pools; every text has exactly one reading by LAS conventions
VALUES = [('12', 12), ('-7', -7), ('1.50', 1.5), ('-0.25', -0.25), ('1.0E+03', 1000.0), ('YES', True), ('No', False),
          ('ANY OIL CO. LTD', 'ANY OIL CO. LTD'), ('12:30:45', '12:30:45'), ('13-DEC-86', '13-DEC-86'), ('a:b', 'a:b'),
          ('x.y.z', 'x.y.z'), ('two  spaces', 'two  spaces'), ('', ''), ('100.0 M', '100.0 M'),
          # words near the yes/no typing that are text: only YES and NO (any case) are the LAS flags
          ('Y', 'Y'), ('N', 'N'), ('TRUE', 'TRUE'), ('false', 'false'), ('ON', 'ON'), ('NONE', 'NONE'), ('yes', True), ('NO', False), ('YES PLEASE', 'YES PLEASE'), ('NOT', 'NOT'),
          ('1E', '1E'), ('0x10', '0x10'), ('+5', 5), ('007', 7), ('-0', 0), ('.5', 0.5), ('5.', 5.0)]
UNITS = ['', 'M', 'FT', 'V/V', 'OHM.M', 'US/F', 'K/M3', '%']
DESCS = ['', 'START DEPTH', 'depth. of (well)', 'x - y', '1  2', 'API code', 'trailing dot.']
MNEMS_W = ['STRT', 'STOP', 'STEP', 'NULL', 'COMP', 'WELL', 'FLD', 'LOC']
# (a mnemonic is anything without a space, a dot or a colon: ratios, indexed and bracketed names, sums, percentages occur)
MNEMS_P = ['BHT', 'BS', 'R@BHT', 'MATR', 'RMF', 'MUD#', 'MDEN', 'K/TH']
CURVES = ['DEPT', 'DT', 'TH/K', 'RHOB[1]', 'NPHI', 'GR(MAX)', 'SFLA', 'C1+C2', '%SAND', 'A_B', 'FILE-ID', 'RHOB', 'SFLU', 'ILM', 'ILD', 'GR', 'CALI'] + ['C%03d' % i for i in range(60)]


def make_content(rng, nhdr, nf, wrap, vers):
    c = dict(vers=vers, wrap=wrap, null=-999.25)          # the default null value when the well section has no NULL line
    W = []
    for i in range(nhdr['W']):
        m = MNEMS_W[i]
        if m in ('STRT', 'STOP', 'STEP'):
            t, v = rng.choice([('100.0', 100.0), ('1670.5', 1670.5), ('-0.125', -0.125), ('5', 5)])
            u = rng.choice(['M', 'FT'])
        elif m == 'NULL':
            t, v = rng.choice([('-999.25', -999.25), ('-999.25', -999.25), ('-9999', -9999), ('0', 0), ('-999.2500', -999.25), ('1e30', 1e30)])
            u = ''
            c['null'] = float(v)
        else:
            (t, v), u = rng.choice(VALUES), rng.choice(UNITS)
        W.append((m, u, t, v, rng.choice(DESCS)))
    c['W'] = W
    c['C'] = [(CURVES[i], rng.choice(UNITS), rng.choice(['', '7 350 02 00', '1']), None, rng.choice(DESCS)) for i in range(nhdr['C'])]
    # DATE / TIME curves: typed (date / time objects) only with the units D / HHMMSS, plain floats with any other units,
    # and the units D / HHMMSS on other curves mean nothing
    if nhdr['C'] >= 3 and rng.random() < 0.6:
        for k in rng.sample(range(1, nhdr['C']), min(2, nhdr['C'] - 1)):
            m, u = rng.choice([('DATE', 'D'), ('TIME', 'HHMMSS'), ('DATE', 'S'), ('TIME', 'S'), ('TIME', 'D'), ('DATE', 'HHMMSS'),
                               ('TIME', ''), (CURVES[k], 'HHMMSS'), (CURVES[k], 'D')])
            if m not in [x[0] for x in c['C']]:
                c['C'][k] = (m, u) + c['C'][k][2:]
    c['C'] = [(m, u, t, (int(t) if t == '1' else t), d) for (m, u, t, _, d) in c['C']]
    P = []
    for i in range(nhdr['P']):
        (t, v), u = rng.choice(VALUES), rng.choice(UNITS)
        P.append((MNEMS_P[i % len(MNEMS_P)] + ('' if i < len(MNEMS_P) else str(i)), u, t, v, rng.choice(DESCS)))
    c['P'] = P
    frames = []
    for f in range(nf):
        row = [('%.4f' % (100.0 + 0.5 * f), 100.0 + 0.5 * f)]
        for k in range(1, nhdr['C']):
            if c['C'][k][:2] == ('DATE', 'D'):
                d = datetime.date(1970 + rng.randrange(30), 1 + rng.randrange(12), 1 + rng.randrange(28))
                row.append((d.strftime('%d-%b-%y'), d))
                continue
            if c['C'][k][:2] == ('TIME', 'HHMMSS'):
                d = datetime.time(rng.randrange(24), rng.randrange(60), rng.randrange(60))
                row.append((d.strftime('%H:%M:%S'), d))
                continue
            row.append(rng.choice([('1.5', 1.5), ('-2.25', -2.25), ('1e3', 1000.0), ('0', 0.0) if c['null'] != 0.0 else ('7', 7.0),
                                   ('-999.25', None) if c['null'] == -999.25 else ('-999.25', -999.25), ('NaNx', None),
                                   ('12:30', None), ('--', None), ('YES', None), ('NO', None), ('yes', None), ('No', None), ('N/A', None), ('*****', None),
                                   ('1.5.2', None), ('0x10', None), ('TRUE', None), ('E5', None), ('+', None), ('0.001', 0.001), ('123456.789', 123456.789),
                                   ('.5', 0.5), ('-.25', -0.25), ('+7', 7.0), ('5.', 5.0), ('1E3', 1000.0), ('1.5E+2', 150.0), ('007', 7.0)]))
        frames.append(row)
    c['frames'] = frames
    return c


def hdr_text(rng, m, u, t, d):
    pre = rng.choice(['', '', ' ', '   '])
    p2 = rng.choice(['', ' ', '    '])
    p3 = rng.choice([' ', '   ', '          '])
    p4 = rng.choice(['', ' ', '     '])
    p5 = rng.choice(['', ' ', '  '])
    return '%s%s%s.%s%s%s%s:%s%s' % (pre, m, p2, u, p3, t, p4, p5, d)


def render(rng, content, hist):
    out = []
    heads = {'V': '~Version Information Section', 'W': '~Well Information', 'C': '~Curve Information Section',
             'P': '~Parameter Information Section', 'A': '~A  ' + '  '.join(c[0] for c in content['C'])}
    for tok in hist:
        k = tok[0]
        if k == 'head':
            out.append(rng.choice([heads[tok[1]], '~' + tok[1], heads[tok[1]] + '  ']))
        elif k == 'hdr':
            s, i = tok[1], tok[2]
            if s == 'V':
                if i == 1:
                    out.append(hdr_text(rng, 'VERS', '', content['vers'], 'CWLS LOG ASCII STANDARD - VERSION ' + content['vers']))
                else:
                    out.append(hdr_text(rng, 'WRAP', '', rng.choice(['YES', 'Yes']) if content['wrap'] else rng.choice(['NO', 'No']),
                                        'One line per depth step'))
            else:
                m, u, t, v, d = content[s][i - 1]
                out.append(hdr_text(rng, m, u, t, d))
        elif k == 'comment':
            out.append(rng.choice(['# a comment', '#', '   # indented comment', '#~A not a section', '# MNEM.UNIT  VALUE : DESC']))
        elif k == 'blank':
            out.append('')
        elif k == 'spaces':
            out.append(rng.choice([' ', '    ', '\t']))
        elif k == 'data':
            f, a, b = tok[1], tok[2], tok[3]
            sep = rng.choice([' ', '  ', '\t', '     ', ' \t '])
            lead = rng.choice(['', ' ', '   '])
            out.append(lead + sep.join(content['frames'][f - 1][j - 1][0] for j in range(a, b + 1)))
    # (a file need not end with a line terminator: the last data line may be the last thing in it)
    return '\n'.join(out) + ('' if hist and hist[-1][0] == 'data' and rng.random() < 0.3 else '\n')


def compare(LASRead, content, text):
    """'' or the first difference between the parse and the content"""
    las = LASRead.LASRead(io.StringIO(text), 'verif')
    v = las['V']
    if v['VERS'].valu != float(content['vers']) or v['WRAP'].valu is not bool(content['wrap']):
        return 'version section: VERS %r WRAP %r' % (v['VERS'].valu, v['WRAP'].valu)
    for s in 'WCP':
        if not las.has_section(s):
            if content[s]:
                return 'section %s missing' % s
            continue
        sec = las[s]
        if len(sec.members) != len(content[s]):
            return 'section %s has %d lines, content has %d' % (s, len(sec.members), len(content[s]))
        for i, (m, u, t, val, d) in enumerate(content[s]):
            got = sec.members[i]
            if got.mnem != m or got.unit != u or got.desc != d or got.valu != val or type(got.valu) is not type(val):
                return 'section %s line %d: parsed %r, written (%r, %r, %r, %r)' % (s, i, tuple(got), m, u, val, d)
            if sec[m] is not got and content[s][[x[0] for x in content[s]].index(m)] is content[s][i]:
                return 'section %s: lookup by mnemonic %r does not give line %d' % (s, m, i)
    fa = las.frame_array
    nf = len(content['frames'])
    if nf == 0:
        return ''
    if fa is None:
        return 'no frame array'
    names = [c.ident for c in fa.channels]
    if names != [c[0] for c in content['C']]:
        return 'channels %r, curves %r' % (names, [c[0] for c in content['C']])
    for ci, ch in enumerate(fa.channels):
        if ch.units != content['C'][ci][1]:
            return 'channel %s units %r, written %r' % (ch.ident, ch.units, content['C'][ci][1])
        if len(ch.array) != nf:
            return 'channel %s has %d frames, written %d' % (ch.ident, len(ch.array), nf)
        for f in range(nf):
            want = content['frames'][f][ci][1]
            got = ch.array[f][0]
            if isinstance(want, (datetime.date, datetime.time)):
                if got != want or type(got) is not type(want):
                    return 'channel %s frame %d: %r read as %r' % (ch.ident, f, content['frames'][f][ci][0], got)
                continue
            if want is None:
                if not (np.ma.is_masked(got) or float(got) == content['null']):
                    return 'channel %s frame %d: unparseable %r read as %r, not the null value' % (ch.ident, f, content['frames'][f][ci][0], got)
            elif np.ma.is_masked(got) or float(got) != want:
                return 'channel %s frame %d: %r read as %r' % (ch.ident, f, content['frames'][f][ci][0], got)
    return ''


def run(ctx):
    repo.setup()
    from ..core import quiet_logging
    quiet_logging()
    from TotalDepth.LAS.core import LASRead
    rng = ctx.subrng('c09')
    for wrap in ('TRUE', 'FALSE'):
        ctx.tlc_check('MC_LasRead_' + wrap, 'LasRead', consts={'NHdr': {'V': 2, 'W': 3, 'C': 4, 'P': 2}},
                      cfg_consts={'NF': '3', 'Wrap': wrap, 'MaxExtra': '3'},
                      invariants=['NoError', 'ParseIsContent', 'PrefixOK'], defs='ASSUME FieldSplitOK', deadlock=True, timeout=900,
                      need_actions=['EmitHead', 'EmitHdr', 'EmitExtra', 'EmitDataWrapped' if wrap == 'TRUE' else 'EmitDataUnwrapped'])
    ctx.tlc_check('MC_LasRead_onecurve', 'LasRead', consts={'NHdr': {'V': 2, 'W': 1, 'C': 1, 'P': 1}},
                  cfg_consts={'NF': '3', 'Wrap': 'TRUE', 'MaxExtra': '1'},
                  invariants=['NoError', 'ParseIsContent', 'PrefixOK'], deadlock=True, timeout=600)
    exports = [('TRUE', 3, 2, 1), ('FALSE', 3, 2, 2)] if ctx.quick else [('TRUE', 3, 2, 2), ('TRUE', 4, 2, 1), ('FALSE', 3, 2, 2), ('FALSE', 2, 3, 3)]
    n = 0
    for wrap, nc, nf, me in exports:
        nhdr = {'V': 2, 'W': 2, 'C': nc, 'P': 1}
        r, states = ctx.tlc_dump('X_Las_%s_%d_%d_%d' % (wrap, nc, nf, me), 'LasReadMC', spec='MCSpec', consts={'NHdr': nhdr},
                                 cfg_consts={'NF': str(nf), 'Wrap': wrap, 'MaxExtra': str(me)},
                                 invariants=['NoError', 'ParseIsContent'], deadlock=True, timeout=1500)
        contents = [make_content(rng, nhdr, nf, wrap == 'TRUE', vers) for vers in ('2.0', '1.2')]
        for st in states:
            if st['si'] != 6:
                continue
            n += 1
            content = contents[n % 2]
            hist = [tuple(t) for t in st['hist']]
            text = render(rng, content, hist)
            nextra = sum(1 for t in hist if t[0] in ('comment', 'blank', 'spaces'))
            ctx.case(('layout', n), nextra > 0 or wrap == 'TRUE')
            try:
                bad = compare(LASRead, content, text)
            except Exception as e:
                bad = 'LASRead raised %s: %s' % (type(e).__name__, e)
            if bad:
                ctx.fail('LAS parse differs from the content: %s; text:\n%s' % (bad, text), dict(text=text, hist=hist), sig=dict(kind='layout'))
            if n == 11:
                ctx.sample(dict(kind='TLC layout', hist=hist, text=text))
    ctx.notes['layouts_replayed'] = n
    # 3. larger random contents / layouts generated as writer token sequences
    for t in range(ctx.pick(60, 600)):
        nc = rng.choice([1, 2, 7, 40])
        nf = rng.choice([1, 5, 60, 300])
        wrap = rng.random() < 0.5
        nhdr = {'V': 2, 'W': rng.randint(4, 8), 'C': nc, 'P': rng.randint(0, 7)}
        content = make_content(rng, nhdr, nf, wrap, rng.choice(['2.0', '1.2', '2.00', '1.20']))
        hist = []

        def extras():
            while rng.random() < 0.2:
                hist.append((rng.choice(['comment', 'blank', 'spaces']),))
        order_ = 'V' + ''.join(rng.sample('WCP', 3)) if rng.random() < 0.4 else 'VWCP'      # LAS: any order after ~V, ~A last
        for s in order_:
            if s == 'P' and nhdr['P'] == 0:
                continue
            extras()
            hist.append(('head', s))
            for i in range(1, nhdr[s] + 1):
                extras()
                hist.append(('hdr', s, i))
        extras()
        hist.append(('head', 'A'))
        for f in range(1, nf + 1):
            if rng.random() < 0.05:
                extras()
            if not wrap:
                hist.append(('data', f, 1, nc))
            else:
                hist.append(('data', f, 1, 1))
                a = 2
                while a <= nc:
                    b = min(nc, a + rng.choice([0, 1, 4, 7, nc]))
                    hist.append(('data', f, a, b))
                    a = b + 1
        text = render(rng, content, hist)
        ctx.case(('random', t), True)
        try:
            bad = compare(LASRead, content, text)
        except Exception as e:
            bad = 'LASRead raised %s: %s' % (type(e).__name__, e)
        if bad:
            ctx.fail('LAS parse differs from the content: %s; text:\n%s' % (bad, text[:1500]), dict(text=text[:20000]), sig=dict(kind='random'))
    ctx.rule = ('one case per complete layout enumerated by TLC (and per seeded random content/layout); non-trivial = wrapped or '
                'with >= 1 comment/blank/space-only line')
    ctx.assumptions += ['mnemonics, units and descriptions are drawn from pools whose typed reading is unambiguous (no numeric or '
                        'yes/no mnemonics and units, descriptions free of colons, at least one space between unit and value)',
                        'the null value is the NULL line of the well section (-999.25, -9999, 0 or 1e30) or -999.25 without one', 'curve mnemonics are distinct; DATE.D / TIME.HHMMSS channels hold only well-formed dates / times (dd-Mon-yy, HH:MM:SS)']
    ctx.explanation = 'TLC design check of the reader against every layout; every TLC layout rendered and parsed by the real LASRead'


def replay(ctx, path):
    run(ctx)
