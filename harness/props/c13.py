"""C13 - Western Atlas BIT log passes decode to the recorded numbers.

1. TLC: the TIF block walker + channel-major de-interleave design (Bit.tla) gives exactly the abstract matrix for
   every pass/block pattern in the bound; IBM single precision as an exact dyadic.
2. spec -> code: TLC-evaluated oracle table of IBM words (BitTable.tla) drives exact comparison of bytes_to_float,
   gen_floats and RP66V1 ISINGL; every file of the bounded pattern set and seeded random files are rendered by an
   independent encoder, read by create_bit_frame_array_from_file and compared cell by cell with the specification's
   ExpectedCell (value ids are distinct IBM words).
"""
import io
import json
import math
import os

from .. import repo
from ..gen import bit as G

LEVEL = 'model_checking'

PATTERNS = [
    [dict(nch=1, blocks=[1])],
    [dict(nch=2, blocks=[2, 2])],
    [dict(nch=3, blocks=[3, 1])],
    [dict(nch=2, blocks=[2, 2, 1]), dict(nch=3, blocks=[1])],
    [dict(nch=20, blocks=[2, 1])],
    [dict(nch=1, blocks=[4, 4, 3]), dict(nch=2, blocks=[1, 1, 1])],
    [dict(nch=3, blocks=[16, 16, 5])],
]


def id_word(p, b, c, j):
    """a distinct, exactly decodable IBM word for the abstract value id"""
    s = (p + b + c + j) & 1
    E = 60 + ((c * 3 + j) % 9)
    M = 0x100000 + ((p * 7919 + b * 104729 + c * 1299709 + j * 15485863) % 0xEFFFFF)
    return G.ibm_word(s, E, M)


def f3_value(s, E, M):
    """Known finding F3: gen_floats divides the 24-bit fraction by 0xffffff instead of 2^24.  This reproduces exactly
    that wrong number, ONLY to recognise the listed finding; anything else that differs is a new violation."""
    v = (M / 0xffffff) * 16 ** (E - 64)
    return -v if s else v


def dyadic_value(s, E, M):
    return math.ldexp(-M if s else M, 4 * (E - 64) - 24)


def run(ctx):
    repo.setup()
    from ..core import quiet_logging
    quiet_logging()
    from TotalDepth.BIT import ReadBIT
    from TotalDepth.RP66V1.core import File as RFile
    from TotalDepth.RP66V1.core import RepCode as RRep
    rng = ctx.subrng('c13')
    # 1. design
    for n, passes in enumerate(PATTERNS if not ctx.quick else PATTERNS[:5]):
        ctx.tlc_check('MC_Bit_%d' % n, 'Bit', consts={'Passes': tuple(dict(nch=p['nch'], blocks=tuple(p['blocks'])) for p in passes)},
                      invariants=['OnePassEach', 'CellsExact', 'WalkEnds', 'DeinterleaveOK'], deadlock=True, need_actions=['Step'],
                      timeout=600)
    # 2a. oracle table of IBM words
    d = ctx.wdir('table')
    ft = os.path.join(d, 'ibm.json')
    ctx.tlc_check('MC_BitTable', 'BitTable', consts={'Passes': (dict(nch=1, blocks=(1,)),)}, env={'OUT_TABLE': ft}, workers=1,
                  coverage=False)
    rows = json.load(open(ft))
    for row in rows:
        w = G.ibm_word(row['s'], row['E'], row['M'])
        want = math.ldexp(row['d']['m'], row['d']['e'])
        got = {'bytes_to_float': ReadBIT.bytes_to_float(w),
               'gen_floats': list(ReadBIT.gen_floats(w))[0],
               'RP66V1.ISINGL': RRep.ISINGL(RFile.LogicalData(w))}
        ctx.case(('ibm', row['s'], row['E'], row['M']), row['M'] not in (0,))
        for name, g in got.items():
            if g != want and not (g == 0 and want == 0):
                if name == 'gen_floats' and g == f3_value(row['s'], row['E'], row['M']):
                    ctx.fail('gen_floats(%s) = %r but the IBM word denotes %r' % (w.hex(), g, want), dict(word=w.hex()),
                             sig=dict(kind='ibm-divisor'))
                    continue
                ctx.fail('%s(%s) = %r but the IBM word denotes %r (= %d * 2^%d)' % (name, w.hex(), g, want, row['d']['m'], row['d']['e']),
                         dict(word=w.hex(), row=row, got=got), sig=dict(kind='ibm', fn=name))
    ctx.sample(dict(kind='ibm oracle row', row=rows[len(rows) // 2]))
    # 2b. files
    cases = []
    for passes in PATTERNS:
        cases.append(('pattern', passes))
    for t in range(ctx.pick(60, 3000)):
        np_ = rng.choice([1, 1, 2, 3])
        passes = []
        for p in range(np_):
            nch = rng.choice([1, 2, 3, 5, 10, 19, 20])
            full = rng.choice([1, 2, 16, 32])
            nb = rng.choice([1, 2, 5, 12, 1, 2, 5, 0])          # 0: a log pass that was started and stopped: a header and no data
            blocks = [full] * nb
            if nb and rng.random() < 0.5:
                blocks.append(rng.randint(1, full))        # a short last block
            passes.append(dict(nch=nch, blocks=blocks))
        cases.append(('random', passes))
    # long passes ("any frame count and block size"): more than a thousand frames in blocks of 10, 12 and 24 frames (sizes that divide no
    # power of two), followed by a short pass
    for full, nb in ((10, 130), (12, 100)) + (((24, 90), (7, 300)) if not ctx.quick else ()):
        cases.append(('long', [dict(nch=3, blocks=[full] * nb + [full // 2]), dict(nch=2, blocks=[4, 3])]))
    for ci, (src, passes) in enumerate(cases):
        rp = []
        for pi, p in enumerate(passes, 1):
            down = rng.random() < 0.5
            start = rng.choice([1000.0, 11916.0, 512.5, 0.0])
            spacing = rng.choice([0.25, 0.5, 1.0, 0.125, 0.25, 0.5, 1.0, 0.125, 0.0])       # 0.0: a stationary pass, start = stop, every frame at one depth
            nfr = sum(p['blocks'])
            # the header range need not cover the recorded frames exactly: the last block is padded, so a pass often
            # holds more frames than (stop - start) / spacing + 1, and sometimes fewer
            span = rng.choice([max(1, nfr - 1), max(1, nfr - 1), max(1, nfr // 2), 1, nfr + 7])
            stop = start + span * spacing * (1 if down else -1)
            if stop < 0:
                down, stop = True, start + span * spacing
            blocks = []
            for bi, f in enumerate(p['blocks'], 1):
                blocks.append([[id_word(pi, bi, c, j) for j in range(1, f + 1)] for c in range(1, p['nch'] + 1)])
            rp.append(dict(names=['C%02d ' % c for c in range(p['nch'])], start=start, stop=stop, spacing=spacing, blocks=blocks, unused=rng.choice([b'    ', b'    ', b'\x00\x00\x00\x00', b'\xff\xff\xff\xff', b'\x80\x01\xfe\x7f', b'OLD ']),
                           down=down))
        data = G.render(rp)
        m = dict(source=src, passes=passes, headers=[dict(start=x['start'], stop=x['stop'], spacing=x['spacing']) for x in rp])
        ctx.case(('file', ci), len(passes) > 1 or any(len(p['blocks']) > 1 for p in passes))
        try:
            # the file object handed over may have been looked at before: asked whether it is a BIT file, read once already, peeked at
            fobj = io.BytesIO(data)
            used = ci % 4
            if used == 1:
                ReadBIT.is_bit_file(fobj)
            elif used == 2:
                ReadBIT.create_bit_frame_array_from_file(fobj)
            elif used == 3:
                fobj.read(16)
            fas = ReadBIT.create_bit_frame_array_from_file(fobj)
        except Exception as e:
            ctx.fail('create_bit_frame_array_from_file raised %s: %s' % (type(e).__name__, e), m, sig=dict(kind='exception'))
            continue
        bad = None
        if len(fas) != len(passes):
            bad = 'number of log passes %d, expected %d' % (len(fas), len(passes))
        for pi, (fa, p, r) in enumerate(zip(fas, passes, rp), 1):
            if bad:
                break
            nfr = sum(p['blocks'])
            if fa.frame_array is None:
                bad = 'pass %d (%d frames recorded) has no frame array' % (pi, nfr)
                break
            names = [c.ident for c in fa.frame_array.channels]
            if names != ['X   '] + r['names']:
                bad = 'pass %d channel names %r expected %r' % (pi, names, ['X   '] + r['names'])
                break
            if fa.frame_count != nfr or len(fa.frame_array.channels[0].array) != nfr:
                bad = 'pass %d frame count %d expected %d' % (pi, fa.frame_count, nfr)
                break
            # ExpectedCell(p, c, r): block of frame r and offset inside it
            base = 0
            for bi, f in enumerate(p['blocks'], 1):
                for c in range(1, p['nch'] + 1):
                    arr = fa.frame_array.channels[c].array
                    if len(arr) != nfr:
                        bad = 'pass %d channel %d has %d values expected %d' % (pi, c, len(arr), nfr)
                        break
                    for j in range(1, f + 1):
                        w = id_word(pi, bi, c, j)
                        want = dyadic_value(w[0] >> 7, w[0] & 0x7f, int.from_bytes(w[1:], 'big'))
                        got = float(arr[base + j - 1][0]) if hasattr(arr[base + j - 1], '__len__') else float(arr[base + j - 1])
                        if got != want and got == f3_value(w[0] >> 7, w[0] & 0x7f, int.from_bytes(w[1:], 'big')):
                            ctx.fail('frame data value %r for word %s denotes %r' % (got, w.hex(), want), m, sig=dict(kind='ibm-divisor'))
                        elif got != want:
                            bad = 'pass %d channel %d frame %d = %r, file holds %s = %r (cell <<%d,%d,%d,%d>>)' % (
                                pi, c, base + j, got, w.hex(), want, pi, bi, c, j)
                            break
                    if bad:
                        break
                if bad:
                    break
                base += f
            if bad:
                break
            # X axis: starts at start, moves by spacing towards stop
            x = fa.frame_array.channels[0].array
            sgn = 1 if r['stop'] > r['start'] else -1
            for i in range(nfr):
                want = r['start'] + sgn * i * r['spacing']
                tol = (i + 1) * 2.3e-16 * max(abs(r['start']), abs(want), 1.0)
                gx = float(x[i][0]) if hasattr(x[i], '__len__') else float(x[i])
                if abs(gx - want) > tol:
                    bad = 'pass %d X[%d] = %r expected %r (start %r spacing %r towards %r)' % (pi, i, gx, want, r['start'], r['spacing'], r['stop'])
                    break
        if bad:
            ctx.fail('BIT file read: ' + bad, m, sig=dict(kind='file', wrong_value='file holds' in bad))
        if ci == 3:
            ctx.sample(dict(kind='file', meta=m, size=len(data)))
    ctx.rule = ('IBM words: one case per oracle row (non-trivial: non-zero fraction); files: one case per rendered file '
                '(non-trivial: >= 2 passes or a pass with >= 2 blocks)')
    ctx.assumptions += ['data blocks are whole multiples of 4 * channels bytes', 'header depths exactly representable as IBM words']
    ctx.explanation = 'TLC design check of the walker/de-interleave; TLC oracle table for IBM words; files compared against ExpectedCell'


def replay(ctx, path):
    run(ctx)
