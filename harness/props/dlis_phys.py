"""Shared driver for C01 (sequential read) and C02 (index / random access) of the RP66V1 physical layer."""
import io
import json

from .. import repo
from ..core import Machinery
from ..gen import dlis as G


def R(kind, typ, ln, enc=False):
    return dict(kind=kind, type=typ, len=ln, enc=enc)


# record sets for the design check (lockstep frontier) and the exports
DESIGN_SETS = [
    ((R('E', 0, 30), R('I', 3, 0), R('E', 5, 12, True), R('I', 0, 70)), 48),
    ((R('I', 1, 1), R('E', 2, 11), R('E', 2, 12), R('I', 9, 13)), 20),
    ((R('E', 0, 13), R('I', 0, 26, True), R('I', 0, 27)), 24),
    ((R('E', 0, 64), R('I', 255, 5)), 128),
]
EXPORT_SETS_QUICK = [
    ('one30', (R('E', 0, 30),), [1, 12, 13, 26], 48, 3, [2]),
    ('two', (R('E', 7, 13), R('I', 3, 30)), [12, 13], 40, 2, []),
    ('enc', (R('I', 1, 12, True), R('E', 2, 0), R('I', 0, 5)), [4, 6], 36, 2, []),
]
EXPORT_SETS_THOROUGH = EXPORT_SETS_QUICK + [
    ('one0', (R('I', 200, 0),), [], 24, 1, [2, 4]),
    ('one13', (R('E', 1, 13),), [1, 2, 11, 12], 20, 3, [2]),
    ('two_b', (R('I', 0, 26), R('E', 1, 12)), [11, 12, 13, 14], 32, 3, []),
    ('three', (R('E', 0, 12), R('I', 3, 1), R('I', 1, 28, True)), [14], 36, 2, []),
]


def design_check(ctx):
    for i, (recs, vm) in enumerate(DESIGN_SETS if not ctx.quick else DESIGN_SETS[:2]):
        ctx.tlc_check('MC_DlisPhys_%d' % i, 'DlisPhysMC', spec='MCSpec',
                      consts={'Recs': recs, 'Chunks': frozenset([1, 2, 11, 12, 13, 14, 26, 27, 40]),
                              'PadExtra': frozenset([2, 4])},
                      cfg_consts={'VRMax': str(vm), 'MaxSegs': '4'}, view='FrontierView',
                      invariants=['MCYieldExact', 'MCYieldInOrder', 'MCAllYielded', 'MCVRLegal', 'NoReaderError',
                                  'PosTrue'],
                      need_actions=['MCNext'], timeout=600)


def export_layouts(ctx):
    """Complete conformant layouts enumerated by TLC (terminal states of the writer with hist kept)."""
    out = []
    for name, recs, chunks, vm, ms, pe in (EXPORT_SETS_QUICK if ctx.quick else EXPORT_SETS_THOROUGH):
        r, states = ctx.tlc_dump('X_' + name, 'DlisPhysMC', spec='MCSpec',
                                 consts={'Recs': recs, 'Chunks': frozenset(chunks), 'PadExtra': frozenset(pe)},
                                 cfg_consts={'VRMax': str(vm), 'MaxSegs': str(ms)},
                                 invariants=['MCYieldExact', 'MCYieldInOrder'], timeout=900)
        n = 0
        for s in states:
            if s['k'] == len(recs) + 1:
                lay = [dict(n=h['n'], pad=h['pad'], ck=h['ck'], tr=h['tr'], padbit=h['padbit'], nv=h['nv'])
                       for h in s['hist']]
                out.append((name, list(recs), vm, lay))
                n += 1
        ctx.notes.setdefault('exported_layouts', {})[name] = n
    return out


def random_cases(ctx, count, big):
    rng = ctx.subrng('layouts')
    out = []
    for c in range(count):
        vm = rng.choice([20, 24, 48, 100, 128, 1024, 8192, 16384, rng.randrange(20, 16385, 2)])
        nrec = rng.choice([1, 2, 5, 12] if not big else [3, 10, 40])
        recs = []
        for i in range(nrec):
            enc = rng.random() < 0.12
            top = big if (big and rng.random() < 0.25) else rng.choice([0, 1, 12, 13, 40, 300, 3 * vm])
            ln = rng.randint(0, max(top, 0))
            if enc:
                ln = max(12, ln - ln % 2)
                while not G.enc_len_ok(ln, vm - 8):
                    ln += 2
            recs.append(R(rng.choice('EI'), rng.randrange(256), ln, enc))
        lay = G.random_layout(rng, recs, vm)
        out.append(('random', recs, vm, lay))
    return out


def seg_events(lay):
    return [dict(op='seg', **s) for s in lay]


IDENTS = {'blank': b'', 'printable': b'Default Storage Set ~!@#', 'nonascii': b'Caf\xe9 \xff\x00\x80 set',
          # any identifier text: digits first (a date, a job number), all digits, sixty characters
          'digits': b'2021-03 WELL 9 5/8in', 'alldigits': b'00042', 'full': b'0123456789' * 6}


def run(ctx, which):
    repo.setup()
    from TotalDepth.RP66V1.core import File, Index

    design_check(ctx)
    if which == 'C02':
        ctx.tlc_check('MC_DlisIndex', 'DlisIndex',
                      consts={'SegSizes': frozenset([0, 1, 2, 5] if ctx.quick else [0, 1, 2, 3, 7]), 'All': _raw('-1')},
                      cfg_consts={'MaxSegs': ctx.pick('3', '4')},
                      invariants=['SliceRefines', 'PrefixRefines', 'NeverOverRead'], need_actions=['Step'], timeout=900)
    cases = export_layouts(ctx)
    ctx.notes['layouts_exported_by_tlc'] = len(cases)
    cap = ctx.pick(6000, 35000)
    if len(cases) > cap:
        rng = ctx.subrng('sample-exports')
        cases = rng.sample(cases, cap)
    cases += random_cases(ctx, ctx.pick(120, 700), 0)
    cases += random_cases(ctx, ctx.pick(12, 80), 40000)
    rng = ctx.subrng('drive')
    sul_rng = ctx.subrng('sul')
    traces, recs_l, vm_l, sul_l, meta = [], [], [], [], []
    seqnos = [1, 9, 10, 100, 101, 1000, 1010, 9999]
    prev_data = None
    for ci, (name, recs, vm, lay) in enumerate(cases):
        seq = sul_rng.choice(seqnos)
        padding = sul_rng.choice(['zero', 'blank'])
        ident_cls = sul_rng.choice(sorted(IDENTS))
        sul = G.render_sul(seq, vm, IDENTS[ident_cls], padding)
        rd = G.render(recs, lay, sul=sul)
        f = G.TracingBytesIO(rd.data)
        tr = seg_events(lay) + [dict(op='endwrite', size=len(rd.data))]
        nsegs = len(lay)
        nvrs = len(rd.vrs)
        try:
            if which == 'C01':
                with File.FileRead(f) as fr:
                    s = fr.sul
                    got_ident = bytes(s.storage_set_identifier)
                    tr.append(dict(op='sul', seq=s.storage_unit_sequence_number, maxlen=s.maximum_record_length,
                                   ident=ident_cls if got_ident == IDENTS[ident_cls][:60].ljust(60, b' ') else 'CHANGED'))
                    # two observation modes: inspect each record as it is yielded (streaming), or keep all yielded
                    # records and inspect them after the iteration has finished (retained objects must stay true)
                    retained = (ci % 2 == 1)
                    flds = list(fr.iter_logical_records()) if retained else fr.iter_logical_records()
                    # now and then ANOTHER reader is at work on another file (the previous case's) while this one reads: two files
                    # compared record by record.  Each reader yields what it yields alone.
                    comp = comp_solo = comp_got = None
                    if not retained and ci % 4 == 2 and prev_data is not None:
                        try:
                            with File.FileRead(io.BytesIO(prev_data)) as solo_:
                                comp_solo = [(x.lr_type, bytes(x.logical_data.bytes)) for x in solo_.iter_logical_records()]
                            comp_fr = File.FileRead(io.BytesIO(prev_data))
                            comp_fr.__enter__()
                            comp, comp_got = comp_fr.iter_logical_records(), []
                        except Exception:
                            comp = None
                    i = 0
                    for fld in flds:
                        if comp is not None:
                            try:
                                for _ in range(1 + i % 2):
                                    x = next(comp, None)
                                    if x is not None:
                                        comp_got.append((x.lr_type, bytes(x.logical_data.bytes)))
                            except Exception as e_:
                                comp_got.append(('raised', '%s: %s' % (type(e_).__name__, e_)))
                                comp = None
                        i += 1
                        k = min(i, len(recs))
                        data = bytes(fld.logical_data.bytes)
                        tr.append(dict(op='yield', kind='E' if fld.lr_is_eflr else 'I', type=fld.lr_type,
                                       ranges=G.project(k, data, recs[k - 1]['len'])))
                    tr.append(dict(op='eof'))
                    if comp_got is not None:
                        try:
                            if comp is not None:
                                comp_got += [(x.lr_type, bytes(x.logical_data.bytes)) for x in comp]
                        except Exception as e_:
                            comp_got.append(('raised', '%s: %s' % (type(e_).__name__, e_)))
                        if comp_got != comp_solo:
                            first_ = next((n_ for n_, (a_, b_) in enumerate(zip(comp_got, comp_solo)) if a_ != b_), min(len(comp_got), len(comp_solo)))
                            ctx.fail('C01: a second reader advanced alternately with this one yields %d records, alone %d; first difference at record %d: %r' % (
                                len(comp_got), len(comp_solo), first_ + 1, (comp_got[first_][0], comp_got[first_][1][:40]) if first_ < len(comp_got) else None),
                                dict(case=ci), sig=dict(op='two-readers'))
                    # a sequential read is a sequential read whatever the reader did before: read again on the SAME reader, after a
                    # complete pass, after a pass abandoned part way, or after a walk over the visible records
                    if ci % 3 == 0:
                        variant = (ci // 3) % 3
                        if variant == 1:
                            g_ = fr.iter_logical_records()
                            for _n, _fld in zip(range(1 + (ci // 9) % 2), g_):
                                pass
                            del g_
                        elif variant == 2:
                            for _vr in fr.iter_visible_records():
                                pass
                        tr.append(dict(op='restart', after=['a complete pass', 'an abandoned pass', 'a walk over the visible records'][variant]))
                        i = 0
                        for fld in fr.iter_logical_records():
                            i += 1
                            k = min(i, len(recs))
                            data = bytes(fld.logical_data.bytes)
                            tr.append(dict(op='yield', kind='E' if fld.lr_is_eflr else 'I', type=fld.lr_type,
                                           ranges=G.project(k, data, recs[k - 1]['len'])))
                        tr.append(dict(op='eof'))
            else:
                with Index.LogicalRecordIndex(f) as ix:
                    for e in ix.lr_pos_desc:
                        tr.append(dict(op='index', vrpos=e.position.vr_position, lrshpos=e.position.lrsh_position,
                                       kind='E' if e.description.attributes.is_eflr else 'I', type=e.description.lr_type))
                    tr.append(dict(op='indexlen', n=len(ix)))
                    # a history of fetches on the SAME index object
                    nget = 6 + 2 * len(recs) if name != 'random' else min(60, 10 + 3 * len(recs))
                    order = list(range(1, len(recs) + 1))
                    hist = [(k, 0, -1) for k in order] + [(k, 0, -1) for k in reversed(order)]
                    # boundaries: payload offsets where segments of each record end
                    bounds = {}
                    off = 0
                    k = 1
                    for s_ in lay:
                        off += s_['n']
                        bounds.setdefault(k, []).append(off)
                        if off == recs[k - 1]['len']:
                            k += 1
                            off = 0
                    while len(hist) < nget + 2 * len(recs):
                        k = rng.choice(order)
                        L = recs[k - 1]['len']
                        b = rng.choice(bounds[k])
                        o = max(0, rng.choice([0, 1, b - 1, b, b + 1, b - 3, rng.randint(0, L + 1), L, L + 1]))
                        ln = rng.choice([-1, 0, 1, 2, 3, 10, L, L + 5, rng.randint(0, L + 2), max(0, b - o + 1)])
                        hist.append((k, o, ln))
                    rng.shuffle(hist)
                    kept = []
                    # now and then a second index, on the previous case's file, is used alternately with this one (two files open at
                    # once): its fetches must give what they give alone
                    comp_ix = comp_solo = None
                    comp_bad = []
                    if ci % 4 == 2 and prev_data is not None:
                        try:
                            comp_ix = Index.LogicalRecordIndex(io.BytesIO(prev_data))
                            comp_ix.__enter__()
                            comp_solo = [bytes(comp_ix.get_file_logical_data(j_, 0, -1).logical_data.bytes) for j_ in range(len(comp_ix))]
                        except Exception:
                            comp_ix = None
                    nfetch = 0
                    for (k, o, ln) in hist[:nget + len(recs)]:
                        if comp_ix is not None and comp_solo:
                            j_ = (nfetch * 7 + 3) % len(comp_solo)
                            nfetch += 1
                            try:
                                if bytes(comp_ix.get_file_logical_data(j_, 0, -1).logical_data.bytes) != comp_solo[j_]:
                                    comp_bad.append('record %d differs' % (j_ + 1))
                            except Exception as e_:
                                comp_bad.append('record %d: %s: %s' % (j_ + 1, type(e_).__name__, e_))
                        f.start()
                        fld = ix.get_file_logical_data(k - 1, o, ln)
                        reads = f.stop()
                        data = bytes(fld.logical_data.bytes)
                        tr.append(dict(op='get', k=k, off=o, len=ln, ranges=G.project(k, data, recs[k - 1]['len'], hint=o),
                                       rlo=min((x[0] for x in reads), default=-1), rhi=max((x[0] + x[1] for x in reads), default=-1),
                                       nreads=len(reads),
                                       kind='E' if fld.lr_is_eflr else 'I', type=fld.lr_type))
                        if len(kept) < 4:
                            kept.append((k, o, ln, fld))
                    if comp_bad:
                        ctx.fail('C02: a second index used alternately with this one fetches differently from alone: %s' % comp_bad[0], dict(case=ci),
                                 sig=dict(op='two-indexes'))
                    # results returned earlier must still be what they were (no aliasing with reader state)
                    for (k, o, ln, fld) in kept:
                        data = bytes(fld.logical_data.bytes)
                        tr.append(dict(op='get', k=k, off=o, len=ln, ranges=G.project(k, data, recs[k - 1]['len'], hint=o),
                                       rlo=-1, rhi=-1, nreads=0, kind='E' if fld.lr_is_eflr else 'I', type=fld.lr_type, retained=True))
        except Exception as e:   # the reader raised on a conformant file
            tr.append(dict(op='exception', err='%s: %s' % (type(e).__name__, str(e)[:200])))
        prev_data = rd.data
        traces.append(tr)
        recs_l.append(recs)
        vm_l.append(vm)
        sul_l.append(dict(seq=seq, maxlen=vm, ident=ident_cls))
        meta.append(dict(source=name, recs=recs, vm=vm, layout=lay if len(lay) < 40 else lay[:40] + ['...'],
                         sul=dict(seq=seq, maxlen=vm, padding=padding, ident=ident_cls)))
        ctx.case((name, ci), nsegs > len(recs) or nvrs > 1)
    ctx.rule = ('one case = one rendered file (TLC-exported layout or seeded random layout) driven through the real '
                'reader/index; non-trivial = some record is split into >= 2 segments or the file has >= 2 visible records')
    for i in (0, len(cases) // 2, len(cases) - 1):
        ctx.sample(dict(meta=meta[i], events=[e for e in traces[i] if e['op'] != 'seg'][:6]))
    rej = ctx.validate_traces('DlisPhysTrace', 'DlisPhysTrace', traces,
                              payload_extra=dict(recs=recs_l, vm=vm_l, sul=sul_l), workers=16, timeout=6000)
    for t, l, st in rej:
        if st.get('phase') == 'write':
            raise Machinery('generator produced a layout the writer specification rejects: case %d event %s %s' % (
                t, l, json.dumps(traces[t][l - 1] if l else None)))
        ev = traces[t][l - 1] if l and l <= len(traces[t]) else None
        sig = dict(op=ev and ev.get('op'))
        m = meta[t]
        if ev and ev.get('op') == 'exception':
            sig['err'] = ev['err'].split(':')[0]
            sig['sul_seq_has_inner_zero'] = '0' in str(m['sul']['seq']).lstrip('0')[1:] if True else None
        ctx.fail('%s: real %s disagrees with the specification at event %s: %s (file: %s)' % (
            which, 'reader' if which == 'C01' else 'index', l, json.dumps(ev)[:400], json.dumps(m)[:500]),
            dict(meta=m, event=ev, l=l, prior=traces[t][max(0, l - 4):l - 1] if l else None), sig=sig)
    ctx.assumptions += ['encrypted records have opaque bodies: no structural pad bytes, even length',
                        'no empty (zero payload) segments except for an empty record',
                        'visible records tile the file; every segment lies inside one visible record']


def _raw(s):
    from .. import tlc
    return tlc.raw(s)
