"""C14 - DAT mud-log files parse to their declared channels and values.

1. TLC: Dat.tla - content model (declaration order, header subset/order, rows, one optional corrupted line), the
   abstract expectation, and the two-phase scanner design; TLC checks the design's outcome is always acceptable.
2. spec -> code: every terminal state of the model (one text per state) is rendered with concrete names,
   descriptions, separators and date spellings, parsed by DAT_parser.parse_file / can_parse_file, and the result is
   compared with the content (ok cases) or with the expectation class of the specification (corruptions).
"""
import datetime
import io
import json
import time

from .. import repo

LEVEL = 'model_checking'

DESCR = {'UTIM': 'Unix Time', 'DATE': 'Date', 'TIME': 'Time', 'WAC': 'Wits Activity Code', 'BDIA': 'Bit Diameter',
         'NPEN': 'n-Pentane', 'MDIA': 'Mud  Density   In (avg)', 'ZZZZ': 'never declared'}
# ordinary numeric channels may share their units with the time columns (a lag time in sec): only the NAME makes a column a time
UNITS = {'UTIM': 'sec', 'DATE': 'ddmmyy', 'TIME': 'hhmmss', 'WAC': 'sec', 'BDIA': 'inch', 'NPEN': 'hhmmss', 'MDIA': 'g/cc'}
MONTHS = ['Jan', 'Feb', 'Mar', 'Apr', 'May', 'Jun', 'Jul', 'Aug', 'Sep', 'Oct', 'Nov', 'Dec']


def render(st, rng):
    """returns (text, expected rows) for a model state"""
    sep = rng.choice([' ', '\t', '  ', ' \t'])
    date_style = rng.choice('AB')
    lines = []
    corr = st['corr']
    # the model's channel names stand for any name the format allows ([A-Z0-9]+): letters, digits inside (H2S, C1C2), long ones
    alias = {'WAC': rng.choice(['WAC', 'WAC', 'H2S', 'C1C2']), 'BDIA': rng.choice(['BDIA', 'BDIA', 'BIT2DIA', 'X1', '2ND']),
             'NPEN': rng.choice(['NPEN', 'NC5H12', 'N5']), 'MDIA': rng.choice(['MDIA', 'MUDDENSITYIN', 'MD1A'])}
    st['_alias'] = alias
    A = lambda n_: alias.get(n_, n_)
    for i, name in enumerate(st['decls'], 1):
        if corr['kind'] == 'garble_decl' and corr['line'] == i:
            lines.append(rng.choice(['%s %s' % (A(name).lower(), 'x y'), A(name), '%s %s' % (A(name), UNITS[name]), '?? ' + A(name) + ' a b']))
        else:
            d = DESCR[name]
            lines.append('%s%s%s%s%s' % (A(name), rng.choice([' ', '\t']), d, sep, UNITS[name]))
    header = [A(n_) for n_ in st['header']] + (['ZZZZ'] if corr['kind'] == 'undeclared' else [])
    lines.append(rng.choice([' ', '\t', '  ']).join(header))
    rows = []
    t0 = 1165665017 + rng.randrange(0, 10 ** 8)
    free_dates = rng.random() < 0.5
    for r in range(1, st['nrows'] + 1):
        ut = t0 + 60 * r
        tm = time.gmtime(ut)
        if free_dates:
            # the DATE column is a date of its own (nothing ties it to UTIM): calendar corners - leap days of 2000, 2004, 1996,
            # 1972, century and year ends - and any day of 1970..2037 (two-digit years every reading of 'yy' agrees on)
            y_, m_, d_ = rng.choice([(2000, 2, 29), (2004, 2, 29), (1996, 2, 29), (1972, 2, 29), (1999, 12, 31), (2000, 1, 1), (2000, 2, 28), (2000, 3, 1),
                                     (2037, 12, 31), (1970, 1, 1)] + [(rng.randint(1970, 2037), rng.randint(1, 12), rng.randint(1, 28)) for _ in range(6)])
            dt_ = (y_, m_, d_)
        else:
            dt_ = (tm.tm_year, tm.tm_mon, tm.tm_mday)
        day = dt_[2]
        if date_style == 'A':
            ds = '%s%s%02d' % (rng.choice(['%d', '%02d']) % day, MONTHS[dt_[1] - 1], dt_[0] % 100)
        else:
            ds = '%s-%s-%02d' % (rng.choice(['%d', '%02d']) % day, MONTHS[dt_[1] - 1], dt_[0] % 100)
        ts = '%02d-%02d-%02d' % (tm.tm_hour, tm.tm_min, tm.tm_sec)
        vals = [str(ut), ds, ts]
        exp = [datetime.datetime(*tm[:6]), datetime.date(*dt_), datetime.time(tm.tm_hour, tm.tm_min, tm.tm_sec)]
        for name in st['header'][3:]:
            # (a numeric column may well hold the same text as the time stamp column of this file: a channel echoing the clock)
            txt = rng.choice(['0', '8.50', '-1.25', '1e3', '12345.678', '0.000', '7', str(ut), str(t0 + 60),
                              '.5', '-.25', '+.75', '5.', '1E3', '+7', '1e-3', '.125e1', '-0', '1.5E+2', '007'])       # every spelling of a number
            vals.append(txt)
            exp.append(float(txt))
        if corr['line'] == r:
            k = corr['kind']
            if k == 'dropcol':
                del vals[rng.randrange(len(vals))]
            elif k == 'addcol':
                vals.insert(rng.randrange(len(vals) + 1), '1.0')
            elif k == 'garble_num':
                vals[3 + rng.randrange(len(vals) - 3)] = rng.choice(['abc', '1.2.3', '--', '1,5'])
            elif k == 'garble_date':
                vals[1] = rng.choice(['31Feb06', 'Dec06', '09/12/06', '9Dek06', '9-Dec06', '9Dec99999999999999999999', '99999999999-Dec-06', str(ut), ts, vals[3] if len(vals) > 3 else 'x'])
            elif k == 'garble_time':
                vals[2] = rng.choice(['25-00-00', '115017', '11:50:17', '11-60-17', ds, str(ut), ds, str(t0 + 60)])
            elif k == 'garble_utim':
                vals[0] = rng.choice(['x', '1165665017.5', '', '99999999999999999999999', '-99999999999999999', '253402300800'])
                if vals[0] == '':
                    vals[0] = 'NaT'
        rows.append(exp)
        lines.append(rng.choice([' ', '\t', '  ']).join(vals))
    # (the last line of a file need not end with a line end; files from other systems use CR LF)
    nl = rng.choice(['\n', '\n', '\r\n'])
    return nl.join(lines) + rng.choice([nl, nl, '']), rows, header


def run(ctx):
    repo.setup()
    from ..core import quiet_logging
    quiet_logging()
    from TotalDepth.DAT import DAT_parser
    rng = ctx.subrng('c14')
    extra = ['WAC', 'BDIA'] if ctx.quick else ['WAC', 'BDIA', 'MDIA']
    r, states = ctx.tlc_dump('MC_Dat', 'Dat', consts={'Extra': frozenset(extra)}, cfg_consts={'MaxRows': '2'},
                             invariants=['OutcomeAcceptable', 'OkMeansWhole'], deadlock=True, timeout=1500)
    n = 0
    held, nheld_bad = None, 0
    for st in states:
        if st['outcome'] == '':
            continue
        n += 1
        if ctx.quick and n % 3:
            continue
        corr = st['corr']
        kind = corr['kind']
        # the abstract expectation, recomputed from the state exactly as Expected in Dat.tla
        if kind == 'none':
            exp = 'ok'
        elif kind in ('dropcol', 'addcol', 'undeclared'):
            exp = 'dat_error'
        elif kind == 'garble_decl':
            exp = 'dat_error' if st['decls'][corr['line'] - 1] in st['header'] else 'error_or_ok'
        else:
            exp = 'must_not_parse'
        text, rows, header = render(st, rng)
        case = dict(text=text, corr=dict(corr), expected=exp, model_outcome=st['outcome'])
        ctx.case(('dat', n), kind != 'none' or st['nrows'] > 0)
        if n in (7, 5000):
            ctx.sample(case)
        try:
            fa = DAT_parser.parse_file(io.StringIO(text), ident='verif')
            got, err = 'ok', None
        except DAT_parser.ExceptionDAT as e:
            got, err = 'dat_error', e
        except Exception as e:
            got, err = 'error', e
        ok = {'ok': got == 'ok', 'dat_error': got == 'dat_error', 'error_or_ok': True,
              'must_not_parse': got in ('dat_error', 'error')}[exp]
        if not ok:
            ctx.fail('parse_file outcome %s (%s) but the specification expects %s for corruption %s; text:\n%s' % (
                got, err, exp, dict(corr), text), case, sig=dict(kind='outcome', expected=exp, got=got))
            continue
        if got == 'ok':
            # faithful parse of the content
            hdr = [st['_alias'].get(n_, n_) for n_ in st['header']]
            bad = None
            idents = [c.ident for c in fa.channels]
            if idents != hdr:
                bad = 'channels %r expected %r' % (idents, hdr)
            else:
                for ci, c in enumerate(fa.channels):
                    mname = st['header'][ci]
                    want_desc = ' '.join(DESCR[mname].split())
                    if c.long_name != want_desc or c.units != UNITS[mname]:
                        bad = 'channel %s description/units %r/%r expected %r/%r' % (c.ident, c.long_name, c.units, want_desc, UNITS[mname])
                        break
                    if len(c.array) != st['nrows']:
                        bad = 'channel %s has %d frames expected %d' % (c.ident, len(c.array), st['nrows'])
                        break
                    for ri in range(st['nrows']):
                        v = c.array[ri][0]
                        w = rows[ri][ci]
                        if type(w) is float:
                            if not (isinstance(v, float) or hasattr(v, 'dtype')) or float(v) != w:
                                bad = '%s[%d] = %r expected %r' % (c.ident, ri, v, w)
                        elif v != w or type(v) is not type(w):
                            bad = '%s[%d] = %r (%s) expected %r' % (c.ident, ri, v, type(v).__name__, w)
                        if bad:
                            break
                    if bad:
                        break
            if bad:
                ctx.fail('parse_file misread: %s; text:\n%s' % (bad, text), case, sig=dict(kind='misread'))
        # the same file OBJECT used again - probed with can_parse_file() and then parsed (what the file type sniffer and then a reader
        # do), parsed twice, or peeked at first: the parse is the same as on a fresh object
        if got == 'ok' and n % 4 == 0:
            fo = io.StringIO(text)
            try:
                hist_ = ['can_parse_file, parse_file', 'parse_file twice', 'readline, parse_file'][(n // 4) % 3]
                if hist_.startswith('can'):
                    DAT_parser.can_parse_file(fo)
                elif hist_.startswith('parse'):
                    DAT_parser.parse_file(fo, ident='verif')
                else:
                    fo.readline()
                fa2 = DAT_parser.parse_file(fo, ident='verif')
                same = [c.ident for c in fa2.channels] == [c.ident for c in fa.channels] and all(
                    len(a.array) == len(b.array) and all(a.array[i][0] == b.array[i][0] for i in range(len(a.array))) for a, b in zip(fa.channels, fa2.channels))
                if not same:
                    ctx.fail('parse_file on a file object used before (%s) differs from the parse of a fresh object; text:\n%s' % (hist_, text), case, sig=dict(kind='reuse'))
            except Exception as e:
                ctx.fail('parse_file on a file object used before (%s) raised %s: %s; a fresh object parses; text:\n%s' % (hist_, type(e).__name__, e, text), case,
                         sig=dict(kind='reuse'))
        # can_parse_file: never raises; True for an uncorrupted text with >= 1 row
        try:
            cp = DAT_parser.can_parse_file(io.StringIO(text))
            if kind == 'none' and st['nrows'] >= 1 and cp is not True:
                ctx.fail('can_parse_file returned %r for a valid DAT text:\n%s' % (cp, text), case, sig=dict(kind='can_parse'))
        except Exception as e:
            if exp != 'must_not_parse' or isinstance(e, DAT_parser.ExceptionDAT):
                ctx.fail('can_parse_file raised %s: %s; text:\n%s' % (type(e).__name__, e, text), case, sig=dict(kind='can_parse_raise'))
        # a result a caller holds on to stays what it was, whatever is parsed afterwards (other files with the same declarations)
        if held is not None:
            hfa, hsnap, htext = held
            now_ = [(c_.ident, [c_.array[i_][0] for i_ in range(len(c_.array))]) for c_ in hfa.channels]
            if now_ != hsnap and nheld_bad < 3:
                nheld_bad += 1
                ctx.fail('the result of an earlier parse_file changed when another text was parsed: %r, was %r; earlier text:\n%s' % (
                    [(a_, len(b_)) for a_, b_ in now_], [(a_, len(b_)) for a_, b_ in hsnap], htext), dict(kind='held-result'), sig=dict(kind='held-result'))
        if got == 'ok' and n % 3 == 0:
            held = (fa, [(c_.ident, [c_.array[i_][0] for i_ in range(len(c_.array))]) for c_ in fa.channels], text)
    ctx.notes['texts_replayed'] = n
    ctx.exhaustive = not ctx.quick
    ctx.rule = ('one case per terminal state of Dat.tla (declaration order x header subset/order x rows x corruption); quick '
                'replays every third; non-trivial = corrupted or >= 1 data row')
    ctx.assumptions += ['a DAT error is an exception derived from DAT_parser.ExceptionDAT',
                        'garbled values (non-numbers, impossible dates/times) must not yield a frame array; which exception '
                        'class is raised for them is not judged']
    ctx.explanation = 'TLC enumerates the content/corruption model and checks the scanner design; every text is replayed on the parser'


def replay(ctx, path):
    run(ctx)
