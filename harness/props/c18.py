"""C18 - Generated XML, XHTML and SVG are well-formed and carry the data unchanged.

1. TLC: XmlStream.tla - every API-call sequence up to MaxCalls over character-class strings: the token stream
   always parses (WellFormed) into exactly the implied events (Faithful).
2. spec -> code: every closed behaviour of the model is replayed on the real XmlStream / XhtmlStream / Element
   with concrete characters for every class; the output is parsed by expat (and lxml) and compared with the events
   the specification expects.  Character classes are then swept: every code point (thorough: all of Unicode BMP +
   astral sample) in text and attribute position.
3. code -> spec: the API-call streams of the real document writers (LAS HTML; RP66V1 XML index / HTML and LIS HTML
   when their generators are available) are captured and validated by TLC against XmlStreamTrace.tla together with
   the parsed document.
"""
import io
import json
import os

from .. import repo, xmltrace
from ..gen import las as GL

LEVEL = 'model_checking'

CHARS = {
    'plain': ['x', 'A', '0', ' ', '-', '_', '.', ':', ';', '/', '=', '~', '\x7f', '%', '#', '[', ']'],
    'markup': ['<', '>', '&'],
    'quote': ["'", '"'],
    'ws': ['\t', '\n', '\r'],
    'ctl': ['\x00', '\x01', '\x08', '\x0b', '\x0c', '\x0e', '\x1f'],
    'nonascii': ['\xe9', '\x80', '\x85', '\xa0', ' ', '中', '�', '퟿', '', '\U00010000', '\U0001F600', '\U0010ffff'],
    'nonchar': ['￾', '￿', '\ud800', '\udfff'],
}


def concrete(classes, rng):
    return ''.join(rng.choice(CHARS[c]) for c in classes)


def meaning_ok(expected_src, got):
    """expected_src is the string passed to the writer. If it is XML-representable the parser must give it back
    unchanged; otherwise nothing is required of the value (only that the document parses)."""
    return (not xmltrace.representable(expected_src)) or expected_src == got


def compare_events(calls_expected, parsed, root_wrapper=None):
    """calls_expected: list of ('start', name, {k: v}) / ('chars', text) / ('end', name) built from the spec's `expect`
    with the concrete strings; parsed: from xmltrace.parse_tree. White-space-only parsed text where no text is expected
    is indentation. Returns '' or a description of the first difference."""
    pi = 0
    P = parsed
    for e in calls_expected:
        # skip indentation
        while pi < len(P) and P[pi][0] == 'chars' and e[0] != 'chars' and xmltrace.is_ws(P[pi][1]) and set(P[pi][1]) <= set('\n '):
            pi += 1
        if e[0] == 'chars' and not xmltrace.representable(e[1]):
            if pi < len(P) and P[pi][0] == 'chars':
                pi += 1
            continue
        if pi >= len(P):
            return 'document ends early, expected %r' % (e,)
        p = P[pi]
        if e[0] != p[0]:
            return 'expected %r got %r' % (e, p)
        if e[0] == 'start':
            if e[1] != p[1] or set(e[2]) != set(p[2]) or not all(meaning_ok(e[2][k], p[2][k]) for k in e[2]):
                return 'expected %r got %r' % (e, p)
        elif e[0] == 'end':
            if e[1] != p[1]:
                return 'expected %r got %r' % (e, p)
        else:
            if e[1] != p[1]:
                return 'text: expected %r got %r' % (e[1], p[1])
        pi += 1
    while pi < len(P) and P[pi][0] == 'chars' and xmltrace.is_ws(P[pi][1]):
        pi += 1
    if pi != len(P):
        return 'extra events in document: %r' % (P[pi],)
    return ''


def known_f7(ctx, text, case):
    """If the document fails to parse ONLY because of references to characters XML cannot represent (finding F7),
    count the known finding and return the document with exactly those references replaced, so that every other aspect is
    still judged.  Any other parse failure is left for the caller to report."""
    try:
        xmltrace.parse_tree(text)
        return text
    except Exception as e:
        fixed, n = xmltrace.sanitize_illegal_charrefs(text)
        if n:
            try:
                xmltrace.parse_tree(fixed)
            except Exception:
                return text
            ctx.fail('document unparseable: %s (illegal character reference)' % e, case, sig=dict(kind='illegal-charref'))
            return fixed
        return text


def replay_behaviour(ctx, XmlWrite, hist, rng, flavour):
    """Replay one spec behaviour (list of calls with class strings) on the real class."""
    f = io.StringIO()
    cls = XmlWrite.XhtmlStream if flavour == 'xhtml' else XmlWrite.XmlStream
    expected = []
    raised_mismatch = None
    stack = []
    with cls(f) as xs:
        for c in hist:
            op = c['op']
            if op == 'start':
                v = concrete(c['v'], rng)
                attrs = {'a': v} if c['hasAttr'] else {}
                if flavour == 'element':
                    el = XmlWrite.Element(xs, c['name'], attrs)
                    el.__enter__()
                    stack.append(el)
                else:
                    xs.startElement(c['name'], attrs)
                    stack.append(c['name'])
                expected.append(('start', c['name'], attrs))
            elif op == 'chars':
                s = concrete(c['s'], rng)
                xs.characters(s)
                if s:
                    if expected and expected[-1][0] == 'chars':
                        expected[-1] = ('chars', expected[-1][1] + s)
                    else:
                        expected.append(('chars', s))
            elif op == 'comment':
                s = concrete(c['s'], rng).replace('-', '=')     # '--' inside comments is outside the property
                xs.comment(s)
            elif op == 'end':
                top = stack[-1] if stack else None
                top_name = (top._name if flavour == 'element' and top is not None else top)
                if top is None or top_name != c['name']:
                    # the specification says this call raises and changes nothing
                    try:
                        xs.endElement(c['name'])
                        raised_mismatch = 'endElement(%r) with open %r did not raise' % (c['name'], top_name)
                    except XmlWrite.ExceptionXmlEndElement:
                        pass
                else:
                    if flavour == 'element':
                        top.__exit__(None, None, None)
                    else:
                        xs.endElement(c['name'])
                    stack.pop()
                    expected.append(('end', c['name']))
        while stack:
            top = stack.pop()
            expected.append(('end', top._name if flavour == 'element' else top))
    text = f.getvalue()
    if flavour == 'xhtml':
        expected = [('start', 'html', {'xmlns': 'http://www.w3.org/1999/xhtml', 'xml:lang': 'en', 'lang': 'en'})] + expected + [('end', 'html')]
    return text, expected, raised_mismatch


def run(ctx):
    repo.setup()
    from ..core import quiet_logging
    quiet_logging()
    from TotalDepth.util import XmlWrite
    rng = ctx.subrng('c18')
    maxcalls = ctx.pick(3, 4)
    consts = {'Names': frozenset(['a', 'b']),
              'AttrVals': frozenset([('plain',), ('quote', 'ws'), ('ctl',), ('nonchar', 'markup'), ('nonascii', 'quote')]),
              'Texts': frozenset([(), ('plain', 'markup'), ('ws', 'nonascii'), ('ctl', 'quote'), ('nonchar',)])}
    r, states = ctx.tlc_dump('MC_XmlStream', 'XmlStream', consts=consts, cfg_consts={'MaxCalls': str(maxcalls), 'F7': 'FALSE'},
                             invariants=['WellFormed', 'Faithful', 'StackMatchesOutput', 'BoundOK'],
                             need_actions=['StartElement', 'Characters', 'Comment', 'EndElement', 'Exit'], timeout=1500)
    # the same model with the implementation's known deviation (F7) switched on must violate WellFormed
    rf7 = ctx.tlc_check('MC_XmlStream_F7', 'XmlStream', consts=consts, cfg_consts={'MaxCalls': '2', 'F7': 'TRUE'},
                        invariants=['WellFormed'], expect_ok=False, timeout=600)
    if rf7.ok():
        ctx.vacuity.append('XmlStream with F7=TRUE did not violate WellFormed: the invariant has no bite')
    ctx.notes['design_counterexample_F7'] = [str(s_[1].get('hist')) for s_ in rf7.trace[-1:]]
    nb = 0
    flavours = ['xml', 'xhtml', 'element']
    for st in states:
        if st['state'] != 'closed':
            continue
        nb += 1
        hist = [dict(h) for h in st['hist']]
        flavour = flavours[nb % 3]
        try:
            text, expected, mism = replay_behaviour(ctx, XmlWrite, hist, rng, flavour)
        except Exception as e:
            ctx.fail('XmlStream raised %s: %s replaying the calls %s' % (type(e).__name__, e, json.dumps(hist)),
                     dict(hist=hist, flavour=flavour), sig=dict(kind='replay-exception'))
            continue
        uses = {c for h in hist for c in (h.get('v', ()) if h.get('hasAttr', True) else ()) + tuple(h.get('s', ()))}
        ctx.case(('beh', nb), len(hist) >= 2)
        bad = mism
        if not bad:
            text = known_f7(ctx, text, dict(hist=hist, flavour=flavour))
            try:
                parsed = xmltrace.parse_tree(text)
                bad = compare_events(expected, parsed)
            except Exception as e:
                bad = 'document does not parse: %s' % e
            if not bad:
                ok, why = xmltrace.lxml_ok(text)
                if not ok:
                    bad = 'lxml rejects the document: ' + why
        if bad:
            ctx.fail('XmlStream (%s) output for the calls %s: %s; document %r' % (flavour, json.dumps(hist)[:400], bad, text[:300]),
                     dict(hist=hist, flavour=flavour, text=text),
                     sig=dict(kind='replay', has_ctl='ctl' in uses, has_nonchar='nonchar' in uses))
        if nb == 5:
            ctx.sample(dict(kind='replayed behaviour', calls=hist, flavour=flavour, document=text))
    ctx.notes['behaviours_replayed'] = nb
    # ---- character sweep: every code point in text and attribute position ----
    if ctx.quick:
        cps = sorted(set(list(range(0, 0x300)) + [0xd7ff, 0xd800, 0xdbff, 0xdc00, 0xdfff, 0xe000, 0xfffd, 0xfffe, 0xffff,
                                                   0x10000, 0x1ffff, 0x10ffff] + [rng.randrange(0x110000) for _ in range(3000)]))
    else:
        cps = list(range(0, 0x10000)) + list(range(0x10000, 0x110000, 97)) + [0x10ffff]
    B = 128
    nsweep = 0
    for i in range(0, len(cps), B):
        batch = cps[i:i + B]
        f = io.StringIO()
        with XmlWrite.XmlStream(f) as xs:
            with XmlWrite.Element(xs, 'r'):
                for cp in batch:
                    ch = chr(cp)
                    with XmlWrite.Element(xs, 'c', {'n': '%d' % cp, 'v': 'A' + ch + 'Z'}):
                        xs.characters('a' + ch + 'z')
        text = f.getvalue()
        nsweep += len(batch)
        try:
            parsed = xmltrace.parse_tree(text)
        except Exception as e:
            fixed, nfix = xmltrace.sanitize_illegal_charrefs(text)
            # locate the offending code point(s) one by one
            for cp in batch:
                f1 = io.StringIO()
                with XmlWrite.XmlStream(f1) as xs:
                    with XmlWrite.Element(xs, 'c', {'v': 'A' + chr(cp) + 'Z'}):
                        xs.characters('a' + chr(cp) + 'z')
                t1 = known_f7(ctx, f1.getvalue(), dict(cp=cp))
                try:
                    xmltrace.parse_tree(t1)
                except Exception as e1:
                    ctx.fail('document with U+%04X in text/attribute does not parse: %s; %r' % (cp, e1, f1.getvalue()[:200]),
                             dict(cp=cp, text=f1.getvalue()),
                             sig=dict(kind='sweep', cls='ctl' if cp < 32 else ('nonchar' if not xmltrace.representable(chr(cp)) else 'legal')))
            try:
                parsed = xmltrace.parse_tree(fixed)     # judge the rest of the batch on the sanitized document
            except Exception:
                continue
        els = [p for p in parsed if p[0] == 'start' and p[1] == 'c']
        txt = {}
        cur = None
        for p in parsed:
            if p[0] == 'start' and p[1] == 'c':
                cur = int(p[2]['n'])
                txt[cur] = ''
            elif p[0] == 'chars' and cur is not None:
                txt[cur] += p[1]
            elif p[0] == 'end' and p[1] == 'c':
                cur = None
        for p in els:
            cp = int(p[2]['n'])
            ch = chr(cp)
            if xmltrace.representable(ch):
                if p[2]['v'] != 'A' + ch + 'Z' or txt.get(cp) != 'a' + ch + 'z':
                    ctx.fail('U+%04X not recovered unchanged: attribute %r text %r' % (cp, p[2]['v'], txt.get(cp)),
                             dict(cp=cp), sig=dict(kind='sweep-fidelity'))
        if len(els) != len(batch):
            ctx.fail('sweep batch lost elements (%d of %d)' % (len(els), len(batch)), dict(first=batch[0]), sig=dict(kind='sweep'))
    for cp in cps[::97]:
        ctx.case(('cp', cp), True)
    ctx.notes['code_points_swept'] = nsweep
    # ---- real writers: LAS -> HTML ----
    from TotalDepth.LAS import LASToHTML
    from TotalDepth.common import Slice
    traces, parsed_l, ok_l, meta = [], [], [], []
    nasty = ['<b>', 'a&b', '"q"', "it's", 'caf\xe9', 'x\x01y', 'tab\there', '中文', '￾y', 'a\x0bb', ']]>', '<!--', '&amp;', '\x7f', 'plain']
    wd = ctx.wdir('las')
    for t in range(ctx.pick(25, 200)):
        ncurves = rng.choice([1, 2, 5])
        nfr = rng.choice([1, 3, 12])
        def nz():
            return rng.choice(nasty)
        content = dict(vers=rng.choice(['2.0', '1.2']), wrap=False,
                       well=[('STRT', 'M', '100.0', 'start ' + nz()), ('STOP', 'M', '%.1f' % (100 + nfr - 1), 'stop'),
                             ('STEP', 'M', '1.0', nz()), ('NULL', '', '-999.25', 'null'),
                             ('WELL', '', 'W ' + nz(), 'well name ' + nz()), ('COMP', '', nz(), nz())],
                       curves=[('DEPT', 'M', '', 'depth ' + nz())] + [('C%d' % i, rng.choice(['', 'V/V', 'API']), '', nz()) for i in range(ncurves)],
                       params=[('P%d' % i, '', nz().replace(':', ''), nz().replace(':', '')) for i in range(rng.randint(0, 3))],
                       other=['free text ' + nz()] if rng.random() < 0.5 else None,
                       frames=[[100.0 + i] + [rng.choice([1.5, -2.25, 1e3, -999.25]) for _ in range(ncurves)] for i in range(nfr)])
        text = GL.render(content).replace(':', ':')
        pin = os.path.join(wd, 'in%d.las' % t)
        pout = os.path.join(wd, 'out%d.html' % t)
        with open(pin, 'w', encoding='utf-8', errors='surrogatepass') as f:
            f.write(text)
        m = dict(writer='LASToHTML.las_file_to_html', las=text[:600])
        try:
            with xmltrace.record_xml_streams() as recs:
                LASToHTML.las_file_to_html(pin, pout, 'LAS', False, False, Slice.Slice())
            doc = open(pout, encoding='utf-8', errors='surrogatepass').read()
        except Exception as e:
            ctx.fail('LASToHTML.las_file_to_html raised %s: %s on %r' % (type(e).__name__, e, text[:300]), m, sig=dict(kind='las-html-exception'))
            continue
        doc = known_f7(ctx, doc, m)
        ok, err, pev = xmltrace.parse_events(doc)
        if ok:
            ok2, why = xmltrace.lxml_ok(doc)
            if not ok2:
                ok, err = False, 'lxml: ' + why
        for r_ in recs:
            traces.append(r_.ev)
            parsed_l.append(pev)
            ok_l.append(ok)
            meta.append(dict(m, parse_error=err, calls=r_.calls))
        ctx.case(('lashtml', t), True)
        os.remove(pin)
        os.remove(pout)
    if traces:
        ctx.sample(dict(kind='real writer call stream', meta=meta[0], events=traces[0][:12]))
        rej = ctx.validate_traces('XmlStreamTrace', 'XmlStreamTrace', traces, payload_extra=dict(parsed=parsed_l, ok=ok_l),
                                  workers=16)
        for t, l, st in rej:
            ev = traces[t][l - 1] if l and l <= len(traces[t]) else None
            ctx.fail('document writer call stream / document rejected by XmlStreamTrace at call %s: %s (parse ok=%s %s); %s' % (
                l, json.dumps(ev), ok_l[t], meta[t].get('parse_error'), json.dumps(meta[t])[:400]),
                dict(meta=meta[t], event=ev, l=l), sig=dict(kind='writer-trace', parse_ok=ok_l[t]))
    ctx.rule = ('behaviours: every closed API-call sequence of the model (<= %d calls) replayed on XmlStream / XhtmlStream / '
                'Element alternately; non-trivial = >= 2 calls; code points: one case per swept code point (sampled in the '
                'count); writer traces: one per generated LAS file' % maxcalls)
    ctx.assumptions += ['element and attribute names are valid XML names', 'comment text free of "-"; processing instructions '
                        'and literal() (raw markup by contract) are not given arbitrary strings',
                        'strings containing characters XML 1.0 cannot represent are only required not to break the document']
    ctx.explanation = ('TLC proves WellFormed/Faithful of the token-level model; every model behaviour and every code point is '
                       'replayed on the real writer and parsed back; real writer call streams are validated by TLC')


def replay(ctx, path):
    run(ctx)
