"""C18 - Generated XML, XHTML and SVG are well-formed and carry the data unchanged.

1. TLC: XmlStream.tla - every API-call sequence up to MaxCalls over character-class strings: the token stream
   always parses (WellFormed) into exactly the implied events (Faithful).
2. spec -> code: every closed behaviour of the model is replayed on the real XmlStream / XhtmlStream / Element
   with concrete characters for every class; the output is parsed by expat (and lxml) and compared with the events
   the specification expects.  Character classes are then swept: every code point (thorough: all of Unicode BMP +
   astral sample) in text and attribute position.
3. code -> spec: the API-call streams of the real document writers (LAS HTML; RP66V1 XML index / HTML and LIS HTML
   when their generators are available) are captured and validated by TLC against XmlStreamTrace.tla together with
   the parsed document.
"""
import io
import json
import os

from .. import repo, xmltrace
from ..gen import las as GL

LEVEL = 'model_checking'

CHARS = {
    'plain': ['x', 'A', '0', ' ', '-', '_', '.', ':', ';', '/', '=', '~', '\x7f', '%', '#', '[', ']'],
    'markup': ['<', '>', '&'],
    'quote': ["'", '"'],
    'ws': ['\t', '\n', '\r'],
    'nl': ['\n'],
    'cr': ['\r', '\x85', '\u2028', '\u2029', '\r'],
    'ctl': ['\x00', '\x01', '\x08', '\x0b', '\x0c', '\x0e', '\x1f'],
    'nonascii': ['\xe9', '\x80', '\x85', '\xa0', ' ', '中', '�', '퟿', '', '\U00010000', '\U0001F600', '\U0010ffff'],
    'nonchar': ['￾', '￿', '\ud800', '\udfff'],
}


def concrete(classes, rng):
    return ''.join(rng.choice(CHARS[c]) for c in classes)


def meaning_ok(expected_src, got):
    """expected_src is the string passed to the writer. If it is XML-representable the parser must give it back
    unchanged; otherwise nothing is required of the value (only that the document parses)."""
    return (not xmltrace.representable(expected_src)) or expected_src == got


def compare_events(calls_expected, parsed, root_wrapper=None):
    """calls_expected: list of ('start', name, {k: v}) / ('chars', text) / ('end', name) built from the spec's `expect`
    with the concrete strings; parsed: from xmltrace.parse_tree. White-space-only parsed text where no text is expected
    is indentation. Returns '' or a description of the first difference."""
    pi = 0
    P = parsed
    for e in calls_expected:
        # skip indentation
        while pi < len(P) and P[pi][0] == 'chars' and e[0] != 'chars' and xmltrace.is_ws(P[pi][1]) and set(P[pi][1]) <= set('\n '):
            pi += 1
        if e[0] == 'chars' and not xmltrace.representable(e[1]):
            if pi < len(P) and P[pi][0] == 'chars':
                pi += 1
            continue
        if pi >= len(P):
            return 'document ends early, expected %r' % (e,)
        p = P[pi]
        if e[0] != p[0]:
            return 'expected %r got %r' % (e, p)
        if e[0] == 'start':
            if e[1] != p[1] or set(e[2]) != set(p[2]) or not all(meaning_ok(e[2][k], p[2][k]) for k in e[2]):
                return 'expected %r got %r' % (e, p)
        elif e[0] == 'end':
            if e[1] != p[1]:
                return 'expected %r got %r' % (e, p)
        else:
            if e[1] != p[1]:
                return 'text: expected %r got %r' % (e[1], p[1])
        pi += 1
    while pi < len(P) and P[pi][0] == 'chars' and xmltrace.is_ws(P[pi][1]):
        pi += 1
    if pi != len(P):
        return 'extra events in document: %r' % (P[pi],)
    return ''


def known_f7(ctx, text, case):
    """If the document fails to parse ONLY because of references to characters XML cannot represent (finding F7),
    count the known finding and return the document with exactly those references replaced, so that every other aspect is
    still judged.  Any other parse failure is left for the caller to report."""
    try:
        xmltrace.parse_tree(text)
        return text
    except Exception as e:
        fixed, n = xmltrace.sanitize_illegal_charrefs(text)
        if n:
            try:
                xmltrace.parse_tree(fixed)
            except Exception:
                return text
            ctx.fail('document unparseable: %s (illegal character reference)' % e, case, sig=dict(kind='illegal-charref'))
            return fixed
        return text


class Background:
    """a second document being written while the one under test is (a report and its index, two plots): one call on it between any
    two calls on the other; it must come out as it does alone"""
    SCRIPT = [('start', 'r', {}), ('start', 'x', {'k': 'v<&"'}), ('chars', 't<&>'), ('end', 'x'), ('comment', 'c'), ('start', 'y', {}), ('chars', 'deep'),
              ('start', 'z', {}), ('end', 'z'), ('end', 'y'), ('chars', 'tail'), ('start', 'w', {'a': '1'}), ('end', 'w')]

    def __init__(self, XmlWrite, xhtml):
        self.f = io.StringIO()
        self.xs = (XmlWrite.XhtmlStream if xhtml else XmlWrite.XmlStream)(self.f)
        self.xs.__enter__()
        self.n, self.open = 0, []

    def step(self):
        if self.n >= len(self.SCRIPT):
            return                                        # the script is over: the document waits to be closed
        op = self.SCRIPT[self.n]
        self.n += 1
        if op[0] == 'start':
            self.xs.startElement(op[1], op[2])
            self.open.append(op[1])
        elif op[0] == 'end':
            self.xs.endElement(self.open.pop())
        elif op[0] == 'chars':
            self.xs.characters(op[1])
        else:
            self.xs.comment(op[1])

    def finish(self):
        while self.open:
            self.xs.endElement(self.open.pop())
        self.xs.__exit__(None, None, None)
        return self.f.getvalue()

    @classmethod
    def alone(cls, XmlWrite, xhtml, nsteps):
        b = cls(XmlWrite, xhtml)
        for _ in range(nsteps):
            b.step()
        return b.finish()


def replay_behaviour(ctx, XmlWrite, hist, rng, flavour, background=False):
    """Replay one spec behaviour (list of calls with class strings) on the real class."""
    f = io.StringIO()
    cls = XmlWrite.XhtmlStream if flavour == 'xhtml' else XmlWrite.XmlStream
    expected = []
    raised_mismatch = None
    stack = []
    bg = Background(XmlWrite, flavour != 'xhtml') if background else None
    with cls(f) as xs:
        for c in hist:
            if bg is not None:
                bg.step()
            op = c['op']
            if op == 'start':
                v = concrete(c['v'], rng)
                attrs = {'a': v} if c['hasAttr'] else {}
                if flavour == 'element':
                    el = XmlWrite.Element(xs, c['name'], attrs)
                    el.__enter__()
                    stack.append(el)
                else:
                    xs.startElement(c['name'], attrs)
                    stack.append(c['name'])
                expected.append(('start', c['name'], attrs))
            elif op == 'chars':
                s = concrete(c['s'], rng)
                xs.characters(s)
                if s:
                    if expected and expected[-1][0] == 'chars':
                        expected[-1] = ('chars', expected[-1][1] + s)
                    else:
                        expected.append(('chars', s))
            elif op == 'charsbr':
                s = concrete(c['s'], rng)
                if flavour != 'xhtml':          # only XhtmlStream has it: elsewhere the caller's loop, as documented
                    s = s.replace('\n', '')
                    xs.characters(s)
                    pieces = [s]
                else:
                    xs.charactersWithBr(s)
                    pieces = s.split('\n')
                    if pieces[-1] == '' and len(pieces) > 1:
                        pieces = pieces[:-1] + [None]        # a trailing LF ends with its <br/>
                for k, piece in enumerate(pieces):
                    if piece:
                        if expected and expected[-1][0] == 'chars':
                            expected[-1] = ('chars', expected[-1][1] + piece)
                        else:
                            expected.append(('chars', piece))
                    if k < len(pieces) - 1:
                        expected += [('start', 'br', {}), ('end', 'br')]
            elif op == 'comment':
                s = concrete(c['s'], rng).replace('-', '=')     # '--' inside comments is outside the property
                xs.comment(s)
            elif op == 'end':
                top = stack[-1] if stack else None
                top_name = (top._name if flavour == 'element' and top is not None else top)
                if top is None or top_name != c['name']:
                    # the specification says this call raises and changes nothing
                    try:
                        xs.endElement(c['name'])
                        raised_mismatch = 'endElement(%r) with open %r did not raise' % (c['name'], top_name)
                    except XmlWrite.ExceptionXmlEndElement:
                        pass
                else:
                    if flavour == 'element':
                        top.__exit__(None, None, None)
                    else:
                        xs.endElement(c['name'])
                    stack.pop()
                    expected.append(('end', c['name']))
        while stack:
            top = stack.pop()
            expected.append(('end', top._name if flavour == 'element' else top))
    text = f.getvalue()
    if bg is not None:
        got_bg, n_bg = bg.finish(), bg.n
        want_bg = Background.alone(XmlWrite, flavour != 'xhtml', n_bg)
        if got_bg != want_bg and raised_mismatch is None:
            raised_mismatch = 'a second document written alternately with this one differs from the same calls alone: %r vs %r' % (got_bg[-120:], want_bg[-120:])
    if flavour == 'xhtml':
        expected = [('start', 'html', {'xmlns': 'http://www.w3.org/1999/xhtml', 'xml:lang': 'en', 'lang': 'en'})] + expected + [('end', 'html')]
    return text, expected, raised_mismatch


NASTY_ASCII = [b'<b>', b'a&b', b'"q"', b"it's", b'x\x01y', b'tab\there', b']]>', b'<!--', b'&amp;', b'\x7f', b'plain', b'a\x0bb', b' lead', b'trail ']
NASTY_BYTES = [b'caf\xe9', b'\x80\x85\x9f', b'\x81 \x8d', b'\xa0\xff', b'100\xb0C', b'\x93quoted\x94']


def build_nasty_dlis(rng, force=None):
    """an RP66V1 file (as C03/C04) whose long names, units, descriptions and values carry markup, quotes, control characters
    and (in ASCII-typed values) bytes above 0x7f.  Returns (bytes, truth)."""
    from ..gen import dlis as GD, dlislog as GLg
    from . import c04
    nlf = rng.choice([1, 2])
    recs, payloads, truth = [], [], []
    for lf in range(nlf):
        ntypes = rng.choice([1, 2])
        types, chans_all = [], []
        for t in range(ntypes):
            nch = rng.choice([1, 2, 4])
            chs = []
            for c in range(nch):
                rc = rng.choice([2, 7]) if c == 0 else rng.choice([2, 7, 13, 16])
                chs.append(dict(name=b'X%d%d' % (lf, t) if c == 0 else b'C%d%d%d' % (lf, t, c), long_name=b'ln ' + rng.choice(NASTY_ASCII), rc=rc,
                                units=rng.choice([b'm', b'', b'<u>', b'a&b', b'"']), dims=[1] if c == 0 else rng.choice([[1], [2]])))
            chans_all += chs
            n_ = rng.choice([1, 2, 5, 12])
            # X values and frame numbers: evenly spaced, or uneven - among the uneven ones those whose ENDS look even (one stationary
            # frame then a catch-up; a late start then a long last step: first + (second - first) * (count - 1) = last)
            xr, fnos = list(range(n_)), list(range(1, n_ + 1))
            if n_ >= 4:
                xr = rng.choice([xr, xr, [0, 1, 1] + list(range(3, n_)), [0, 2] + list(range(3, n_)) + [2 * (n_ - 1)], [0, 1, 2] + [k_ + 7 for k_ in range(3, n_)]])
                fnos = rng.choice([fnos, fnos, [1, 3] + list(range(4, n_ + 1)) + [2 * n_ - 1], [1, 2, 3] + [k_ + 9 for k_ in range(4, n_ + 1)]])
            # (an index in milliseconds since 1970 is a number of the size 1.6e12: half a unit is far below a billionth of it, and is still a step)
            xbase = 1.6e12 if chs[0]['rc'] == 7 and rng.random() < 0.5 else 0.0
            if force is not None and lf == 0 and t == 0:
                # the first files of every run: a double-precision index of twelve frames, uneven in each of the three ways, small and of
                # the size 1.6e12; frame numbers with gaps of both shapes (not drawn)
                chs[0]['rc'], n_ = 7, 12
                xr = [[0, 1, 1] + list(range(3, n_)), [0, 2] + list(range(3, n_)) + [2 * (n_ - 1)], [0, 1, 2] + [k_ + 7 for k_ in range(3, n_)]][force % 3]
                fnos = [[1, 3] + list(range(4, n_ + 1)) + [2 * n_ - 1], [1, 2, 3] + [k_ + 9 for k_ in range(4, n_ + 1)], list(range(1, n_ + 1))][(force // 2) % 3]
                xbase = 1.6e12 if force % 2 == 0 else 0.0
            types.append(dict(name=b'FT%d' % t, c=0, channels=chs, n=n_, xr=xr, xbase=xbase, fnos=fnos, description=rng.choice(NASTY_ASCII)))
        if ntypes == 2 and rng.random() < 0.4:
            # two COPIES of one frame object name (same origin and identifier, copy numbers 0 and 1): two frame types
            for t, ty in enumerate(types):
                ty['name'], ty['c'] = b'MAIN', t
        order = []
        for t, ty in enumerate(types):
            order += [t] * ty['n']
        rng.shuffle(order)
        well = rng.choice(NASTY_ASCII + NASTY_BYTES)
        company = rng.choice(NASTY_ASCII + NASTY_BYTES)
        params = [(b'P%d' % i, rng.choice(NASTY_ASCII + NASTY_BYTES), rng.choice(NASTY_ASCII)) for i in range(rng.randint(0, 3))]
        eflrs = [GLg.file_header(seq=lf + 1), GLg.origin_full(well=well, company=company, field=rng.choice(NASTY_ASCII))]
        kinds = [0, 1]
        if params:
            eflrs.append(GLg.simple_eflr(b'PARAMETER', [(b'LONG-NAME', 20, None, None), (b'VALUES', 20, None, None)],
                                         [((1, 0, nm), [[ln], [val]]) for nm, val, ln in params]))
            kinds.append(5)
        if rng.random() < 0.4:
            # a further ORIGIN-type table (RP66V1 asks for at least one ORIGIN): a table like any other
            eflrs.append(rng.choice([GLg.origin_full(well=rng.choice(NASTY_ASCII), company=company, field=b'second origin'),
                                     GLg.simple_eflr(b'WELL-REFERENCE', [(b'PERMANENT-DATUM', 20, None, None)], [((1, 0, b'WR'), [[b'ground level']])])]))
            kinds.append(1)
        eflrs += [GLg.channel_eflr(rng.sample(chans_all, len(chans_all)) if rng.random() < 0.6 else chans_all), GLg.frame_eflr([dict(name=ty['name'], c=ty['c'], channels=ty['channels'], description=ty['description']) for ty in types])]
        kinds += [3, 4]
        if rng.random() < 0.3:
            eflrs.append(GLg.simple_eflr(b'TOOL', [(b'DESCRIPTION', 20, None, None)], [((1, 0, b'T1'), [[rng.choice(NASTY_ASCII)]])]))
            kinds.append(5)
        for k, pl in zip(kinds, eflrs):
            recs.append(dict(kind='E', type=k, enc=False))
            payloads.append(pl)
        counters = [0] * ntypes
        for t in order:
            r = counters[t]
            counters[t] += 1
            data = b''
            for c, ch in enumerate(types[t]['channels']):
                for e in range(ch['dims'][0]):
                    data += c04.enc(ch['rc'], c04.value_of(ch['rc'], types[t]['xr'][r] if c == 0 else r, c, e) + (types[t]['xbase'] if c == 0 else 0))
            payloads.append(GLg.iflr(types[t]['name'], types[t]['fnos'][r], data, c=types[t]['c']))
            recs.append(dict(kind='I', type=0, enc=False))
        truth.append(dict(eflrs=len(eflrs), types=[dict(name=ty['name'].decode(), c=ty['c'], n=ty['n'], description=ty['description'], fnos=ty['fnos'],
                                                     xs=[float(c04.value_of(ty['channels'][0]['rc'], r_, 0, 0)) + ty['xbase'] for r_ in ty['xr']]) for ty in types],
                          well=well, company=company, params=params))
    for rec, pl in zip(recs, payloads):
        rec['len'] = len(pl)
    vm = rng.choice([256, 8192])
    lay = GD.random_layout(rng, recs, vm)
    return GD.render(recs, lay, sul=GD.render_sul(1, vm), payloads=payloads).data, truth


def expand_rle(el, hexa):
    out = []
    for r in el:
        d, st, rep = r.get('datum'), r.get('stride'), int(r.get('repeat'))
        if hexa:
            d, st = int(d, 16), int(st, 16)
        else:
            d, st = float(d), float(st)
        out += [d + st * k for k in range(rep + 1)]
    return out


def check_index_xml(ctx, doc, logical_index, truth, case):
    """the index document against the in-memory index and the generated content"""
    import xml.etree.ElementTree as ET
    root = ET.fromstring(doc.encode('utf-8', 'surrogatepass'))
    lfs = root.find('LogicalFiles')
    if lfs is None or len(list(lfs)) != len(logical_index.logical_files) or len(list(lfs)) != len(truth):
        return 'index lists %s logical files, the file has %d' % (None if lfs is None else len(list(lfs)), len(truth))
    for li, (lf_el, lf, tr) in enumerate(zip(lfs, logical_index.logical_files, truth)):
        eflr_els = lf_el.findall('EFLR')
        if len(eflr_els) != tr['eflrs'] or len(eflr_els) != len(lf.eflrs):
            return 'logical file %d: %d EFLR entries, the file has %d tables' % (li, len(eflr_els), tr['eflrs'])
        for eel, pe in zip(eflr_els, lf.eflrs):
            if int(eel.get('lrsh_position'), 16) != pe.lrsh_position.lrsh_position or eel.get('set_type') != pe.eflr.set.type.decode('ascii'):
                return 'EFLR entry %s/%s does not match the in-memory table %s at 0x%x' % (eel.get('set_type'), eel.get('lrsh_position'), pe.eflr.set.type, pe.lrsh_position.lrsh_position)
            objs = eel.findall('Object')
            if len(objs) != len(pe.eflr.objects):
                return 'EFLR %s lists %d objects, in memory %d' % (eel.get('set_type'), len(objs), len(pe.eflr.objects))
            for oel, obj in zip(objs, pe.eflr.objects):
                ael = oel.findall('Attribute')
                if len(ael) != len(obj.attrs):
                    return 'object %s: %d attributes, in memory %d' % (oel.get('I'), len(ael), len(obj.attrs))
                for a_el, a in zip(ael, obj.attrs):
                    vals = list(a_el)
                    mem = list(a.value) if a.value is not None else []
                    if len(vals) != len(mem):
                        return 'attribute %s: %d values, in memory %d' % (a_el.get('label'), len(vals), len(mem))
                    for v_el, v in zip(vals, mem):
                        if isinstance(v, bytes):
                            want = v.decode('latin-1')
                            if xmltrace.representable(want) and v_el.get('value') != want:
                                return 'attribute %s of %s %s: value %r, the file holds %r' % (a_el.get('label'), eel.get('set_type'), oel.get('I'), v_el.get('value'), want)
        lp_el = lf_el.find('LogPass')
        fas = [] if lp_el is None else lp_el.findall('FrameArray')
        if len(fas) != len(tr['types']):
            return 'logical file %d: %d FrameArray entries, the file has %d frame types' % (li, len(fas), len(tr['types']))
        for fa_el, ty, fa in zip(fas, tr['types'], lf.log_pass.frame_arrays if lf.has_log_pass else []):
            if fa_el.get('I') != ty['name'] or fa_el.get('C') != str(ty['c']):
                return 'FrameArray %r copy %r, expected %r copy %r' % (fa_el.get('I'), fa_el.get('C'), ty['name'], ty['c'])
            want_d = ty['description'].decode('latin-1')
            if xmltrace.representable(want_d) and fa_el.get('description') != want_d:
                return 'FrameArray %s description %r, the file holds %r' % (ty['name'], fa_el.get('description'), want_d)
            iflr = fa_el.find('IFLR')
            mem = lf.iflr_position_map[fa.ident]
            fn = expand_rle(iflr.find('FrameNumbers'), False)
            pos = expand_rle(iflr.find('LRSH'), True)
            xa = expand_rle(iflr.find('Xaxis'), False)
            if int(iflr.get('count')) != ty['n'] or len(mem) != ty['n']:
                return 'FrameArray %s: IFLR count %s, the file has %d frames' % (ty['name'], iflr.get('count'), ty['n'])
            if fn != [float(m.frame_number) for m in mem] or fn != [float(k) for k in ty['fnos']]:
                return 'FrameArray %s: frame numbers expand to %r, index holds %r' % (ty['name'], fn[:8], [m.frame_number for m in mem][:8])
            if pos != [m.logical_record_position.lrsh_position for m in mem]:
                return 'FrameArray %s: record positions expand to %r, index holds %r' % (ty['name'], pos[:6], [m.logical_record_position.lrsh_position for m in mem][:6])
            if xa != [float(m.x_axis) for m in mem] or xa != ty['xs']:
                return 'FrameArray %s: X values expand to %r, index holds %r' % (ty['name'], xa[:8], [m.x_axis for m in mem][:8])
    vr = root.find('VisibleRecords')
    if vr is not None and expand_rle(vr, True) != list(logical_index.visible_record_positions):
        return 'visible record positions expand to %r..., index holds %r...' % (expand_rle(vr, True)[:4], list(logical_index.visible_record_positions)[:4])
    return None


def real_writers_rp66_lis(ctx, rng, traces, parsed_l, ok_l, meta):
    """RP66V1 XML index, RP66V1 HTML scan, LIS HTML: captured call streams + documents (appended to the lists)"""
    from TotalDepth.RP66V1 import IndexXML, ScanHTML
    from TotalDepth.RP66V1.core import LogicalFile
    from TotalDepth.LIS import LisToHtml
    from TotalDepth.common import Slice
    from . import c11
    wd = ctx.wdir('rp66')

    def judge(doc, recs, m):
        doc = known_f7(ctx, doc, m)
        ok, err, pev = xmltrace.parse_events(doc)
        if ok:
            ok2, why = xmltrace.lxml_ok(doc)
            if not ok2:
                ok, err = False, 'lxml: ' + why
        for r_ in recs:
            traces.append(r_.ev)
            parsed_l.append(pev)
            ok_l.append(ok)
            meta.append(dict(m, parse_error=err, calls=r_.calls))
        return doc, ok

    for t in range(ctx.pick(30, 250)):
        data, truth = build_nasty_dlis(rng, force=t if t < 6 else None)
        pin = os.path.join(wd, 'f%d.dlis' % t)
        with open(pin, 'wb') as f:
            f.write(data)
        m = dict(writer='IndexXML.write_logical_file_sequence_to_xml', file=t, truth=json.dumps(truth, default=lambda b: b.decode('latin-1'))[:500])
        ctx.case(('indexxml', t), True)
        try:
            with LogicalFile.LogicalIndex(pin) as li:
                out = io.StringIO()
                with xmltrace.record_xml_streams() as recs:
                    IndexXML.write_logical_file_sequence_to_xml(li, out, rng.random() < 0.5)
                doc, ok = judge(out.getvalue(), recs, m)
                if ok:
                    bad = check_index_xml(ctx, doc, li, truth, m)
                    if bad:
                        ctx.fail('RP66V1 XML index: %s; %s' % (bad, m['truth'][:300]), dict(m, doc=doc[:3000]), sig=dict(kind='index-xml-content'))
        except Exception as e:
            ctx.fail('IndexXML raised %s: %s; %s' % (type(e).__name__, e, m['truth'][:300]), m, sig=dict(kind='index-xml-exception', error=type(e).__name__))
        m2 = dict(m, writer='ScanHTML.html_scan_RP66V1_file_data_content')
        ctx.case(('scanhtml', t), True)
        try:
            out = io.StringIO()
            with xmltrace.record_xml_streams() as recs:
                ScanHTML.html_scan_RP66V1_file_data_content(pin, out, False, Slice.Slice(), rng.random() < 0.5)
            judge(out.getvalue(), recs, m2)
        except Exception as e:
            ctx.fail('ScanHTML raised %s: %s; %s' % (type(e).__name__, e, m['truth'][:300]), m2, sig=dict(kind='scan-html-exception', error=type(e).__name__))
        os.remove(pin)
    wl = ctx.wdir('lis')
    for t in range(ctx.pick(20, 150)):
        data, _passes, lmeta = c11.build_lis(rng, ctx)
        pin = os.path.join(wl, 'f%d.lis' % t)
        pout = os.path.join(wl, 'o%d' % t)
        with open(pin, 'wb') as f:
            f.write(data)
        m = dict(writer='LisToHtml.processFile', file=t, lis=json.dumps(lmeta)[:300])
        ctx.case(('lishtml', t), True)
        try:
            with xmltrace.record_xml_streams() as recs:
                LisToHtml.processFile(pin, pout, False)
            if os.path.exists(pout + '.html'):
                judge(open(pout + '.html', encoding='utf-8', errors='surrogatepass').read(), recs, m)
                os.remove(pout + '.html')
            else:
                ctx.fail('LisToHtml.processFile wrote no HTML for a valid LIS file; %s' % m['lis'], m, sig=dict(kind='lis-html-missing'))
        except Exception as e:
            ctx.fail('LisToHtml.processFile raised %s: %s; %s' % (type(e).__name__, e, m['lis']), m, sig=dict(kind='lis-html-exception', error=type(e).__name__))
        os.remove(pin)


REPO_TESTS = ['tests/unit/test_util/TestXmlWrite.py', 'tests/unit/test_util/TestHtmlUtils.py', 'tests/unit/test_util/test_plot/TestSVGWriter.py',
              'tests/unit/common/test_ToHTML.py', 'tests/unit/test_util/test_plot/TestTrack.py']


def repo_tests_as_traces(ctx, traces, parsed_l, ok_l, meta, nodoc_l):
    """The repository's own tests of the XML / XHTML / SVG writers are run in this process under the call recorder: every
    XmlStream they create is one more trace (call stream + document when it is written to memory).  Their assertions are
    weaker than the specification; their executions are not."""
    import pytest
    root = repo.REPO if os.path.isdir(os.path.join(repo.REPO, 'tests')) else '/repo'
    files = [os.path.join(root, t) for t in REPO_TESTS if os.path.exists(os.path.join(root, t))]
    if not files:
        ctx.vacuity.append('none of the repository test files of the XML writers was found')
        return
    with xmltrace.record_xml_streams() as recs:
        with open(os.devnull, 'w') as devnull:
            import contextlib
            with contextlib.redirect_stdout(devnull), contextlib.redirect_stderr(devnull):
                rc = pytest.main(['-q', '-p', 'no:cacheprovider', '-x', '--no-header', '-W', 'ignore', '--rootdir', root] + files)
    ctx.notes['repo_tests_exit_code'] = int(rc)
    n = 0
    for r_ in recs:
        if not r_.ev:
            continue
        n += 1
        # a stream that never opens an element is not a document (a unit test of the prologue only)
        complete = (not r_.aborted) and r_.doc is not None and r_.ev[-1].get('op') == 'exit' and any(e.get('op') == 'start' for e in r_.ev)
        ok, err, pev = (False, 'no document', [])
        if complete:
            doc = known_f7(ctx, r_.doc, dict(source='repository test'))
            ok, err, pev = xmltrace.parse_events(doc)
        traces.append(r_.ev)
        parsed_l.append(pev)
        ok_l.append(ok)
        nodoc_l.append(not complete)
        meta.append(dict(writer='repository test suite (%s)' % ', '.join(os.path.basename(f) for f in files), calls=r_.calls, parse_error=err,
                         complete=complete, aborted=r_.aborted))
        ctx.case(('repo-test-stream', n), complete)
    ctx.notes['repo_test_streams'] = n


def svg_plots(ctx, rng, traces, parsed_l, ok_l, meta):
    """SVG log plots (PlotReadLIS on generated log passes, titles with markup / quotes / control characters): call streams
    and documents like the other writers."""
    import random
    from . import c19
    from TotalDepth.LIS.core import File, FileIndexer, LogiRec, Mnem, EngVal
    from TotalDepth.util.plot import Plot
    wd = ctx.wdir('svg')
    film_lr = LogiRec.LrTableRead(c19.single_lr_file(c19.FILM))
    titles = ['plain title', 'a<b & "c"', "it's <!-- not a comment -->", 'tab\there', 'ctl\x01x', 'caf\xe9 \u4e2d', ']]>', '&amp;']
    for t in range(ctx.pick(6, 40)):
        curves = [dict(mnem=b'C0  ', outp=b'TEST', trac=rng.choice([b'T1  ', b'T23 ']), dest=b'2   ', mode=rng.choice([b'SHIF', b'WRAP']), le=-40.0, re=40.0)]
        n = rng.choice([5, 12])
        data, xs, cols = c19.build_log_pass(rng, [b'TEST'], [dict(kind=rng.choice(['ramp', 'inside', 'spiky']), absent=rng.random() < 0.5)], [(-40.0, 40.0)], n, rng.random() < 0.5)
        title = rng.choice(titles)
        m = dict(writer='Plot.PlotReadLIS.plotLogPassLIS (SVG)', title=title, frames=n)
        ctx.case(('svg', t), True)
        fp = os.path.join(wd, 'p%d.svg' % t)
        try:
            plotter = Plot.PlotReadLIS(film_lr, LogiRec.LrTableRead(c19.single_lr_file(c19.pres_bytes(curves))))
            f = File.FileRead(io.BytesIO(data), 'lp', keepGoing=False)
            lp = list(FileIndexer.FileIndex(f).genLogPasses())[0].logPass
            with xmltrace.record_xml_streams() as recs:
                plotter.plotLogPassLIS(f, lp, EngVal.EngVal(xs[0], b'FEET'), EngVal.EngVal(xs[-1], b'FEET'), Mnem.Mnem(b'2   '), fp, frameStep=1, title=title)
            doc = open(fp, encoding='utf-8', errors='surrogatepass').read()
            os.remove(fp)
        except Exception as e:
            ctx.fail('plotLogPassLIS raised %s: %s for title %r' % (type(e).__name__, e, title), m, sig=dict(kind='svg-exception', error=type(e).__name__))
            continue
        doc = known_f7(ctx, doc, m)
        ok, err, pev = xmltrace.parse_events(doc)
        if ok:
            ok2, why = xmltrace.lxml_ok(doc)
            if not ok2:
                ok, err = False, 'lxml: ' + why
        for r_ in recs:
            traces.append(r_.ev)
            parsed_l.append(pev)
            ok_l.append(ok)
            meta.append(dict(m, parse_error=err, calls=r_.calls))


def run(ctx):
    repo.setup()
    from ..core import quiet_logging
    quiet_logging()
    from TotalDepth.util import XmlWrite
    rng = ctx.subrng('c18')
    maxcalls = ctx.pick(3, 4)
    consts = {'Names': frozenset(['a', 'b']),
              'AttrVals': frozenset([('plain',), ('quote', 'ws'), ('ctl',), ('nonchar', 'markup'), ('nonascii', 'quote')]),
              'Texts': frozenset([(), ('plain', 'markup'), ('ws', 'nonascii'), ('ctl', 'quote'), ('nonchar',)]),
              'BrTexts': frozenset([(), ('plain',), ('nl',), ('markup', 'nl', 'plain'), ('nl', 'nl', 'quote'), ('plain', 'plain', 'nl'),
                                    ('plain', 'cr', 'plain'), ('cr', 'nl', 'plain'), ('plain', 'cr')])}
    r, states = ctx.tlc_dump('MC_XmlStream', 'XmlStream', consts=consts, cfg_consts={'MaxCalls': str(maxcalls), 'F7': 'FALSE'},
                             invariants=['WellFormed', 'Faithful', 'StackMatchesOutput', 'BoundOK'],
                             need_actions=['StartElement', 'Characters', 'CharsBr', 'Comment', 'EndElement', 'Exit'], timeout=1500)
    # the same model with the implementation's known deviation (F7) switched on must violate WellFormed
    rf7 = ctx.tlc_check('MC_XmlStream_F7', 'XmlStream', consts=consts, cfg_consts={'MaxCalls': '2', 'F7': 'TRUE'},
                        invariants=['WellFormed'], expect_ok=False, timeout=600)
    if rf7.ok():
        ctx.vacuity.append('XmlStream with F7=TRUE did not violate WellFormed: the invariant has no bite')
    ctx.notes['design_counterexample_F7'] = [str(s_[1].get('hist')) for s_ in rf7.trace[-1:]]
    nb = 0
    flavours = ['xml', 'xhtml', 'element']
    for st in states:
        if st['state'] != 'closed':
            continue
        nb += 1
        hist = [dict(h) for h in st['hist']]
        flavour = flavours[nb % 3]
        try:
            text, expected, mism = replay_behaviour(ctx, XmlWrite, hist, rng, flavour, background=(nb % 4 == 1))
        except Exception as e:
            ctx.fail('XmlStream raised %s: %s replaying the calls %s' % (type(e).__name__, e, json.dumps(hist)),
                     dict(hist=hist, flavour=flavour), sig=dict(kind='replay-exception'))
            continue
        uses = {c for h in hist for c in (h.get('v', ()) if h.get('hasAttr', True) else ()) + tuple(h.get('s', ()))}
        ctx.case(('beh', nb), len(hist) >= 2)
        bad = mism
        if not bad:
            text = known_f7(ctx, text, dict(hist=hist, flavour=flavour))
            try:
                parsed = xmltrace.parse_tree(text)
                bad = compare_events(expected, parsed)
            except Exception as e:
                bad = 'document does not parse: %s' % e
            if not bad:
                ok, why = xmltrace.lxml_ok(text)
                if not ok:
                    bad = 'lxml rejects the document: ' + why
        if bad:
            ctx.fail('XmlStream (%s) output for the calls %s: %s; document %r' % (flavour, json.dumps(hist)[:400], bad, text[:300]),
                     dict(hist=hist, flavour=flavour, text=text),
                     sig=dict(kind='replay', has_ctl='ctl' in uses, has_nonchar='nonchar' in uses))
        if nb == 5:
            ctx.sample(dict(kind='replayed behaviour', calls=hist, flavour=flavour, document=text))
    ctx.notes['behaviours_replayed'] = nb
    # ---- character sweep: every code point in text and attribute position ----
    if ctx.quick:
        cps = sorted(set(list(range(0, 0x300)) + [0xd7ff, 0xd800, 0xdbff, 0xdc00, 0xdfff, 0xe000, 0xfffd, 0xfffe, 0xffff,
                                                   0x10000, 0x1ffff, 0x10ffff] + [rng.randrange(0x110000) for _ in range(3000)]))
    else:
        cps = list(range(0, 0x10000)) + list(range(0x10000, 0x110000, 97)) + [0x10ffff]
    B = 128
    nsweep = 0
    for i in range(0, len(cps), B):
        batch = cps[i:i + B]
        f = io.StringIO()
        with XmlWrite.XmlStream(f) as xs:
            with XmlWrite.Element(xs, 'r'):
                for cp in batch:
                    ch = chr(cp)
                    with XmlWrite.Element(xs, 'c', {'n': '%d' % cp, 'v': 'A' + ch + 'Z'}):
                        xs.characters('a' + ch + 'z')
        text = f.getvalue()
        nsweep += len(batch)
        try:
            parsed = xmltrace.parse_tree(text)
        except Exception as e:
            fixed, nfix = xmltrace.sanitize_illegal_charrefs(text)
            # locate the offending code point(s) one by one
            for cp in batch:
                f1 = io.StringIO()
                with XmlWrite.XmlStream(f1) as xs:
                    with XmlWrite.Element(xs, 'c', {'v': 'A' + chr(cp) + 'Z'}):
                        xs.characters('a' + chr(cp) + 'z')
                t1 = known_f7(ctx, f1.getvalue(), dict(cp=cp))
                try:
                    xmltrace.parse_tree(t1)
                except Exception as e1:
                    ctx.fail('document with U+%04X in text/attribute does not parse: %s; %r' % (cp, e1, f1.getvalue()[:200]),
                             dict(cp=cp, text=f1.getvalue()),
                             sig=dict(kind='sweep', cls='ctl' if cp < 32 else ('nonchar' if not xmltrace.representable(chr(cp)) else 'legal')))
            try:
                parsed = xmltrace.parse_tree(fixed)     # judge the rest of the batch on the sanitized document
            except Exception:
                continue
        els = [p for p in parsed if p[0] == 'start' and p[1] == 'c']
        txt = {}
        cur = None
        for p in parsed:
            if p[0] == 'start' and p[1] == 'c':
                cur = int(p[2]['n'])
                txt[cur] = ''
            elif p[0] == 'chars' and cur is not None:
                txt[cur] += p[1]
            elif p[0] == 'end' and p[1] == 'c':
                cur = None
        for p in els:
            cp = int(p[2]['n'])
            ch = chr(cp)
            if xmltrace.representable(ch):
                if p[2]['v'] != 'A' + ch + 'Z' or txt.get(cp) != 'a' + ch + 'z':
                    ctx.fail('U+%04X not recovered unchanged: attribute %r text %r' % (cp, p[2]['v'], txt.get(cp)),
                             dict(cp=cp), sig=dict(kind='sweep-fidelity'))
        if len(els) != len(batch):
            ctx.fail('sweep batch lost elements (%d of %d)' % (len(els), len(batch)), dict(first=batch[0]), sig=dict(kind='sweep'))
    for cp in cps[::97]:
        ctx.case(('cp', cp), True)
    ctx.notes['code_points_swept'] = nsweep
    # ---- real writers: LAS -> HTML ----
    from TotalDepth.LAS import LASToHTML
    from TotalDepth.common import Slice
    traces, parsed_l, ok_l, meta = [], [], [], []
    nasty = ['<b>', 'a&b', '"q"', "it's", 'caf\xe9', 'x\x01y', 'tab\there', '中文', '￾y', 'a\x0bb', ']]>', '<!--', '&amp;', '\x7f', 'plain']
    wd = ctx.wdir('las')
    for t in range(ctx.pick(25, 200)):
        ncurves = rng.choice([1, 2, 5])
        nfr = rng.choice([1, 3, 12])
        def nz():
            return rng.choice(nasty)
        content = dict(vers=rng.choice(['2.0', '1.2']), wrap=False,
                       well=[('STRT', 'M', '100.0', 'start ' + nz()), ('STOP', 'M', '%.1f' % (100 + nfr - 1), 'stop'),
                             ('STEP', 'M', '1.0', nz()), ('NULL', '', '-999.25', 'null'),
                             ('WELL', '', 'W ' + nz(), 'well name ' + nz()), ('COMP', '', nz(), nz())],
                       curves=[('DEPT', 'M', '', 'depth ' + nz())] + [('C%d' % i, rng.choice(['', 'V/V', 'API']), '', nz()) for i in range(ncurves)],
                       params=[('P%d' % i, '', nz().replace(':', ''), nz().replace(':', '')) for i in range(rng.randint(0, 3))],
                       other=['free text ' + nz()] if rng.random() < 0.5 else None,
                       frames=[[100.0 + i] + [rng.choice([1.5, -2.25, 1e3, -999.25]) for _ in range(ncurves)] for i in range(nfr)])
        text = GL.render(content).replace(':', ':')
        pin = os.path.join(wd, 'in%d.las' % t)
        pout = os.path.join(wd, 'out%d.html' % t)
        with open(pin, 'w', encoding='utf-8', errors='surrogatepass') as f:
            f.write(text)
        m = dict(writer='LASToHTML.las_file_to_html', las=text[:600])
        try:
            with xmltrace.record_xml_streams() as recs:
                LASToHTML.las_file_to_html(pin, pout, 'LAS', False, False, Slice.Slice())
            doc = open(pout, encoding='utf-8', errors='surrogatepass').read()
        except Exception as e:
            ctx.fail('LASToHTML.las_file_to_html raised %s: %s on %r' % (type(e).__name__, e, text[:300]), m, sig=dict(kind='las-html-exception'))
            continue
        doc = known_f7(ctx, doc, m)
        ok, err, pev = xmltrace.parse_events(doc)
        if ok:
            ok2, why = xmltrace.lxml_ok(doc)
            if not ok2:
                ok, err = False, 'lxml: ' + why
        for r_ in recs:
            traces.append(r_.ev)
            parsed_l.append(pev)
            ok_l.append(ok)
            meta.append(dict(m, parse_error=err, calls=r_.calls))
        ctx.case(('lashtml', t), True)
        if ok:
            # the data carried: every description / string value of the LAS file that XML can represent is the text of
            # some cell of the document, unchanged
            try:
                texts = [p[1] for p in xmltrace.parse_tree(doc) if p[0] == 'chars']
            except Exception:
                texts = None
            if texts is not None:
                wanted = [w[3] for w in content['well']] + [c[3] for c in content['curves']] + [x for p_ in content['params'] for x in (p_[2], p_[3])]
                wanted.append(content['well'][4][2])
                for wv in wanted:
                    w2 = wv.strip()
                    if w2 and xmltrace.representable(w2) and not any(w2 in tx for tx in texts):
                        ctx.fail('LAS HTML: the LAS text %r does not appear in the document' % w2, dict(m, doc=doc[:4000]), sig=dict(kind='las-html-content'))
                        break
        os.remove(pin)
        os.remove(pout)
    from .. import dicttree
    with dicttree.Recorder() as dtrec:          # the index tables the writers lay out (DictTreeHtmlTable events), judged below
        real_writers_rp66_lis(ctx, rng, traces, parsed_l, ok_l, meta)
        svg_plots(ctx, rng, traces, parsed_l, ok_l, meta)
        nodoc_l = [False] * len(traces)
        repo_tests_as_traces(ctx, traces, parsed_l, ok_l, meta, nodoc_l)
    # DictTree.tla / DictTreeTable.tla: growth beyond the listed properties (the key tree behind the HTML index pages).  Recorded in
    # the evidence; a mismatch is reported on stderr and is not a verdict on C18 (a wrongly spanned table is still well-formed XML).
    dt_mismatches = []
    dt_info = dicttree.run(ctx, dt_mismatches)
    dt_info['tables_laid_out_by_the_library'] = len(dtrec.streams)
    for evs in dtrec.streams:
        bad = dicttree.tiles_exactly(evs)
        if bad:
            dt_mismatches.append('a table laid out by the library does not tile: %s; events %r' % (bad, evs[:12]))
    dt_info['mismatches'] = dt_mismatches[:10]
    dt_info['mismatch_count'] = len(dt_mismatches)
    ctx.notes['dict_tree'] = dt_info
    for m_ in dt_mismatches[:5]:
        print('EXTRA-MISMATCH (DictTree, no listed property): ' + m_[:400], file=__import__('sys').stderr)
    if traces:
        ctx.sample(dict(kind='real writer call stream', meta=meta[0], events=traces[0][:12]))
        rej = ctx.validate_traces('XmlStreamTrace', 'XmlStreamTrace', traces, payload_extra=dict(parsed=parsed_l, ok=ok_l, nodoc=nodoc_l),
                                  workers=16)
        for t, l, st in rej:
            ev = traces[t][l - 1] if l and l <= len(traces[t]) else None
            ctx.fail('document writer call stream / document rejected by XmlStreamTrace at call %s: %s (parse ok=%s %s); %s' % (
                l, json.dumps(ev), ok_l[t], meta[t].get('parse_error'), json.dumps(meta[t])[:400]),
                dict(meta=meta[t], event=ev, l=l), sig=dict(kind='writer-trace', parse_ok=ok_l[t]))
    ctx.rule = ('behaviours: every closed API-call sequence of the model (<= %d calls) replayed on XmlStream / XhtmlStream / '
                'Element alternately; non-trivial = >= 2 calls; code points: one case per swept code point (sampled in the '
                'count); writer traces: one per generated LAS file' % maxcalls)
    ctx.assumptions += ['element and attribute names are valid XML names', 'comment text free of "-"; processing instructions '
                        'and literal() (raw markup by contract) are not given arbitrary strings',
                        'strings containing characters XML 1.0 cannot represent are only required not to break the document']
    ctx.explanation = ('TLC proves WellFormed/Faithful of the token-level model; every model behaviour and every code point is '
                       'replayed on the real writer and parsed back; real writer call streams are validated by TLC')


def replay(ctx, path):
    run(ctx)
