"""C01 - DLIS logical records are reassembled exactly from any physical layout (see dlis_phys.py)."""
from . import dlis_phys

LEVEL = 'model_checking'


def run(ctx):
    dlis_phys.run(ctx, 'C01')
    ctx.explanation = ('TLC checks the lockstep writer/reader design (DlisPhysMC) against DlisAbs over rich segment menus; '
                       'TLC-exported complete layouts and seeded random layouts (vetted by the writer specification) are '
                       'rendered to bytes, read by the real FileRead, and the yields are validated by TLC (DlisPhysTrace).')


def replay(ctx, path):
    run(ctx)
