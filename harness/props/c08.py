"""C08 - LIS tables and format specifications survive encode then decode.

1. TLC: LisTable.tla - component-block encoding of a table (rows, value classes, units) and the row assembly /
   duplicate-discard machine of LrTableRead; RoundTrip: Decode(Encode(rows)) = DedupKeepFirst(rows), for streams
   produced by the writer and for raw streams that still contain duplicate rows; entry-block-set parity (EbsEven)
   and burst derivation (BurstsExact).
2. spec -> code: one implementation test per terminal state of the model: the rows are given concrete values per
   class (boundaries of the 8/16/32-bit ranges, byte strings of several lengths, code-68-exact floats, units), written
   by the real LrTableWrite (or, for raw streams with duplicates, by the harness's own component-block encoder), laid
   out in a physical LIS file (random physical layout) and read by the real LrTableRead; compared with the
   specification's `out`.
3. entry-block sets (every subset of settable blocks x legal sizes) and channel blocks -> EntryBlockSet.lisBytes()
   + independently packed datum specification blocks -> LrDFSRRead.
"""
import io
import itertools
import json
import struct

from .. import repo
from ..gen import lis as GL

LEVEL = 'model_checking'

VALUES = {
    'bytes': [b'', b'A', b'ABCD', b'HELLO', b'x' * 255, b'\x00\xff', b'ALLO', b'DISA'],
    'u8': [0, 1, 127, 128, 255],
    'i16': [-1, 256, -32768, 32767, -129],
    'i32': [32768, -32769, 2147483647, -2147483648, 65536],
    'float': [0.0, 153.0, -153.0, 0.5, -0.75, 1024.0, 2.0 ** -20, -(2.0 ** 100), 8388607.0],
}
UNITS = [b'FEET', b'M   ', b'S   ', b'.1IN']
COLS_REST = [b'STAT', b'PUNI', b'VALU']


def cb_bytes(t, rc, size, mnem, units, payload):
    return struct.pack('4B4s4s', t, rc, size, 0, mnem, units) + payload


def enc_value(cls, v):
    if cls == 'bytes':
        return 65, len(v), v
    if cls == 'u8':
        return 66, 1, bytes([v])
    if cls == 'i16':
        return 79, 2, struct.pack('>h', v)
    if cls == 'i32':
        return 73, 4, struct.pack('>i', v)
    raise ValueError(cls)


def lis_file_for(File, lr_bytes, rng):
    """wrap one logical record (plus a leading and trailing record) into a physical LIS file with a random layout"""
    pre = bytes([232, 0]) + b'leading record'
    post = bytes([232, 0]) + b'trailing'
    lrs = [pre, lr_bytes, post]
    if rng.random() < 0.4:
        # "after being written out": through the library's own writer, with physical record lengths that the record fills exactly
        # (its length a multiple of the payload), nearly fills, or fits in with room to spare
        from TotalDepth.LIS.core import PhysRec
        rn, fn, ck = rng.choice([(0, 0, 0), (1, 0, 0), (1, 1, 1)])
        tail = 2 * (rn + fn + ck)
        L = len(lr_bytes)
        k = rng.choice([1, 2, 3, 5])
        pay = rng.choice([max(1, L // k) if L % k == 0 else max(1, -(-L // k)), max(1, L // k), L + 7, 65535 - 4 - tail])
        pay = min(pay, 65535 - 4 - tail)
        buf = io.BytesIO()
        buf.close = lambda: None
        fw = File.FileWrite(buf, 'verif', hasTif=rng.random() < 0.5, thePrLen=4 + tail + pay,
                            thePrt=PhysRec.PhysRecTail(hasRecNum=bool(rn), fileNum=(7 if fn else None), hasCheckSum=bool(ck)))
        positions = [fw.write(x) for x in lrs]
        fw.close()
        f = File.FileRead(io.BytesIO(buf.getvalue()), 'verif', keepGoing=False)
        f.seekLr(positions[1])
        return f
    maxpay = rng.choice([7, 12, 40, 1000, 60000])
    tif = rng.choice(['none', 'le'])
    splits = [GL.random_split(rng, len(x), maxpay) for x in lrs]
    layout = GL.layout_from_splits(splits, rng, rng.choice([(0, 0, 0), (1, 1, 1)]))
    data, starts = GL.render(lrs, layout, tif)
    f = File.FileRead(io.BytesIO(data), 'verif', keepGoing=False)
    f.seekLr(starts[1])
    return f


def run(ctx):
    repo.setup()
    from ..core import quiet_logging
    quiet_logging()
    from TotalDepth.LIS.core import LogiRec, File, RepCode, LisGen
    rng = ctx.subrng('c08')
    classes = ['bytes', 'u8', 'i16', 'i32', 'float']
    ntests = 0
    # row names: R1, R2 are byte strings; N0, N1, N2 the integers 0, 1, 2 and F2 the number 2.5 (a first column of numbers)
    NAMES0 = {'R1': b'R1  ', 'R2': b'R2  ', 'N0': 0, 'N1': 1, 'N2': 2, 'F2': 2.5}
    byt, num = ['R1', 'R2'], ['N0', 'N1', 'N2', 'F2']
    configs = [('FALSE', 1, '2', byt), ('TRUE', 1, '3', byt), ('FALSE', 2, '2', byt), ('FALSE', 1, '2', num[:2] + num[3:]), ('TRUE', 1, '2', num[:2] + num[3:])] if ctx.quick else \
              [('FALSE', 1, '3', byt), ('TRUE', 1, '3', byt), ('FALSE', 2, '2', byt), ('TRUE', 2, '2', byt), ('FALSE', 1, '3', num + ['R1']),
               ('TRUE', 1, '3', num + ['R1'])]
    for dup, ncols, maxrows, rownames in configs:
        numeric = rownames != byt
        COLS = ([b'NUMB'] if numeric else [b'MNEM']) + COLS_REST          # numbers cannot be row names under the label MNEM
        r, states = ctx.tlc_dump('MC_LisTable_%s_%d%s' % (dup, ncols, '_num' if numeric else ''), 'LisTable',
                                 consts={'RowNames': frozenset(rownames), 'Classes': frozenset(classes if ncols == 1 and not numeric else ['bytes', 'i16', 'float'])},
                                 cfg_consts={'NCols': str(ncols), 'MaxRows': maxrows, 'DupInStream': dup},
                                 invariants=['RoundTrip', 'NoRowLost'], defs='ASSUME EbsEven /\\ BurstsExact', deadlock=True, timeout=1500,
                                 need_actions=['AddRow', 'Write', 'ReadBlock', 'Finish'])
        k = 0
        for st in states:
            if st['phase'] != 'done':
                continue
            k += 1
            # one test per terminal state, thinned so that a configuration gives at most about 25 000 tests
            if k % max(ctx.pick(4, 2), r.distinct // 25000):
                continue
            ntests += 1
            rows = st['rows']
            expect = st['out']
            tname = rng.choice([b'FILM', b'PRES', b'CONS', b'TOOL'])
            lrtype = rng.choice([32, 34, 39])
            # concrete rows: cell 0 = row name (bytes), other cells by class
            # the model's names R1, R2 stand for any two distinct byte strings: four characters, shorter, longer ones that share
            # their first four characters
            fam = rng.choice([(b'R1  ', b'R2  '), (b'R1  ', b'R2  '), (b'ZONE_1', b'ZONE_2'), (b'A', b'B'), (b'LONGNAME0001', b'LONGNAME0002'), (b'1   ', b'2   '), (b'GR10', b'GR1 ')])
            NAMES = dict(NAMES0, R1=fam[0], R2=fam[1])
            conc = []
            for rw in rows:
                cells = []
                for c in rw['cells']:
                    v = rng.choice(VALUES[c['cls']])
                    u = rng.choice(UNITS) if c['units'] else None
                    cells.append((c['cls'], v, u))
                conc.append((NAMES[rw['name']], cells))
            case = dict(rows=[(repr(n), [(c, repr(v), u and u.decode()) for c, v, u in cs]) for n, cs in conc], dup_in_stream=dup, table=tname.decode())
            ctx.case(('table', dup, k), len(rows) >= 2)
            try:
                if dup == 'FALSE':
                    mnems = COLS[:1 + ncols]
                    table = [[n] + [(v, u) if u is not None else v for (_, v, u) in cs] for n, cs in conc]
                    w = LogiRec.LrTableWrite(lrtype, tname, mnems, table)
                    lr = bytes([lrtype, 0]) + b''.join(w.genLisBytes())
                else:
                    lr = bytes([lrtype, 0]) + cb_bytes(73, 65, 4, b'TYPE', b'    ', tname)
                    for n, cs in conc:
                        if isinstance(n, bytes):
                            lr += cb_bytes(0, 65, len(n), COLS[0], b'    ', n)
                        elif isinstance(n, float):
                            lr += cb_bytes(0, 68, 4, COLS[0], b'    ', RepCode.writeBytes68(n))
                        else:
                            lr += cb_bytes(0, 66, 1, COLS[0], b'    ', bytes([n]))
                        for ci, (cls, v, u) in enumerate(cs):
                            if cls == 'float':
                                rc, size, pay = 68, 4, RepCode.writeBytes68(v)
                            else:
                                rc, size, pay = enc_value(cls, v)
                            lr += cb_bytes(69, rc, size, COLS[1 + ci], u or b'    ', pay)
                f = lis_file_for(File, lr, rng)
                t = LogiRec.LrTableRead(f)
            except Exception as e:
                ctx.fail('table write/read raised %s: %s for %s' % (type(e).__name__, e, json.dumps(case)[:500]), case, sig=dict(kind='table-exception'))
                continue
            bad = None
            if t.value != tname or t.type != lrtype:
                bad = 'table name/type %r/%r expected %r/%r' % (t.value, t.type, tname, lrtype)
            got_rows = list(t.genRows())
            # the specification's answer: the first row of each name, in order
            want = []
            for e_ in expect:
                idx = next(i for i, rw in enumerate(rows) if rw['name'] == e_['name'])
                want.append(conc[idx])
            if not bad and len(got_rows) != len(want):
                bad = '%d rows read, specification Dedup gives %d' % (len(got_rows), len(want))
            if not bad:
                for gr, (n, cs) in zip(got_rows, want):
                    if gr.value != n or type(gr.value) is not type(n):
                        bad = 'row name %r expected %r' % (gr.value, n)
                        break
                    cells = list(gr.genCells())
                    if len(cells) != 1 + len(cs):
                        bad = 'row %r has %d cells expected %d' % (n, len(cells), 1 + len(cs))
                        break
                    for ci, (cls, v, u) in enumerate(cs):
                        cell = cells[1 + ci]
                        if cell.mnem != COLS[1 + ci]:
                            bad = 'row %r column %d mnemonic %r expected %r' % (n, ci, cell.mnem, COLS[1 + ci])
                        elif cls == 'bytes' and v == b'' and cell.value in (None, b''):
                            pass        # an empty byte string may read back as None (nothing to read): both are 'empty'
                        elif cell.value != v or type(cell.value) is not type(v):
                            bad = 'row %r column %r value %r expected %r (%s)' % (n, cell.mnem, cell.value, v, cls)
                        elif cell.engVal.uom != (u or b'    '):
                            bad = 'row %r column %r units %r expected %r' % (n, cell.mnem, cell.engVal.uom, u)
                        if bad:
                            break
                    if bad:
                        break
            if not bad and list(t.colLabels()) != COLS[:1 + ncols] and want:
                bad = 'column labels %r expected %r' % (list(t.colLabels()), COLS[:1 + ncols])
            if not bad:
                for n, cs in want:
                    if isinstance(n, bytes) and (n not in t or t[n].value != n):        # (an integer key is a row position)
                        bad = 'row %r not found by name' % n
            if bad:
                ctx.fail('LIS table: %s; case %s' % (bad, json.dumps(case)[:600]), case, sig=dict(kind='table', dup=dup))
            if ntests == 9:
                ctx.sample(case)
    ctx.notes['table_tests'] = ntests
    # ---- entry block sets + channel blocks ----
    settable = {1: [(1, 66, 0), (1, 66, 1)], 2: [(1, 66, 0)], 3: [(1, 66, 40), (2, 79, 1000)], 4: [(1, 66, 1), (1, 66, 255), (1, 66, 0)],
                5: [(1, 66, 255), (1, 66, 0)], 6: [(4, 68, 12.5), (1, 66, 3)], 7: [(4, 65, b'FEET'), (0, 65, None)], 8: [(4, 68, 0.5), (4, 68, 60.0), (1, 66, 6)],
                9: [(4, 65, b'FEET'), (4, 65, b'.1IN'), (4, 65, b'MS  '), (0, 65, None)], 11: [(1, 66, 16), (2, 79, 300)], 12: [(4, 68, -999.25), (4, 68, 0.0), (0, 68, None)],          # (size 0: the block is there and explicitly blank)
                13: [(1, 66, 1), (1, 66, 0)], 14: [(4, 65, b'FEET'), (4, 65, b'M   '), (0, 65, None)], 15: [(1, 66, 68), (1, 66, 73)], 16: [(1, 66, 0), (1, 66, 1)]}
    types = sorted(settable)
    subsets = []
    if ctx.quick:
        for _ in range(600):
            subsets.append([t for t in types if rng.random() < 0.4])
    else:
        for bits in range(1 << len(types)):
            subsets.append([t for i, t in enumerate(types) if bits >> i & 1])
    nd = 0
    for sub in subsets:
        nd += 1
        ebs = LogiRec.EntryBlockSet()
        chosen = {}
        for t in sub:
            size, rc, val = rng.choice(settable[t])
            ebs.setEntryBlock(LogiRec.EntryBlock(t, size, rc, val))
            chosen[t] = (size, rc, val)
        by = ebs.lisBytes()
        nch = rng.choice([1, 2, 5])
        chans = []
        dsb = b''
        for c in range(nch):
            rc = rng.choice([68, 73, 79, 66, 56, 49, 50, 70])
            rcsize = {68: 4, 73: 4, 79: 2, 66: 1, 56: 1, 49: 2, 50: 4, 70: 4}[rc]
            samples = rng.choice([1, 1, 2, 4])
            bursts = rng.choice([1, 1, 3])
            size = rcsize * samples * bursts
            mnem = ('CH%02d' % c).encode()
            units = rng.choice(UNITS)
            api = rng.choice([45310011, 0, 99999999 % 100000000, 7350200])
            dsb += struct.pack('>4s6s8s4sI2h3x2B5x', mnem, b'SERVID', b'SERVORD1', units, api, 1, size, samples, rc)
            chans.append(dict(mnem=mnem, units=units, size=size, samples=samples, rc=rc, bursts=bursts, api=api))
        lr = bytes([64, 0]) + bytes(by) + dsb
        case = dict(set_blocks={t: (s, r, repr(v)) for t, (s, r, v) in chosen.items()}, channels=[dict(c, mnem=c['mnem'].decode(), units=c['units'].decode()) for c in chans])
        ctx.case(('dfsr', nd), len(sub) > 0)
        bad = None
        if len(by) % 2:
            bad = 'entry block set has odd length %d' % len(by)
        try:
            f = lis_file_for(File, lr, rng)
            d = LogiRec.LrDFSRRead(f)
        except Exception as e:
            ctx.fail('DFSR write/read raised %s: %s for %s' % (type(e).__name__, e, json.dumps(case)[:400]), case, sig=dict(kind='dfsr-exception'))
            continue
        if not bad:
            default = LogiRec.EntryBlockSet()
            for t in range(1, 17):
                if t == 10:
                    continue
                want = chosen.get(t, (default[t].size, default[t].repCode, default[t].value))
                got = d.ebs[t]
                wv = want[2]
                if (got.size, got.repCode) != (want[0], want[1]) or got.value != wv:
                    bad = 'entry block %d read back as %r, written %r' % (t, tuple(got), want)
                    break
        if not bad and len(d.dsbBlocks) != nch:
            bad = '%d channel blocks read, %d written' % (len(d.dsbBlocks), nch)
        if not bad:
            for b_, c in zip(d.dsbBlocks, chans):
                api = (c['api'] // 1000000, (c['api'] % 1000000) // 1000, (c['api'] % 1000) // 10, c['api'] % 10)
                got = (b_.mnem, b_.units, b_.size, b_.samples(0), b_.repCode, b_.bursts(0), b_.subChannels,
                       (b_.apiLogType, b_.apiCurveType, b_.apiCurveClass, b_.apiModifier))
                want = (c['mnem'], c['units'], c['size'], c['samples'], c['rc'], c['bursts'], 1, api)
                if got != want:
                    bad = 'channel block read back as %r, written %r' % (got, want)
                    break
            if not bad and d.frameSize() != sum(c['size'] for c in chans):
                bad = 'frame size %d expected %d' % (d.frameSize(), sum(c['size'] for c in chans))
        # second route: the library's own composer of a format specification from an entry block set and channel blocks,
        # LisGen.LogPassGen (ChannelSpec.dsbBytes packs the block) - composed TWICE from the same channel list, as a caller
        # writing two log passes with the same channels does; both decode to the channels given (after the X channel the
        # composer adds when the X axis is recorded in the frame).
        spacing = chosen.get(8, (0, 0, None))[2]
        lg_direct = chosen.get(13, (1, 66, 0))[2] == 0
        # (the composer needs a numeric frame spacing and, to name the X channel it adds, frame spacing units)
        if not bad and spacing is not None and (not lg_direct or chosen.get(9, (0, 65, None))[2] is not None):
            try:
                chl = [LisGen.Channel(LisGen.ChannelSpec(c['mnem'], b'SERVID', b'SERVORD1', c['units'], c['api'], 1, c['size'], c['samples'], c['rc']), None) for c in chans]
                if rng.random() < 0.3:
                    chl = tuple(chl)
                xrc = rng.choice([68, 73])
                direct = chosen.get(13, (1, 66, 0))[2] == 0
                xname = b'TIME' if chosen.get(5, (1, 66, 1))[2] == 0 else b'DEPT'
                xunits = chosen.get(9, (0, 65, None))[2]
                for rep in range(2):
                    lpg = LisGen.LogPassGen(ebs, chl, 1000.0, xrc, None)
                    d2 = LogiRec.LrDFSRRead(lis_file_for(File, bytes(lpg.lrBytesDFSR()), rng))
                    got2 = [(b_.mnem, b_.units, b_.size, b_.samples(0), b_.repCode) for b_ in d2.dsbBlocks]
                    want2 = ([(xname, xunits, 4, 1, xrc)] if direct else []) + [(c['mnem'], c['units'], c['size'], c['samples'], c['rc']) for c in chans]
                    if got2 != want2:
                        bad = 'composition %d by LisGen.LogPassGen from the same channel list decodes to channels %r, composed from %r' % (rep + 1, got2, want2)
                        break
                    if len(chl) != nch:
                        bad = 'LisGen.LogPassGen changed the channel list it was given: %d channels, was %d' % (len(chl), nch)
                        break
                    if [tuple(d2.ebs[t]) for t in range(1, 17) if t != 10] != [tuple(d.ebs[t]) for t in range(1, 17) if t != 10]:
                        bad = 'LisGen.LogPassGen: entry blocks differ from those of EntryBlockSet.lisBytes()'
                        break
            except Exception as e:
                bad = 'LisGen.LogPassGen route raised %s: %s' % (type(e).__name__, e)
        if bad:
            ctx.fail('LIS DFSR: %s; case %s' % (bad, json.dumps(case)[:600]), case, sig=dict(kind='dfsr'))
        if nd == 5:
            ctx.sample(case)
    ctx.notes['dfsr_tests'] = nd
    ctx.rule = ('tables: one test per terminal state of LisTable.tla (quick: every fourth), concrete values drawn per class; '
                'DFSR: one per entry-block subset (quick: 600 random subsets, thorough: all 2^15); non-trivial: >= 2 rows / >= 1 block set')
    ctx.assumptions += ['float cells use values exactly representable in code 68', 'byte cells up to 255 bytes (one size byte)',
                        'rows written through LrTableWrite have one cell per column']
    ctx.explanation = 'TLC model of the component-block stream and row assembly; every terminal state becomes one round-trip test'


def replay(ctx, path):
    run(ctx)
