"""C15 - Frame slice and sample selectors select what they say.

1. TLC: design machines (SliceSel.tla) refine the abstract operators (SliceSelAbs.tla) for every
   selector/length in the bound; the option-parser decision list refines ParseAbs.
2. spec -> code: TLC evaluates the abstract operators on the whole bounded domain (SliceSelTable.tla) and the
   harness replays EVERY row on TotalDepth.common.Slice (exhaustive inside the bound).
3. code -> spec: long random call sequences on real selector objects (lengths up to 5000) are recorded and
   validated by TLC against SliceSelTrace.tla.
"""
import json
import os

from .. import repo

LEVEL = 'model_checking'


def _opt(x):
    return x[0] if x else None


def _render_part(p, rng, single):
    cls = p['cls']
    if cls == 'int':
        k = p['k']
        forms = [str(k), ' %d' % k, '%d ' % k, '  %d  ' % k]
        if k >= 0:
            forms += ['+%d' % k, '0%d' % k if k > 0 else '00']
        else:
            forms += ['-0%d' % -k]
        return forms
    if cls == 'empty':
        return ['', ' ', '   ']
    if cls == 'none':
        return ['None', ' None', 'None  ']
    return ['x', '1.5', '--1', 'none', '1 2', '0x10', 'NONE', '1e3', '-', '+', 'None1', ';', 'N', 'No', 'Non', 'one', 'on', 'ne', 'e', 'o', 'n', 'Nonee', ' N ']


def in_situ(ctx, traces):
    """Selector objects as the library and the repository's own tests use them: every Slice / Sample created while the real
    LAS converters run on generated files and while tests/unit/common/test_Slice.py runs is recorded call by call."""
    import contextlib
    import os
    import warnings
    from .. import slicetrace
    from . import c11
    from TotalDepth.common import Slice as S
    from TotalDepth.RP66V1 import ToLAS as RT
    from TotalDepth.BIT import ToLAS as BT
    rng = ctx.subrng('c15-insitu')
    wd = ctx.wdir('insitu')
    n0 = len(traces)
    with contextlib.ExitStack() as quiet:
        devnull = quiet.enter_context(open(os.devnull, 'w'))
        quiet.enter_context(contextlib.redirect_stdout(devnull))
        quiet.enter_context(contextlib.redirect_stderr(devnull))
        quiet.enter_context(warnings.catch_warnings())
        warnings.simplefilter('ignore')
        with slicetrace.record_selectors() as recs:
            for t in range(ctx.pick(10, 80)):
                for fmt, build, conv in (('dlis', c11.build_dlis, RT.single_rp66v1_file_to_las), ('bit', c11.build_bit, BT.single_bit_path_to_las_path)):
                    data = build(rng)[0]
                    pin = os.path.join(wd, 'f%d.%s' % (t, fmt))
                    with open(pin, 'wb') as f:
                        f.write(data)
                    sel = S.Sample(rng.choice([1, 2, 3, 7])) if rng.random() < 0.5 else S.Slice(rng.choice([None, 0, 1, -3]), rng.choice([None, 4, -1]), rng.choice([None, 1, 2, 3]))
                    conv(pin, 'first', os.path.join(wd, 'o%d' % t, 'f.las'), sel, set(), 16, '.3f')
                    os.remove(pin)
            nlib = len(recs)
            import pytest
            root = repo.REPO if os.path.isdir(os.path.join(repo.REPO, 'tests')) else '/repo'
            tfile = os.path.join(root, 'tests/unit/common/test_Slice.py')
            if os.path.exists(tfile):
                rc = pytest.main(['-q', '-p', 'no:cacheprovider', '--no-header', '-W', 'ignore', '--rootdir', root, tfile])
                ctx.notes['repo_test_Slice_exit_code'] = int(rc)
    judged = 0
    for i, r in enumerate(recs):
        if r.judged and len(r.ev) > 1:
            judged += 1
            traces.append(r.ev)
            ctx.case(('insitu', i), True)
    ctx.notes['insitu_selector_objects'] = dict(recorded=len(recs), judged=judged, from_library=nlib)
    if judged == 0:
        ctx.vacuity.append('no selector object of the library or the repository tests was recorded')


def apalache_inductive(ctx):
    """Unbounded part: Apalache discharges the inductive invariant of the error-diffusion sampler (SampleInd.tla) for ALL
    N < n: Init => IndInv, IndInv /\\ Next => IndInv', IndInv => Safety (exactly N indices, all inside the sequence), plus a
    satisfiability check of the invariant (the proof is not vacuous).  TLC only covers N, n <= MaxN."""
    import shutil
    import subprocess
    from ..core import ROOT, Machinery
    exe = shutil.which('apalache-mc')
    if not exe:
        ctx.notes['apalache_inductive'] = 'apalache-mc not found: skipped'
        return
    out = ctx.wdir('apalache')
    spec = os.path.join(ROOT, 'spec', 'SampleInd.tla')
    obligations = [('init', ['--init=Init', '--inv=IndInv', '--length=0'], 'OK'), ('step', ['--init=IndInit', '--inv=IndInv', '--length=1'], 'OK'),
                   ('safety', ['--init=IndInit', '--inv=Safety', '--length=0'], 'OK'), ('not_vacuous', ['--init=IndInit', '--inv=NotVacuous', '--length=0'], 'ERROR')]
    res = {}
    for name, args, want in obligations:
        try:
            p = subprocess.run([exe, 'check'] + args + ['--out-dir=' + out, spec], stdout=subprocess.PIPE, stderr=subprocess.STDOUT, text=True, timeout=600, cwd=out)
        except subprocess.TimeoutExpired:
            ctx.vacuity.append('Apalache obligation %s timed out: the unbounded argument was not completed in this run' % name)
            res[name] = 'timeout'
            continue
        got = 'OK' if 'EXITCODE: OK' in p.stdout else ('ERROR' if 'EXITCODE: ERROR (12)' in p.stdout else 'FAILED')
        res[name] = got
        if got != want:
            raise Machinery('Apalache obligation %s of SampleInd.tla: expected %s, got %s\n%s' % (name, want, got, p.stdout[-1500:]))
    ctx.notes['apalache_inductive'] = res
    ctx.tlc_runs.append(dict(name='Apalache SampleInd', module='SampleInd', kind='inductive_invariant', obligations=res))
    shutil.rmtree(out, ignore_errors=True)


def lockstep(obj, n1, n2):
    """consume gen_indices(n1) and gen_indices(n2) of ONE selector alternately; returns [(list1, None), (list2, None)]"""
    g = [obj.gen_indices(n1), obj.gen_indices(n2)]
    out = [[], []]
    live = [True, True]
    while any(live):
        for k in (0, 1):
            if live[k]:
                try:
                    out[k].append(next(g[k]))
                except StopIteration:
                    live[k] = False
    return [(out[0], None), (out[1], None)]


def interrupted(obj, n):
    """walk gen_indices(n) half way, ask indices(n) in the middle, finish the walk"""
    g = obj.gen_indices(n)
    half = []
    for _ in range(max(1, n // 3)):
        try:
            half.append(next(g))
        except StopIteration:
            break
    mid = obj.indices(n)
    return half, mid, list(g)


class _GuardedObject:
    """a real selector object whose calls cannot take the harness down: an exception from a query is reported as a failing case of the
    property (a selector answers every query for every length) and a neutral answer is handed on, so the run goes on to its verdict"""
    NEUTRAL = {'indices': list, 'count': lambda: -1, 'first': lambda: -1, 'step': lambda: 0, 'long_str': str}

    def __init__(self, obj, ctx, desc):
        self.__dict__.update(_o=obj, _ctx=ctx, _desc=desc)

    def _report(self, name, a, e):
        seen = self._ctx.notes.setdefault('selector_exceptions', [])
        if len(seen) < 5:
            seen.append('%s.%s%r: %s: %s' % (self._desc, name, a, type(e).__name__, e))
            self._ctx.fail('%s.%s%r raised %s: %s' % (self._desc, name, a, type(e).__name__, e), dict(kind='selector-raises', selector=self._desc, call=name, args=list(a)),
                           sig=dict(kind='selector-raises'))

    def __getattr__(self, name):
        attr = getattr(self._o, name)
        if not callable(attr):
            return attr

        def call(*a):
            if name == 'gen_indices':
                def gen():
                    try:
                        yield from attr(*a)
                    except Exception as e:
                        self._report(name, a, e)
                return gen()
            try:
                return attr(*a)
            except Exception as e:
                self._report(name, a, e)
                return self.NEUTRAL.get(name, lambda: None)()
        return call


class _Guarded:
    def __init__(self, S, ctx):
        self._S, self._ctx = S, ctx

    def Sample(self, *a):
        return _GuardedObject(self._S.Sample(*a), self._ctx, 'Sample%r' % (a,))

    def Slice(self, *a):
        return _GuardedObject(self._S.Slice(*a), self._ctx, 'Slice%r' % (a,))


def run(ctx):
    repo.setup()
    from TotalDepth.common import Slice as S
    SG = _Guarded(S, ctx)

    M = ctx.pick(8, 12)
    cc = {'MaxN': str(M), 'NoneV': 'NoneV'}
    # 1. design refines abstract
    r = ctx.tlc_check('MC_SliceSel', 'SliceSel', cfg_consts=cc,
                      invariants=['TypeOK', 'SliceRefines', 'SampleRefines', 'DiffusionInv', 'SlicePrefix',
                                  'SliceInRange'],
                      need_actions=['SliceStep', 'SampleAll', 'SampleDiffuse'],
                      defs='ASSUME ParseRefines')
    # 2. oracle table
    d = ctx.wdir('table')
    fs, fp = os.path.join(d, 'slices.json'), os.path.join(d, 'parse.json')
    ctx.tlc_check('MC_SliceSelTable', 'SliceSelTable', cfg_consts=cc, env={'OUT_SLICES': fs, 'OUT_PARSE': fp},
                  workers=1, coverage=False)
    rows = json.load(open(fs))
    prows = json.load(open(fp))
    ctx.rule = ('slice rows: every (start, stop in -M..M or absent, step in -M..M except 0, or absent, n in 0..M); non-trivial = '
                'selects >= 1 index with at least one bound negative/absent/over-range or step > 1; '
                'sample cases distinct by (N, n), non-trivial when 1 < N < n; parse rows distinct by part-class tuple')
    for row in rows:
        a, b, c, n, idx = _opt(row['a']), _opt(row['b']), _opt(row['c']), row['n'], row['idx']
        s = SG.Slice(a, b, c)
        got_idx = s.indices(n)
        got_gen = list(s.gen_indices(n))
        got_cnt = s.count(n)
        got_first = s.first(n)
        nontriv = len(idx) > 0 and (a is None or b is None or a < 0 or b < 0 or b > n or (c or 1) != 1)
        ctx.case(('slice', a, b, c, n), nontriv)
        bad = None
        if got_idx != idx:
            bad = 'indices(%d) = %r, spec PySlice = %r' % (n, got_idx, idx)
        elif got_gen != idx:
            bad = 'gen_indices(%d) = %r, spec PySlice = %r' % (n, got_gen, idx)
        elif got_cnt != len(idx):
            bad = 'count(%d) = %r, spec = %d' % (n, got_cnt, len(idx))
        elif idx and got_first != idx[0]:
            bad = 'first(%d) = %r, spec = %d' % (n, got_first, idx[0])
        if bad:
            ctx.fail('Slice(%r,%r,%r): %s' % (a, b, c, bad), dict(kind='slice', a=a, b=b, c=c, n=n, expected=idx),
                     sig=dict(kind='slice'))
    ctx.sample(dict(kind='slice_row', row=rows[len(rows) // 3]))
    # option strings: every rendering of every part-class sequence
    rng = ctx.subrng('parse')
    nstr = 0
    for row in prows:
        parts, res = row['parts'], row['res']
        single = len(parts) == 1
        forms = [_render_part(p, rng, single) for p in parts]
        # all renderings for short lists, a seeded sample for longer ones
        import itertools
        combos = list(itertools.product(*forms))
        if len(combos) > 40:
            combos = rng.sample(combos, 40)
        for combo in combos:
            text = ','.join(combo)
            if single and parts[0]['cls'] == 'empty' and text == '':
                pass
            nstr += 1
            try:
                got = S.create_slice_or_sample(text)
                gk = ('sample', got._sample_size) if isinstance(got, S.Sample) else \
                    ('slice', got._slice.start, got._slice.stop, got._slice.step)
            except Exception as e:      # rejection
                gk = ('reject',)
            if res['kind'] == 'reject':
                want = ('reject',)
            elif res['kind'] == 'sample':
                want = ('sample', res['N'])
            else:
                want = ('slice', _opt(res['a']), _opt(res['b']), _opt(res['c']))
            ctx.case(('parse', tuple(p['cls'] + str(p.get('k', '')) for p in parts)), True)
            if gk != want:
                ctx.fail('create_slice_or_sample(%r) -> %r, spec ParseAbs -> %r' % (text, gk, want),
                         dict(kind='parse', text=text, parts=parts, expected=res), sig=dict(kind='parse'))
    ctx.sample(dict(kind='parse_row', row=prows[len(prows) // 2]))
    ctx.notes['option_strings_tried'] = nstr
    ctx.exhaustive = True
    # also exhaustive samples inside the bound, against SampleAbs via trace validation (any valid spread accepted)
    traces = []
    for N in range(1, 2 * M + 1):
        tr = [dict(op='new_sample', N=N)]
        sm = SG.Sample(N)
        for n in range(0, 2 * M + 1):
            tr.append(dict(op='indices', n=n, r=sm.indices(n)))
            tr.append(dict(op='gen_indices', n=n, r=list(sm.gen_indices(n))))
            tr.append(dict(op='count', n=n, r=sm.count(n)))
            tr.append(dict(op='first', n=n, r=sm.first(n)))
            ctx.case(('sample', N, n), 1 < N < n)
        for n in range(0, 2 * M + 1, 3):
            for k, (a_, _b) in enumerate(lockstep(sm, n, n + 5)):
                tr.append(dict(op='gen_indices', n=(n, n + 5)[k], r=a_))
            half, mid, rest = interrupted(sm, n)
            tr.append(dict(op='indices', n=n, r=mid))
            tr.append(dict(op='gen_indices', n=n, r=half + rest))
        traces.append(tr)
    # 3. long random histories on real objects
    rng = ctx.subrng('traces')
    ntr = ctx.pick(150, 1500)
    big = ctx.pick(1500, 5000)
    for t in range(ntr):
        if rng.random() < 0.5:
            N = rng.choice([1, 2, 3, rng.randint(1, 64), rng.randint(1, big)])
            obj = SG.Sample(N)
            tr = [dict(op='new_sample', N=N)]
            lens = [rng.choice([0, 1, N - 1, N, N + 1, 2 * N - 1, 2 * N + 1, rng.randint(0, big)]) for _ in range(6)]
            lens = [max(0, x) for x in lens]
        else:
            span = rng.choice([5, 50, big])
            a, b = [rng.choice([None, rng.randint(-span, span)]) for _ in range(2)]
            c = rng.choice([None, 1, 2, 3, rng.randint(1, span), -1, -2, -rng.randint(1, span)])
            obj = SG.Slice(a, b, c)
            tr = [dict(op='new_slice', a=[] if a is None else [a], b=[] if b is None else [b],
                       c=[] if c is None else [c])]
            lens = [rng.choice([0, 1, span - 1, span, span + 1, rng.randint(0, big)]) for _ in range(6)]
        # two generators of the same object alive at once (walking two arrays in lockstep), and a call in the middle of a walk
        n1, n2 = rng.choice(lens), rng.choice(lens)
        for k, (a_, b_) in enumerate(lockstep(obj, n1, n2)):
            tr.append(dict(op='gen_indices', n=(n1, n2)[k], r=a_))
        half, mid, rest = interrupted(obj, n1)
        tr.append(dict(op='indices', n=n1, r=mid))
        tr.append(dict(op='gen_indices', n=n1, r=half + rest))
        # every length is asked about twice (the same selector is applied to frame arrays of the same length again and again),
        # and the caller uses up the list it was given: what a call returns belongs to the caller
        # other selector objects are in use at the same time (one per frame array of a file); what they select does not depend on it
        others = [SG.Sample(5), SG.Slice(1, None, 2), SG.Slice(None, None, -3)]
        alone = [(o_.indices(37), o_.count(37), o_.first(37)) for o_ in others]
        for n in lens + lens[:2]:
            for op in rng.sample(['indices', 'gen_indices', 'count', 'first'], 4):
                o_ = others[len(tr) % 3]
                now_ = (list(o_.gen_indices(37)), o_.count(37), o_.first(37))
                if now_ != alone[len(tr) % 3]:
                    ctx.fail('a selector used alternately with another one selects %r of 37, alone %r' % (now_, alone[len(tr) % 3]),
                             dict(kind='two-objects', first=traces and tr[0]), sig=dict(kind='two-objects'))
                    alone[len(tr) % 3] = now_
                if op == 'indices':
                    given = obj.indices(n)
                    r = list(given)
                    if isinstance(given, list):
                        rng.choice([given.clear, given.reverse, lambda g_=given: g_.append(-7), lambda g_=given: g_ and g_.pop()])()
                elif op == 'gen_indices':
                    r = list(obj.gen_indices(n))
                elif op == 'count':
                    r = obj.count(n)
                else:
                    r = obj.first(n)
                tr.append(dict(op=op, n=n, r=r))
            ctx.case(('hist', t, n), n > 1)
        traces.append(tr)
    # a sweep over every sample size up to 64 and every length up to 2000: wherever the ways of asking one object disagree (the list,
    # the generator, the count), that (N, n) becomes a trace for TLC to judge - the sweep only selects, it gives no verdict
    nsel = 0
    for N in range(1, 65):
        obj = SG.Sample(N)
        for n in range(0, 2001):
            li = obj.indices(n)
            if nsel < 40 and (li != list(obj.gen_indices(n)) or len(li) != obj.count(n) or (li and li[0] != obj.first(n))):
                nsel += 1
                o2 = SG.Sample(N)
                traces.append([dict(op='new_sample', N=N), dict(op='indices', n=n, r=o2.indices(n)), dict(op='gen_indices', n=n, r=list(o2.gen_indices(n))),
                               dict(op='count', n=n, r=o2.count(n)), dict(op='first', n=n, r=o2.first(n))])
    ctx.notes['sample_sweep_selected'] = nsel
    ctx.sample(dict(kind='trace', events=traces[-1][:4]))
    in_situ(ctx, traces)
    apalache_inductive(ctx)
    rej = ctx.validate_traces('SliceSelTrace', 'SliceSelTrace', traces, cfg_consts=cc, label='selectors',
                              workers=16)
    for t, l, st in rej:
        ev = traces[t][l - 1] if l and l <= len(traces[t]) else None
        ctx.fail('selector trace %d rejected at event %s: %s on %s' % (t, l, json.dumps(ev)[:300], json.dumps(traces[t][0])),
                 dict(kind='trace', selector=traces[t][0], event=ev, l=l), sig=dict(kind='trace'))
    ctx.assumptions += ['step is any non-zero integer or absent (step 0 is not a slice: Python refuses it)',
                        'a rejected option string is one for which create_slice_or_sample raises']
    ctx.explanation = ('TLC checks the stepping machines against the abstract operators for all selectors with '
                       'MaxN=%d; the abstract operators are then evaluated by TLC on the same domain and every row '
                       'is replayed on the code; larger lengths are covered by TLC-validated traces.' % M)


def replay(ctx, path):
    run(ctx)
