"""C07 - Representation codes decode per the standards; encoders invert decoders.

1. TLC: RepCodes.tla - every fixed-length code as an exact dyadic reference decoder, the variable-length codes as
   consumption operators, and the normalising code-68 encoder with its laws (re-encoding a decoded value gives an
   equivalent word; precision better than one part in 2^22) checked on a lattice (ASSUMEs of RepCodesTable).
2. TLC writes oracle tables: every (sign, exponent) class x boundary fractions of the 32-bit codes, every 8-bit
   word, every (thorough) / every 17th + boundaries (quick) 16-bit word, UVARI prefixes, consumption lengths.
3. The harness compares every implementation (Python, Cython, C++, and the RepCode front ends, RP66V1 code_read
   and *_len helpers) with the tables exactly, checks the three code-68 implementations agree bit for bit on sampled
   words and doubles, and checks the encoder laws on the real to68 against the specification's Dec68.
The 2^32 sweep itself is enumeration in the harness (sampled); the specification supplies the reference value.
"""
import json
import math
import os
import struct

from .. import repo

LEVEL = 'model_checking'


def dy(d):
    return math.ldexp(d['m'], d['e'])


def word32(row):
    return (row['hi'] << 16) | row['lo']


def dec68_ref(w):
    """RepCodes.tla Dec68 transcribed for the sampled sweep (the table rows above are TLC's own evaluation)"""
    hi, lo = w >> 16, w & 0xFFFF
    E = (hi >> 7) & 0xFF
    f = ((hi & 0x7F) << 16) | lo
    return math.ldexp(f, E - 151) if hi < 0x8000 else math.ldexp(f - (1 << 23), 104 - E)


def run(ctx):
    repo.setup()
    from ..core import quiet_logging
    quiet_logging()
    from TotalDepth.LIS.core import RepCode as L, pRepCode as P, cRepCode as C, cpRepCode as CP
    from TotalDepth.RP66V1.core import RepCode as R, File as RF
    rng = ctx.subrng('c07')
    d = ctx.wdir('tables')
    files = {k: os.path.join(d, k + '.json') for k in ('OUT_32', 'OUT_16', 'OUT_8', 'OUT_UV', 'OUT_VAR', 'OUT_VS')}
    varseqs = set()
    for _ in range(60):
        ident = bytes(rng.randrange(32, 127) for _ in range(rng.choice([0, 1, 3, 10, 127, 128, 255])))
        origin = rng.choice([b'\x00', b'\x7f', b'\x81\x00', b'\xc0\x00\x40\x00'])
        typ = bytes(rng.randrange(65, 91) for _ in range(rng.choice([0, 1, 5, 127, 128, 200, 255])))
        seq = bytes([len(typ)]) + typ + origin + bytes([rng.randrange(256)]) + bytes([len(ident)]) + ident + bytes(rng.randrange(256) for _ in range(6))
        varseqs.add(tuple(seq))
    ctx.tlc_check('MC_RepCodesTable', 'RepCodesTable', consts={'VarSeqs': frozenset(varseqs)},
                  cfg_consts={'Step16': ctx.pick('17', '1')}, env=files, workers=1, coverage=False, timeout=1500)
    t32 = json.load(open(files['OUT_32']))
    t16 = json.load(open(files['OUT_16']))
    t8 = json.load(open(files['OUT_8']))
    tuv = json.load(open(files['OUT_UV']))
    tvar = json.load(open(files['OUT_VAR']))
    ctx.notes['table_rows'] = dict(w32=len(t32), w16=len(t16), w8=len(t8), uvari=len(tuv), var=len(tvar))

    def bad(kind, msg, case):
        ctx.fail(msg, case, sig=dict(kind=kind))

    lis_impl = {49: [('RepCode', L.from49), ('pRepCode', P.from49), ('cRepCode', C.from49)],
                50: [('RepCode', L.from50), ('pRepCode', P.from50), ('cRepCode', C.from50)],
                56: [('RepCode', L.from56), ('pRepCode', P.from56), ('cRepCode', C.from56)],
                66: [('RepCode', L.from66), ('pRepCode', P.from66), ('cRepCode', C.from66)],
                68: [('RepCode', L.from68), ('pRepCode', P.from68), ('cRepCode', C.from68), ('cpRepCode', CP.from68)],
                70: [('RepCode', L.from70), ('pRepCode', P.from70), ('cRepCode', C.from70)],
                73: [('RepCode', L.from73), ('pRepCode', P.from73), ('cRepCode', C.from73)],
                77: [('RepCode', L.from77), ('pRepCode', P.from77), ('cRepCode', C.from77)],
                79: [('RepCode', L.from79), ('pRepCode', P.from79), ('cRepCode', C.from79)]}
    rp_fixed = {2: 4, 5: 4, 12: 1, 13: 2, 14: 4, 15: 1, 16: 2}
    fmt = {1: '>B', 2: '>H', 4: '>I'}

    def check_row(code, word, nbytes, want, cls=None):
        by = struct.pack(fmt[nbytes], word)
        if code in lis_impl:
            # fromNN takes the word as the module's own struct for that code unpacks it (readNN does exactly this)
            uw = getattr(P, 'STRUCT_RC_%d' % code).unpack(by)[0]
            for name, fn in lis_impl[code]:
                try:
                    got = fn(uw)
                except Exception as e:
                    bad('lis-decode', 'LIS %s.from%d(0x%x) raised %s' % (name, code, word, e), dict(code=code, word=word))
                    continue
                if got != want:
                    bad('lis-decode', 'LIS %s.from%d(0x%0*x) = %r, standard value %r' % (name, code, 2 * nbytes, word, got, want),
                        dict(code=code, word=word, impl=name))
            try:
                got = L.readBytes(code, by)
                if got != want:
                    bad('lis-decode', 'LIS RepCode.readBytes(%d, %s) = %r, standard value %r' % (code, by.hex(), got, want), dict(code=code, word=word))
            except Exception as e:
                bad('lis-decode', 'LIS RepCode.readBytes(%d, %s) raised %s' % (code, by.hex(), e), dict(code=code, word=word))
        else:
            ld = RF.LogicalData(by + b'\xaa\xbb')
            try:
                got = R.code_read(code, ld)
            except Exception as e:
                bad('rp-decode', 'RP66V1 code_read(%d, %s) raised %s' % (code, by.hex(), e), dict(code=code, word=word))
                return
            try:          # the named decoder (RepCode.FSINGL, ...) is the same function reached another way
                ld2 = RF.LogicalData(by)
                got_named = getattr(R, R.REP_CODE_INT_TO_STR[code])(ld2)
                if not (got_named == got or (got_named != got_named and got != got)) or ld2.index != rp_fixed[code]:
                    bad('rp-decode', 'RP66V1 %s(%s) = %r consuming %d, code_read(%d) = %r' % (R.REP_CODE_INT_TO_STR[code], by.hex(), got_named, ld2.index, code, got),
                        dict(code=code, word=word))
            except Exception as e:
                bad('rp-decode', 'RP66V1 %s(%s) raised %s' % (R.REP_CODE_INT_TO_STR.get(code), by.hex(), e), dict(code=code, word=word))
            try:          # ... and in the middle of a record, after other fields (a value is its own bytes wherever it stands)
                pre = (b'\x00', b'\xff\x7f', b'\x80', b'\x01\x02\x03')[word % 4]
                ld3 = RF.LogicalData(pre + by + b'\x55')
                ld3.chunk(len(pre))
                got_mid = R.code_read(code, ld3)
                if not (got_mid == got or (got_mid != got_mid and got != got)) or ld3.index != len(pre) + rp_fixed[code]:
                    bad('rp-decode', 'RP66V1 code_read(%d) of %s after %d other bytes = %r consuming %d, at the start of a record %r' % (
                        code, by.hex(), len(pre), got_mid, ld3.index - len(pre), got), dict(code=code, word=word, prefix=pre.hex()))
            except Exception as e:
                bad('rp-decode', 'RP66V1 code_read(%d) of %s after other bytes raised %s' % (code, by.hex(), e), dict(code=code, word=word))
            if ld.index != rp_fixed[code]:
                bad('rp-consume', 'RP66V1 code %d consumed %d bytes, standard %d' % (code, ld.index, rp_fixed[code]), dict(code=code))
            if cls in ('inf', 'nan'):
                ok = (math.isinf(got) if cls == 'inf' else math.isnan(got))
            else:
                ok = got == want
            if not ok:
                bad('rp-decode', 'RP66V1 code_read(%d, %s) = %r, standard value %r' % (code, by.hex(), got, want), dict(code=code, word=word))
            if R.rep_code_fixed_length(code) != rp_fixed[code]:
                bad('rp-consume', 'rep_code_fixed_length(%d) = %d' % (code, R.rep_code_fixed_length(code)), dict(code=code))

    for row in t32:
        ctx.case(('w32', row['code'], row['hi'], row['lo']), row['d']['m'] != 0)
        check_row(row['code'], word32(row), 4, dy(row['d']), row.get('cls'))
    for row in t16:
        ctx.case(('w16', row['code'], row['w']), row['d']['m'] != 0)
        check_row(row['code'], row['w'], 2, dy(row['d']))
    for row in t8:
        ctx.case(('w8', row['code'], row['w']), True)
        check_row(row['code'], row['w'], 1, dy(row['d']))
    ctx.sample(dict(kind='oracle row', row=t32[len(t32) // 3]))
    # the same LIS words through the FILE path (RepCode.readRepCode on a LIS file positioned inside a logical record): every word
    # of a code back to back in one record, so a wrong value or a wrong number of bytes consumed shifts everything after it;
    # and code 65 (text of a given length, 0 included)
    from TotalDepth.LIS.core import File as LF
    from . import c08
    by_code = {}
    for row in t32:
        if row['code'] in lis_impl:
            by_code.setdefault(row['code'], []).append((struct.pack('>I', word32(row)), dy(row['d'])))
    for row in t16:
        if row['code'] in lis_impl:
            by_code.setdefault(row['code'], []).append((struct.pack('>H', row['w']), dy(row['d'])))
    for row in t8:
        if row['code'] in lis_impl:
            by_code.setdefault(row['code'], []).append((struct.pack('>B', row['w']), dy(row['d'])))
    for code, words in sorted(by_code.items()):
        words = words[:4000]
        ctx.case(('lis-file-path', code), True)
        try:
            f = c08.lis_file_for(LF, bytes([0, 0]) + b''.join(w for w, _ in words) + b'\x55\xaa', rng)
            f.readLrBytes(2)
            for k, (w, want) in enumerate(words):
                got = L.readRepCode(code, f)
                if got != want:
                    bad('lis-decode', 'LIS RepCode.readRepCode(%d, file) word %d (%s) = %r, standard value %r' % (code, k, w.hex(), got, want), dict(code=code, word=w.hex()))
                    break
            else:
                if f.readLrBytes(2) != b'\x55\xaa':
                    bad('lis-consume', 'LIS RepCode.readRepCode(%d, file) did not consume exactly %d bytes per word' % (code, len(words[0][0])), dict(code=code))
        except Exception as e:
            bad('lis-decode', 'LIS RepCode.readRepCode(%d, file) raised %s: %s' % (code, type(e).__name__, e), dict(code=code))
    texts = [b'', b'A', b'ABCD', b'', b'x' * 255, b'', b'\x00\xff', b'tail']
    ctx.case(('lis-file-path', 65), True)
    try:
        f = c08.lis_file_for(LF, bytes([0, 0]) + b''.join(texts) + b'\x55\xaa', rng)
        f.readLrBytes(2)
        for k, t in enumerate(texts):
            got = L.readRepCode(65, f, len(t))
            if got != t:
                bad('lis-decode', 'LIS RepCode.readRepCode(65, file, %d) text %d = %r, written %r' % (len(t), k, got, t), dict(code=65, length=len(t)))
                break
            if L.readBytes(65, t + b'zz', len(t)) != t:
                bad('lis-decode', 'LIS RepCode.readBytes(65, ..., %d) = %r, written %r' % (len(t), L.readBytes(65, t + b'zz', len(t)), t), dict(code=65, length=len(t)))
        else:
            if f.readLrBytes(2) != b'\x55\xaa':
                bad('lis-consume', 'LIS RepCode.readRepCode(65, file, n) did not consume exactly n bytes', dict(code=65))
    except Exception as e:
        bad('lis-decode', 'LIS RepCode.readRepCode(65, file, n) raised %s: %s' % (type(e).__name__, e), dict(code=65))
    # VSINGL: the value formula has two readings in the offline sources (RepCodes!DecVsingl); the implementation must follow one
    # of them on EVERY pattern - that fixes zero, sign, the exponent law and every fraction bit
    tvs = json.load(open(files['OUT_VS']))
    ctx.notes['table_rows']['vsingl'] = len(tvs)
    readings = {'VAX F-floating (1/2 + F/2^24)': 'd24', 'RP66V2 11.3.23 test vectors (1/2 + F/2^23)': 'd23'}
    alive = dict(readings)
    for row in sorted(tvs, key=lambda r_: r_['b']):
        by = bytes(row['b'])
        ctx.case(('vsingl', by.hex()), row['d24']['m'] != 0)
        ld = RF.LogicalData(by + b'\xaa\xbb')
        try:
            got = R.code_read(6, ld)
            got2 = R.VSINGL(RF.LogicalData(by))
        except Exception as e:
            bad('rp-decode', 'RP66V1 VSINGL(%s) raised %s: %s' % (by.hex(), type(e).__name__, e), dict(code=6, bytes=by.hex()))
            continue
        if ld.index != 4 or R.rep_code_fixed_length(6) != 4:
            bad('rp-consume', 'RP66V1 code 6 consumed %d bytes (fixed length helper %d), standard 4' % (ld.index, R.rep_code_fixed_length(6)), dict(code=6))
        if got != got2:
            bad('rp-decode', 'RP66V1 code_read(6, %s) = %r but VSINGL() = %r' % (by.hex(), got, got2), dict(code=6, bytes=by.hex()))
        fits = {name: key for name, key in alive.items() if got == dy(row[key])}
        if not fits:
            bad('rp-decode', 'RP66V1 VSINGL(%s) = %r; the standard value is %r (VAX F-floating) or %r (reading of the RP66V2 test vectors)%s' % (
                by.hex(), got, dy(row['d24']), dy(row['d23']),
                '' if len(alive) == 2 else '; every earlier pattern followed the reading "%s"' % list(alive)[0]), dict(code=6, bytes=by.hex()))
        else:
            alive = fits
    ctx.notes['vsingl_reading_followed'] = sorted(alive)
    # UVARI and the length helpers
    for row in tuv:
        by = bytes(row['bytes'])
        ld = RF.LogicalData(by + b'\x00')
        v = R.UVARI(ld)
        if v != row['v'] or ld.index != row['n'] or R.UVARI_len(by, 0) != row['n']:
            bad('uvari', 'UVARI(%s) = %r consuming %d (len helper %d); standard %d consuming %d' % (by.hex(), v, ld.index, R.UVARI_len(by, 0), row['v'], row['n']),
                dict(bytes=by.hex()))
        ctx.case(('uvari', by.hex()), True)
    for row in tvar:
        by = bytes(row['bytes'])
        for code, name, want in ((19, 'IDENT', row['ident']), (27, 'UNITS', row['ident']), (20, 'ASCII', row['ascii']), (24, 'OBJREF', row['objref'])):
            if want > len(by):
                continue
            ld = RF.LogicalData(by)
            try:
                R.code_read(code, ld)
            except Exception as e:
                bad('var', 'code_read(%s, %s) raised %s' % (name, by.hex(), e), dict(bytes=by.hex(), code=code))
                continue
            if ld.index != want:
                bad('var', '%s consumed %d bytes of %s, standard %d' % (name, ld.index, by.hex(), want), dict(bytes=by.hex(), code=code))
        if R.IDENT_len(by, 0) != row['ident']:
            bad('var', 'IDENT_len(%s) = %d, standard %d' % (by.hex(), R.IDENT_len(by, 0), row['ident']), dict(bytes=by.hex()))
        # OBNAME sits after the type identifier of the OBJREF
        t = 1 + by[0]
        on = row['objref'] - t
        ld = RF.LogicalData(by[t:])
        R.OBNAME(ld)
        if ld.index != on or R.OBNAME_len(by, t) != on:
            bad('var', 'OBNAME consumed %d (len helper %d), standard %d in %s' % (ld.index, R.OBNAME_len(by, t), on, by.hex()), dict(bytes=by.hex()))
        ctx.case(('var', by.hex()), True)
    # IDENT / UNITS (one length byte, 0..255 characters) and ASCII (UVARI length): the VALUE and the consumption, for lengths on both
    # sides of 128 (where a UVARI grows a second byte) and of 16384
    for n_ in (0, 1, 2, 126, 127, 128, 129, 191, 192, 200, 255):
        txt = bytes(65 + (k * 7 + n_) % 26 for k in range(n_))
        for code, name in ((19, 'IDENT'), (27, 'UNITS')):
            ld = RF.LogicalData(bytes([n_]) + txt + b'\x55\xaa')
            ctx.case(('text', name, n_), True)
            try:
                got = R.code_read(code, ld)
                gotb = bytes(got) if isinstance(got, (bytes, bytearray)) else str(got).encode('latin-1')
                if gotb != txt or ld.index != 1 + n_:
                    bad('var', '%s of %d characters decodes to %d characters %r... consuming %d bytes, standard %d' % (name, n_, len(gotb), gotb[:12], ld.index, 1 + n_),
                        dict(code=code, length=n_))
            except Exception as e:
                bad('var', '%s of %d characters raised %s: %s' % (name, n_, type(e).__name__, e), dict(code=code, length=n_))
        if R.IDENT_len(bytes([n_]) + txt + b'zz', 0) != 1 + n_:
            bad('var', 'IDENT_len of %d characters = %d' % (n_, R.IDENT_len(bytes([n_]) + txt + b'zz', 0)), dict(length=n_))
    # contents, not only lengths: every character the standard allows in the string type, blanks alone, digits alone
    special = {19: [b'A.B-C_D', b'~!@#$%^&*', b'0123', b'0', b'-'], 27: [b' ', b'    ', b'0.1 in', b'm/s2', b'(kg.m)/s', b'1000 ft3/d', b'-', b'0', b' m ', b'm '],
               20: [b' ', b'\n\t ', b'  two  ', bytes(range(1, 128)), b'0', b'\x00']}
    for code, name in ((19, 'IDENT'), (27, 'UNITS'), (20, 'ASCII')):
        for txt in special[code]:
            ld = RF.LogicalData(bytes([len(txt)]) + txt + b'\x55\xaa')
            ctx.case(('text-content', name, txt.hex()), True)
            try:
                got = R.code_read(code, ld)
                gotb = bytes(got) if isinstance(got, (bytes, bytearray)) else str(got).encode('latin-1')
                if gotb != txt or ld.index != 1 + len(txt):
                    bad('var', '%s %r decodes to %r consuming %d bytes, standard: the characters as stored, %d bytes' % (name, txt, gotb, ld.index, 1 + len(txt)),
                        dict(code=code, text=txt.hex()))
            except Exception as e:
                bad('var', '%s %r raised %s: %s' % (name, txt, type(e).__name__, e), dict(code=code, text=txt.hex()))
    for n_ in (0, 1, 127, 128, 300, 16383, 16384, 20000):
        txt = bytes(97 + (k * 5 + n_) % 26 for k in range(n_))
        pre = bytes([n_]) if n_ < 128 else (struct.pack('>H', 0x8000 | n_) if n_ < 16384 else struct.pack('>I', 0xC0000000 | n_))
        ld = RF.LogicalData(pre + txt + b'\x55\xaa')
        ctx.case(('text', 'ASCII', n_), True)
        try:
            got = R.code_read(20, ld)
            gotb = bytes(got) if isinstance(got, (bytes, bytearray)) else str(got).encode('latin-1')
            if gotb != txt or ld.index != len(pre) + n_:
                bad('var', 'ASCII of %d characters decodes to %d characters consuming %d bytes, standard %d' % (n_, len(gotb), ld.index, len(pre) + n_), dict(code=20, length=n_))
        except Exception as e:
            bad('var', 'ASCII of %d characters raised %s: %s' % (n_, type(e).__name__, e), dict(code=20, length=n_))
    # DTIME: 8 bytes, fields as written
    for _ in range(200):
        y, tz, mo, dd, hh, mi, ss, ms = rng.randrange(256), rng.randrange(3), rng.randint(1, 12), rng.randint(1, 28), rng.randrange(24), rng.randrange(60), rng.randrange(60), rng.randrange(1000)
        by = bytes([y, (tz << 4) | mo, dd, hh, mi, ss]) + struct.pack('>H', ms)
        ld = RF.LogicalData(by + b'\x00')
        dt = R.DTIME(ld)
        if (dt.year, dt.tz, dt.month, dt.day, dt.hour, dt.minute, dt.second, dt.millisecond) != (1900 + y, tz, mo, dd, hh, mi, ss, ms) or ld.index != 8:
            bad('dtime', 'DTIME(%s) = %s' % (by.hex(), dt), dict(bytes=by.hex()))
    # code 68: the three implementations bit for bit, against the specification decoder, sampled over all classes
    # the known boundary case is always exercised
    w0 = 0x80000000
    if dec68_ref(P.to68(dec68_ref(w0))) != dec68_ref(w0):
        ctx.fail('from68(to68(-2^127)) = %r' % dec68_ref(P.to68(dec68_ref(w0))), dict(word=w0), sig=dict(kind='to68-minus-2^127'))
    n68 = ctx.pick(1000000, 20000000)
    exps = list(range(256))
    for i in range(n68):
        if i % 3 == 0:
            w = rng.getrandbits(32)
        else:
            w = (rng.getrandbits(1) << 31) | (rng.choice(exps) << 23) | rng.choice([0, 1, 0x400000, 0x7FFFFF, rng.getrandbits(23)])
        ref = dec68_ref(w)
        a, b, c = P.from68(w), C.from68(w), CP.from68(w)
        if not (a == b == c == ref):
            bad('from68-agree', 'from68(0x%08x): Python %r, Cython %r, C++ %r, specification %r' % (w, a, b, c, ref), dict(word=w))
            break
        if i % 5 == 0 and ref != 0.0:
            # re-encoding a decoded value gives an equivalent word
            ws = (P.to68(ref), C.to68(ref), CP.to68(ref))
            if not (ws[0] == ws[1] == ws[2]):
                bad('to68-agree', 'to68(%r): Python 0x%08x, Cython 0x%08x, C++ 0x%08x' % (ref, ws[0], ws[1], ws[2]), dict(value=ref))
                break
            if dec68_ref(ws[0]) != ref and ref == -2.0 ** 127:
                ctx.fail('from68(to68(-2^127)) = %r (word 0x%08x -> 0x%08x)' % (dec68_ref(ws[0]), w, ws[0]), dict(word=w),
                         sig=dict(kind='to68-minus-2^127'))
            elif dec68_ref(ws[0]) != ref:
                bad('to68-reencode', 'from68(to68(%r)) = %r (word 0x%08x -> 0x%08x)' % (ref, dec68_ref(ws[0]), w, ws[0]), dict(word=w))
                break
    ctx.evaluations += n68
    ctx.nontrivial_count += n68 // 2
    # encoding any in-range finite double loses less than one part in 2^22; the three agree bit for bit
    for i in range(ctx.pick(400000, 6000000)):
        e = rng.randint(-126, 126)
        x = math.ldexp(rng.choice([0.5, 0.75, 1 - 2 ** -30, 0.5 + 2 ** -40, rng.uniform(0.5, 1)]), e) * rng.choice([1, -1])
        ws = (P.to68(x), C.to68(x), CP.to68(x))
        if not (ws[0] == ws[1] == ws[2]):
            bad('to68-agree', 'to68(%r): Python 0x%08x, Cython 0x%08x, C++ 0x%08x' % (x, ws[0], ws[1], ws[2]), dict(value=x))
            break
        r = dec68_ref(ws[0])
        if not abs(r - x) * 2 ** 22 < abs(x):
            bad('to68-precision', 'to68(%r) = 0x%08x decodes to %r: error %.3g exceeds one part in 2^22' % (x, ws[0], r, abs(r - x) / abs(x)), dict(value=x))
            break
        if L.to68(x) != ws[0] or L.writeBytes68(x) != struct.pack('>I', ws[0]):
            bad('to68-agree', 'RepCode.to68/writeBytes68(%r) differ from the implementations' % x, dict(value=x))
            break
    # outside the representable range (the denormal band below 2^-129, values beyond +-2^127) only the bit-for-bit agreement
    # of the three encoders is required
    for i in range(ctx.pick(60000, 600000)):
        e = rng.choice([rng.randint(-160, -126), rng.randint(-160, -126), rng.randint(126, 135), rng.randint(-1080, 1023)])
        x = math.ldexp(rng.choice([0.5, 0.75, 1 - 2 ** -30, 0.5 + 2 ** -40, 0.5 + 2 ** -23, 0.5 + 2 ** -24, rng.uniform(0.5, 1)]), e) * rng.choice([1, -1])
        try:
            ws = (P.to68(x), C.to68(x), CP.to68(x))
        except Exception as ex:
            bad('to68-agree', 'to68(%r) raised %s: %s' % (x, type(ex).__name__, ex), dict(value=x))
            break
        if not (ws[0] == ws[1] == ws[2]):
            bad('to68-agree', 'to68(%r) (outside the normal range): Python 0x%08x, Cython 0x%08x, C++ 0x%08x' % (x, ws[0], ws[1], ws[2]), dict(value=x))
            break
    ctx.rule = ('one case per oracle-table row (32-bit class points, 16-bit and 8-bit words, UVARI prefixes, consumption sequences) '
                'plus sampled code-68 words and doubles; non-trivial = non-zero value')
    ctx.assumptions += ['LIS code 50 is judged for exponent fields 0..1023 only and RP66V1 VSINGL values are judged against the two readings the offline sources support, consistently (the sources '
                        'available offline disagree, see DESIGN.md)', 'FDOUBL relies on struct (not specified in TLA+)',
                        'the 2^32 sweep of the 32-bit codes is sampled, not exhaustive']
    ctx.explanation = ('reference decoders and encoder laws are TLA+ operators evaluated / checked by TLC; the implementations are '
                       'compared with TLC-written tables exactly and with each other bit for bit on samples')


def replay(ctx, path):
    run(ctx)
