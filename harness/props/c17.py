"""C17 - Unit conversion is consistent: invertible, transitive, dimension-checked.

1. TLC: Units.tla - the affine conversion through the base unit in exact rationals: identity, invertibility,
   transitivity, the gate (a number iff both units known and of one dimension), agreement of the two design
   variants of the code with the formula, and the four-step in-place array conversion (also chained) equal to the
   element-wise scalar conversion.
2. The floating-point tables are outside TLC (32-bit integers, 2035 entries): the harness instantiates every case
   class on the REAL tables - every ordered pair of every OSDD dimension and LIS category, sampled/all triples,
   cross-dimension and unknown-unit pairs - and compares each result with the specification's Conv evaluated in
   exact rational arithmetic on the table's constants, within the first-order forward error bound of the operations
   the property names.
"""
import itertools
import math
from fractions import Fraction

import numpy as np

from .. import repo

LEVEL = 'exploration'
U = Fraction(1, 2 ** 53)
K = 8          # operations in one conversion, with slack


def conv_exact(v, a, b):
    """Units.tla Conv on exact rationals; a, b = (scale, offset) as Fractions"""
    return ((v - a[1]) * a[0]) / b[0] + b[1]


def bound1(v, a, b):
    t = abs((v - a[1]) * a[0] / b[0])
    return K * U * (t + abs(b[1]) + abs(v) + abs(a[1]) * abs(a[0] / b[0])) + Fraction(1, 10 ** 300)


def run(ctx):
    repo.setup()
    from ..core import quiet_logging
    quiet_logging()
    from TotalDepth.common import units as OU
    from TotalDepth.LIS.core import Units as LU
    rng = ctx.subrng('c17')
    ctx.tlc_check('MC_Units', 'Units', invariants=['InPlaceIsElementwise', 'StaysInDimension'],
                  defs='ASSUME DesignsAgree /\\ Identity /\\ Invertible /\\ Transitive /\\ Gate', constraint='Bounded',
                  need_actions=['Start', 'StepSub', 'StepMul', 'StepDiv', 'StepAdd', 'StepRatio'], timeout=600)
    table = OU.read_osdd_static_data()
    by_dim = {}
    for code, u in table.items():
        by_dim.setdefault(u.dimension, []).append(u)
    fr = {u.code: (Fraction(u.scale), Fraction(u.offset)) for u in table.values()}
    ctx.notes['osdd_units'] = len(table)
    ctx.notes['osdd_dimensions'] = len(by_dim)
    values = [0.0, 1.0, -1.0, math.pi, 1e-12, -1e12, 273.15, 1e12]
    npairs = ntriples = ngate = 0
    classes = {}

    def klass(a, b):
        if a.code == b.code:
            return 'same-unit'
        return {(False, False): 'no-offsets', (True, False): 'from-offset', (False, True): 'to-offset', (True, True): 'both-offsets'}[
            (a.has_offset(), b.has_offset())]

    def report(kind, msg, case):
        ctx.fail(msg, case, sig=dict(kind=kind))

    for dim, us in sorted(by_dim.items()):
        us = [u for u in us if u.scale != 0 and math.isfinite(u.scale) and math.isfinite(u.offset)]
        pairs = list(itertools.product(us, us))
        if ctx.quick and len(pairs) > 400:
            pairs = rng.sample(pairs, 400) + [(u, u) for u in us[:20]]
        for a, b in pairs:
            npairs += 1
            fa, fb = fr[a.code], fr[b.code]
            kl = klass(a, b)
            classes[kl] = classes.get(kl, 0) + 1
            vs = values if not ctx.quick else rng.sample(values, 3) + [a.offset + 1.0]
            arr = np.array(vs, dtype=np.float64)
            try:
                scal = [OU.convert(v, a, b) for v in vs]
                fn = OU.convert_function(a, b)
                fnv = [fn(v) for v in vs]
                # the arrays handed over are what callers have: a contiguous array, one channel column of a frame matrix, every second
                # frame, a reversed view - element i is vs[i] in each; memory next to a view must stay as it was
                lay = npairs % 4
                n_ = len(vs)
                if lay == 0:
                    base = arr.copy()
                    view = base
                elif lay == 1:
                    base = np.full((n_, 3), 7.25)
                    base[:, 1] = arr
                    view = base[:, 1]
                elif lay == 2:
                    base = np.full(2 * n_, 7.25)
                    base[::2] = arr
                    view = base[::2]
                else:
                    base = arr[::-1].copy()
                    view = base[::-1]
                arr_copy = OU.convert_array(view.copy() if lay == 0 else view, a, b)
                if lay and not np.array_equal(view, arr):
                    report('value', 'convert_array changed the array it was given (%s -> %s, layout %d)' % (a.code, b.code, lay), dict(a=a.code, b=b.code, fn='convert_array'))
                arr_in = view
                OU.convert_array_inplace(arr_in, a, b)
                if (lay == 1 and not (np.all(base[:, 0] == 7.25) and np.all(base[:, 2] == 7.25))) or (lay == 2 and not np.all(base[1::2] == 7.25)):
                    report('value', 'convert_array_inplace on a view (%s -> %s, layout %d) changed memory outside the view' % (a.code, b.code, lay),
                           dict(a=a.code, b=b.code, fn='convert_array_inplace'))
            except Exception as e:
                report('same-dimension-raises', 'conversion %s -> %s (dimension %s) raised %s: %s' % (a.code, b.code, dim, type(e).__name__, e),
                       dict(a=a.code, b=b.code))
                continue
            # long arrays (a 20 001-frame channel, a 6000 x 5 frame matrix): every element converts as it does in a short array
            if npairs % 23 == 0:
                try:
                    big = np.resize(arr, 20001)
                    short = np.asarray(OU.convert_array(arr.copy(), a, b), dtype=float)
                    for nm_, gb in (('convert_array', np.asarray(OU.convert_array(big.copy(), a, b), dtype=float)),
                                    ('convert_array on a 6667 x 3 matrix', np.asarray(OU.convert_array(big.copy().reshape(6667, 3), a, b), dtype=float).reshape(-1))):
                        want_b = np.resize(short, 20001)
                        neq = np.nonzero(~((gb == want_b) | (np.isnan(gb) & np.isnan(want_b))))[0]
                        if len(neq):
                            report('value', '%s of 20001 values %s -> %s: element %d = %r, the same value in a short array converts to %r' % (
                                nm_, a.code, b.code, int(neq[0]), float(gb[neq[0]]), float(want_b[neq[0]])), dict(a=a.code, b=b.code, fn='convert_array', size=20001))
                    bi = big.copy()
                    OU.convert_array_inplace(bi, a, b)
                    si = arr.copy()
                    OU.convert_array_inplace(si, a, b)
                    wi = np.resize(si, 20001)
                    neq = np.nonzero(~((bi == wi) | (np.isnan(bi) & np.isnan(wi))))[0]
                    if len(neq):
                        report('value', 'convert_array_inplace of 20001 values %s -> %s: element %d = %r, in a short array %r' % (
                            a.code, b.code, int(neq[0]), float(bi[neq[0]]), float(wi[neq[0]])), dict(a=a.code, b=b.code, fn='convert_array_inplace', size=20001))
                except Exception as e:
                    report('same-dimension-raises', 'conversion of a long array %s -> %s raised %s: %s' % (a.code, b.code, type(e).__name__, e), dict(a=a.code, b=b.code))
            # integer arrays (an int32 milliseconds channel, int16 whole degrees) convert to the same numbers as their elements do
            if npairs % 5 == 0:
                ints = [0, 1, 250, 1500, -40, 32767]
                for dt in (np.int32, np.int16, np.uint16):
                    ia = np.array([x for x in ints if np.iinfo(dt).min <= x <= np.iinfo(dt).max], dtype=dt)
                    try:
                        got_a = OU.convert_array(ia.copy(), a, b)
                        for x, y in zip(ia.tolist(), np.asarray(got_a).tolist()):
                            ev_ = conv_exact(Fraction(x), fa, fb)
                            if math.isfinite(y) and abs(Fraction(y) - ev_) > bound1(Fraction(x), fa, fb):
                                report('value', 'convert_array(%s array [%r], %s, %s) gives %r but Conv = %.17g' % (dt.__name__, x, a.code, b.code, y, float(ev_)),
                                       dict(a=a.code, b=b.code, v=x, fn='convert_array', dtype=dt.__name__))
                                break
                    except Exception as e:
                        report('same-dimension-raises', 'convert_array of a %s array %s -> %s raised %s: %s' % (dt.__name__, a.code, b.code, type(e).__name__, e),
                               dict(a=a.code, b=b.code))
            for i, v in enumerate(vs):
                ev = conv_exact(Fraction(v), fa, fb)
                tol = bound1(Fraction(v), fa, fb)
                for name, got in (('convert', scal[i]), ('convert_function', fnv[i]), ('convert_array', float(arr_copy[i])),
                                  ('convert_array_inplace', float(arr_in[i]))):
                    if not math.isfinite(got):
                        if abs(ev) < Fraction(10) ** 300:
                            report('value', '%s(%r, %s, %s) = %r, Conv = %s' % (name, v, a.code, b.code, got, float(ev)), dict(a=a.code, b=b.code, v=v))
                        continue
                    if abs(Fraction(got) - ev) > tol:
                        report('value', '%s(%r, %s, %s) = %r but Conv = %.17g (class %s, allowed error %.3g)' % (
                            name, v, a.code, b.code, got, float(ev), kl, float(tol)), dict(a=a.code, b=b.code, v=v, fn=name))
                # identity / round trip on the implementation itself
                if a.code == b.code and abs(Fraction(scal[i]) - Fraction(v)) > tol:
                    report('identity', 'convert(%r, %s, %s) = %r' % (v, a.code, b.code, scal[i]), dict(a=a.code, v=v))
                if math.isfinite(scal[i]):
                    try:
                        back = OU.convert(scal[i], b, a)
                        tol_rt = tol * abs(fb[0] / fa[0]) + bound1(Fraction(scal[i]), fb, fa)
                        if math.isfinite(back) and abs(Fraction(back) - Fraction(v)) > tol_rt:
                            report('roundtrip', 'convert(convert(%r, %s, %s), %s, %s) = %r (allowed error %.3g)' % (
                                v, a.code, b.code, b.code, a.code, back, float(tol_rt)), dict(a=a.code, b=b.code, v=v))
                    except Exception as e:
                        report('roundtrip', 'round trip raised %s' % e, dict(a=a.code, b=b.code, v=v))
            ctx.case(('pair', a.code, b.code), a.code != b.code)
        # transitivity on triples
        trip = list(itertools.product(us, us, us))
        cap = ctx.pick(60, 4000)
        if len(trip) > cap:
            trip = rng.sample(trip, cap)
        for a, c, b in trip:
            ntriples += 1
            v = rng.choice(values)
            fa, fc, fb = fr[a.code], fr[c.code], fr[b.code]
            try:
                via = OU.convert(OU.convert(v, a, c), c, b)
                direct = OU.convert(v, a, b)
            except Exception as e:
                report('transitive', 'triple %s -> %s -> %s raised %s' % (a.code, c.code, b.code, e), dict(a=a.code, c=c.code, b=b.code))
                continue
            if not (math.isfinite(via) and math.isfinite(direct)):
                continue
            tol = bound1(Fraction(v), fa, fc) * abs(fc[0] / fb[0]) + bound1(conv_exact(Fraction(v), fa, fc), fc, fb) + bound1(Fraction(v), fa, fb)
            if abs(Fraction(via) - Fraction(direct)) > tol:
                report('transitive', 'convert via %s: %r, direct %s -> %s: %r for v = %r (allowed %.3g)' % (
                    c.code, via, a.code, b.code, direct, v, float(tol)), dict(a=a.code, c=c.code, b=b.code, v=v))
    # the gate: different dimensions are refused by all four entry points
    alls = list(table.values())
    for _ in range(ctx.pick(3000, 60000)):
        a, b = rng.choice(alls), rng.choice(alls)
        if a.dimension == b.dimension:
            continue
        ngate += 1
        arr = np.array([1.0, 2.0])
        for name, call in (('convert', lambda: OU.convert(1.0, a, b)), ('convert_function', lambda: OU.convert_function(a, b)),
                           ('convert_array', lambda: OU.convert_array(arr.copy(), a, b)),
                           ('convert_array_inplace', lambda: OU.convert_array_inplace(arr.copy(), a, b))):
            try:
                r = call()
                report('gate', '%s from %s (%s) to %s (%s) returned %r instead of refusing' % (name, a.code, a.dimension, b.code, b.dimension, r),
                       dict(a=a.code, b=b.code, fn=name))
            except OU.ExceptionUnits:
                pass
            except Exception as e:
                report('gate', '%s from %s to %s raised %s, not the documented units error' % (name, a.code, b.code, type(e).__name__),
                       dict(a=a.code, b=b.code, fn=name))
        ctx.case(('gate', a.code, b.code), True)
    # ---- LIS table ----
    nlis = 0
    for cat in LU.unitCategories():
        us = LU.units(cat)
        conv = {u: LU.retUnitConvert(u) for u in us}
        frl = {u: (Fraction(conv[u].mult), Fraction(conv[u].offs) if conv[u].offs is not None else Fraction(0)) for u in us}
        for a, b in itertools.product(us, us):
            if frl[b][0] == 0 or frl[a][0] == 0:
                continue
            nlis += 1
            for v in (values if not ctx.quick else values[:4]):
                try:
                    got = LU.convert(v, a, b)
                except Exception as e:
                    report('lis', 'LIS convert(%r, %r, %r) raised %s: %s' % (v, a, b, type(e).__name__, e), dict(a=repr(a), b=repr(b)))
                    break
                ev = conv_exact(Fraction(v), frl[a], frl[b])
                if math.isfinite(got) and abs(Fraction(got) - ev) > bound1(Fraction(v), frl[a], frl[b]):
                    report('lis', 'LIS convert(%r, %r, %r) = %r, Conv = %.17g' % (v, a, b, got, float(ev)), dict(a=repr(a), b=repr(b), v=v))
            ctx.case(('lis', a, b), a != b)
    cats = LU.unitCategories()
    allu = [(c, u) for c in cats for u in LU.units(c)]
    for _ in range(ctx.pick(1500, 20000)):
        (c1, a), (c2, b) = rng.choice(allu), rng.choice(allu)
        cases = []
        if c1 != c2:
            cases.append((a, b))
        unk = rng.choice([b'ZZ9Q', b'QQQQ', b'    ', b'', b'feet', a[:2] + b'zz', a.lower() if a.lower() != a else b'Zq'])
        unk2 = rng.choice([b'ZZ9Q', b'XXXX', b'W   '])
        known = {u for _c, u in allu}
        if unk in known or unk2 in known:
            continue
        cases.append((a, unk))
        cases.append((unk, b))
        cases.append((unk, unk))            # an unknown unit converted to itself is still an unknown unit
        cases.append((unk, unk2))
        for x, y in cases:
            try:
                r = LU.convert(1.5, x, y)
                report('lis-gate', 'LIS convert(1.5, %r, %r) returned %r instead of refusing' % (x, y, r), dict(a=repr(x), b=repr(y)))
            except LU.ExceptionUnits:
                pass
            except Exception as e:
                report('lis-gate', 'LIS convert(1.5, %r, %r) raised %s, not a units error' % (x, y, type(e).__name__), dict(a=repr(x), b=repr(y)))
    ctx.notes.update(pairs=npairs, triples=ntriples, gate_pairs=ngate, lis_pairs=nlis, case_classes=classes)
    try:
        shown = OU.convert(0.0, table['DEGC'], table['DEGF'])
    except Exception as e:          # already reported above as a violation of the pair
        shown = 'raised %s' % type(e).__name__
    ctx.sample(dict(kind='pair', a='DEGC', b='DEGF', v=0.0, convert=shown,
                    spec=float(conv_exact(Fraction(0), fr['DEGC'], fr['DEGF']))))
    ctx.exhaustive = False
    ctx.rule = ('one case per ordered unit pair of one dimension/category (quick: <= 400 sampled pairs per OSDD dimension), per '
                'cross-dimension pair and per LIS pair; non-trivial = two different units; each pair is evaluated on several '
                'values through convert, convert_function, convert_array and convert_array_inplace')
    ctx.assumptions += ['units with a zero or non-finite scale are skipped', 'the units error is any exception derived from the '
                        "module's ExceptionUnits (the LIS tests pin ExceptionUnitsNoUnitInCategory for mismatched categories)",
                        'error bound: 8u(|t| + |offset_to| + |v| + |offset_from * scale_from/scale_to|), u = 2^-53, propagated '
                        'through the inverse / second conversion for round trips and triples']
    ctx.explanation = ('The laws and the case analysis are model checked by TLC on a rational lattice (Units.tla); the floating-point '
                       'tables are covered by enumeration in the harness against the same formula in exact rationals - TLC cannot '
                       'represent the 2035-entry float table (32-bit integers).')


def replay(ctx, path):
    run(ctx)
