"""XGrid.tla bound to util/plot/XGrid.py (growth beyond the listed properties; run from C19 because the depth grid is part of
every log plot).

1. TLC: the recursive merge of interval streams (XGrid._genEventsRec) equals the abstract grid (every multiple of any
   interval once, coarsest stroke wins) for nested and non-nested interval maps, both directions, every start in the bound.
2. spec -> code: XGridTable rows replayed on the real merge (XGrid._genEvents) event for event.
3. code -> spec: the real interval maps of the XGrid class (FEET / M at every defined scale) are given to TLC as Maps; the public
   genXAxisRange() over real ranges must yield exactly the abstract lines inside the range, each at (x - start) / scale.
Mismatches are returned (no verdict on a listed property).
"""
import itertools
import json
import os

from .tlc import raw


def _maps_tla(maps):
    return raw('{%s}' % ', '.join('{%s}' % ', '.join(str(i) for i in sorted(m)) for m in maps))


def run(ctx, mismatches):
    from TotalDepth.util.plot import XGrid
    from TotalDepth.LIS.core import EngVal, Units
    info = {}
    N = 12
    menu = [(1, 5, 10), (2, 10, 50), (1,), (2, 5), (2, 3), (4, 6), (2, 3, 5), (1, 2, 4, 8)]
    consts = dict(Maps=_maps_tla(menu), Starts=raw('-7..7'))
    ctx.tlc_check('MC_XGrid', 'XGrid', consts=consts, cfg_consts=dict(N=str(N)), defs='ASSUME AllRefine /\\ AllMonotone', coverage=False, timeout=900)
    ft = os.path.join(ctx.wdir('xgrid'), 'rows.json')
    ctx.tlc_check('MC_XGridTable', 'XGridTable', consts=consts, cfg_consts=dict(N=str(N)), env={'OUT_TABLE': ft}, workers=1, coverage=False, timeout=900)
    rows = json.load(open(ft))
    xg = XGrid.XGrid(200)
    for row in rows:
        emap = {i: i for i in row['m']}
        try:
            got = [[v, s] for v, s in itertools.islice(xg._genEvents(row['first'], row['inc'], emap), N)]
        except Exception as e:
            mismatches.append('XGrid._genEvents(%r, %r, %r) raised %s: %s' % (row['first'], row['inc'], row['m'], type(e).__name__, e))
            continue
        want = [[e['x'], e['s']] for e in row['ev']]
        if got != want:
            mismatches.append('XGrid._genEvents(%r, %r, %r): %r, abstract grid %r' % (row['first'], row['inc'], row['m'], got, want))
        ctx.evaluations += 1
    info['merge_rows_replayed'] = len(rows)
    # the real maps through the public generator
    real = {}
    for scale in (20, 25, 40, 100, 200, 500, 1000):
        g = XGrid.XGrid(scale)
        for units in (b'FEET', b'M   '):
            m = g._intStroke.get(units, {}).get(scale)
            if m:
                real[(units, scale)] = tuple(sorted(m))
    if real:
        rmenu = sorted(set(real.values()))
        Nr = 40
        rconsts = dict(Maps=_maps_tla(rmenu), Starts=raw('{-13, 0, 7, 995, 1000, 1003}'))
        ctx.tlc_check('MC_XGrid_real', 'XGrid', consts=rconsts, cfg_consts=dict(N=str(Nr)), defs='ASSUME AllRefine', coverage=False, timeout=900)
        ft2 = os.path.join(ctx.wdir('xgrid'), 'rows_real.json')
        ctx.tlc_check('MC_XGridTable_real', 'XGridTable', consts=rconsts, cfg_consts=dict(N=str(Nr)), env={'OUT_TABLE': ft2}, workers=1, coverage=False, timeout=900)
        table = {(tuple(r['m']), r['x'], r['inc']): r for r in json.load(open(ft2))}
        nreal = 0
        for (units, scale), m in sorted(real.items()):
            g = XGrid.XGrid(scale)
            strokes = g._intStroke[units][scale]
            for x in (-13, 0, 7, 995, 1000, 1003):
                for inc in (True, False):
                    row = table[(m, x, inc)]
                    span = row['ev'][-1]['x']
                    stop = span + (0.5 if inc else -0.5)          # the range ends just past the last tabulated line
                    try:
                        got = list(g.genXAxisRange(EngVal.EngVal(float(x), units), EngVal.EngVal(float(stop), units)))
                    except Exception as e:
                        mismatches.append('XGrid(%d).genXAxisRange(%r .. %r %s) raised %s: %s' % (scale, x, stop, units, type(e).__name__, e))
                        continue
                    nreal += 1
                    want = [((e['x'] - x) * (12.0 if units == b'FEET' else 1 / 0.0254) / scale, strokes[e['s']]) for e in row['ev']]
                    ok = len(got) == len(want) and all(abs(d.value - w) <= 1e-9 * max(1.0, abs(w)) and d.units == 'in' and s == ws
                                                       for (d, s), (w, ws) in zip(got, want))
                    if not ok:
                        mismatches.append('XGrid(%d).genXAxisRange(%r .. %r %s): %d lines %r..., the abstract grid has %d lines %r...' % (
                            scale, x, stop, units, len(got), [(round(d.value, 4), s.width) for d, s in got[:4]], len(want), [(round(w, 4), s.width) for w, s in want[:4]]))
        info['real_ranges_checked'] = nreal
        info['real_interval_maps'] = {'%s 1:%d' % (u.decode().strip(), s): list(m) for (u, s), m in sorted(real.items())}
    return info
