"""Record what the real log plotter does, from the harness process (no repository hook): wrapPos calls of the curve
transforms, every point handed to PlotRoll.polyLinePt, polyline flushes and the roll geometry."""
import contextlib


@contextlib.contextmanager
def record_plot():
    from TotalDepth.util.plot import Plot, PRESCfg
    ev = []
    orig = {}

    def patch(cls, name, fn):
        orig[(cls, name)] = getattr(cls, name)
        setattr(cls, name, fn)

    def mk_wrap(cls):
        o = cls.wrapPos

        def wrapPos(self, val):
            rec = dict(op='wrap', fn=id(self), kind=cls.__name__, lP=float(self._lP), rP=float(self._rP), lL=float(self._lL), rL=float(self._rL),
                       bu=[int(self._bu[0]), int(self._bu[1])], val=float(val))
            try:
                w, p = o(self, val)
            except PRESCfg.ExceptionLineTransBaseMath:
                rec['error'] = 'math'
                ev.append(rec)
                raise
            except Exception as e:
                rec['error'] = type(e).__name__
                ev.append(rec)
                raise
            rec['w'] = int(w)
            rec['pos'] = float(p)
            ev.append(rec)
            return w, p
        return wrapPos
    patch(PRESCfg.LineTransLin, 'wrapPos', mk_wrap(PRESCfg.LineTransLin))
    patch(PRESCfg.LineTransLog10, 'wrapPos', mk_wrap(PRESCfg.LineTransLog10))
    o_pt = Plot.PlotRoll.polyLinePt

    def polyLinePt(self, theX, theTracPos):
        pt = o_pt(self, theX, theTracPos)
        x = theX.value if hasattr(theX, 'value') else theX
        ev.append(dict(op='pt', x=float(x), pos=float(theTracPos), px=float(pt.x.value), py=float(pt.y.value),
                       geom=dict(left=float(self._rollMargin.left.value), right=float(self._rollMargin.right.value),
                                 width=float(self._rollWidth.value), xstart=float(self._xStart.value), xstop=float(self._xStop.value),
                                 units=self._rollWidth.units)))
        return pt
    patch(Plot.PlotRoll, 'polyLinePt', polyLinePt)
    o_fl = Plot.Plot._flushPolyLineBuffer

    def _flushPolyLineBuffer(self, theCurvPlotData, xS):
        n = len(theCurvPlotData.buffer)
        if n:
            ev.append(dict(op='flush', n=n, pts=[[float(p.x.value), float(p.y.value)] for p in theCurvPlotData.buffer]))
        return o_fl(self, theCurvPlotData, xS)
    patch(Plot.Plot, '_flushPolyLineBuffer', _flushPolyLineBuffer)
    o_so = Plot.Plot._plotSingleOutput

    def _plotSingleOutput(self, theFilmID, theOutpID, theFrameHolder, thePlRo, xS):
        ev.append(dict(op='output', outp=str(theOutpID), ncurves=len(self._presCfg.outpCurveIDs(theFilmID, theOutpID)), null=float(theFrameHolder.nullValue) if theFrameHolder.nullValue is not None else None))
        try:
            return o_so(self, theFilmID, theOutpID, theFrameHolder, thePlRo, xS)
        finally:
            ev.append(dict(op='output_end', outp=str(theOutpID)))
    patch(Plot.Plot, '_plotSingleOutput', _plotSingleOutput)
    try:
        yield ev
    finally:
        for (cls, name), fn in orig.items():
            setattr(cls, name, fn)
