"""Import TotalDepth from /repo/src with the three compiled extensions rebuilt from the current sources.

The .so files in /repo are git-ignored build products that nobody rebuilds when a .pyx/.cpp changes, so the
checks build their own copies (content-hash keyed cache, recreated on demand) and pre-load them into
sys.modules under the package names before anything from TotalDepth.LIS is imported.
"""
import glob
import hashlib
import importlib.util
import os
import shutil
import subprocess
import sys

REPO = os.environ.get('VERIF_REPO', '/repo')
SRC = os.path.join(REPO, 'src')
CORE = os.path.join(SRC, 'TotalDepth', 'LIS', 'core')
EXT_SOURCES = [
    'src/cython/cRepCode.pyx', 'src/cython/cFrameSet.pyx',
    'src/cp/cpLISRepCode.cpp', 'src/cp/cpLISRepCode.h', 'src/cpp/LISRepCode.cpp', 'src/cpp/LISRepCode.h',
]
CACHE_ROOT = os.environ.get('VERIF_EXT_CACHE', '/tmp/verif_ext_cache')

_BUILD = r'''
import sys, os
from setuptools import setup, Extension
from Cython.Build import cythonize
out = sys.argv[1]
os.chdir(out)
exts = cythonize([
    Extension("TotalDepth.LIS.core.cRepCode", ["s/src/cython/cRepCode.pyx"]),
    Extension("TotalDepth.LIS.core.cFrameSet", ["s/src/cython/cFrameSet.pyx"]),
], quiet=True, build_dir=out + '/cy', language_level=3) + [
    Extension("TotalDepth.LIS.core.cpRepCode",
        ["s/src/cp/cpLISRepCode.cpp", "s/src/cpp/LISRepCode.cpp"],
        extra_compile_args=["-Is/src/cp", "-Is/src/cpp", "-std=c++14"]),
]
setup(name='x', ext_modules=exts, script_args=['-q', 'build_ext', '--build-lib', out + '/lib', '--build-temp', out + '/tmp', '-j', '4'])
'''


def ext_hash():
    h = hashlib.sha1()
    h.update(sys.version.encode())
    for rel in EXT_SOURCES:
        with open(os.path.join(CORE, rel), 'rb') as f:
            h.update(rel.encode())
            h.update(f.read())
    return h.hexdigest()[:16]


def build_extensions(verbose=False):
    key = ext_hash()
    out = os.path.join(CACHE_ROOT, key)
    lib = os.path.join(out, 'lib', 'TotalDepth', 'LIS', 'core')
    if len(glob.glob(os.path.join(lib, '*.so'))) == 3:
        return lib
    tmp = out + '.tmp%d' % os.getpid()
    shutil.rmtree(tmp, ignore_errors=True)
    for rel in EXT_SOURCES:
        dst = os.path.join(tmp, 's', rel)
        os.makedirs(os.path.dirname(dst), exist_ok=True)
        shutil.copy(os.path.join(CORE, rel), dst)
    with open(os.path.join(tmp, 'bld.py'), 'w') as f:
        f.write(_BUILD)
    p = subprocess.run([sys.executable, os.path.join(tmp, 'bld.py'), tmp], stdout=subprocess.PIPE,
                       stderr=subprocess.STDOUT, text=True)
    tlib = os.path.join(tmp, 'lib', 'TotalDepth', 'LIS', 'core')
    if p.returncode != 0 or len(glob.glob(os.path.join(tlib, '*.so'))) != 3:
        shutil.rmtree(tmp, ignore_errors=True)
        raise RuntimeError('extension build failed:\n' + p.stdout[-3000:])
    for d in ('cy', 'tmp', 's'):
        shutil.rmtree(os.path.join(tmp, d), ignore_errors=True)
    try:
        os.rename(tmp, out)
    except OSError:
        shutil.rmtree(tmp, ignore_errors=True)   # another process won the race
    return lib


_done = False


def setup(extensions=True):
    """Make `import TotalDepth` resolve to /repo/src (current working tree), with fresh extensions."""
    global _done
    if _done:
        return
    sys.dont_write_bytecode = True
    os.environ['PYTHONDONTWRITEBYTECODE'] = '1'
    if SRC in sys.path:
        sys.path.remove(SRC)
    sys.path.insert(0, SRC)
    if extensions:
        lib = build_extensions()
        for so in glob.glob(os.path.join(lib, '*.so')):
            name = 'TotalDepth.LIS.core.' + os.path.basename(so).split('.')[0]
            spec = importlib.util.spec_from_file_location(name, so)
            mod = importlib.util.module_from_spec(spec)
            sys.modules[name] = mod
            spec.loader.exec_module(mod)
    import TotalDepth  # noqa
    assert os.path.realpath(TotalDepth.__file__).startswith(os.path.realpath(SRC)), TotalDepth.__file__
    _done = True
