"""DictTree.tla / DictTreeTable.tla bound to util/DictTree.py (growth beyond the listed properties; used from C18 because the
HTML index pages are laid out with DictTreeHtmlTable).

1. TLC: DictTree.tla - every history of add / remove over key paths; the observations refine the abstract dictionary; the four
   named deviations are refuted (counterexamples recorded).
2. spec -> code: every behaviour TLC enumerates is replayed on a real DictTree; value(k) for every path, keys(), values(),
   items(), len(), depth(), `in` and whether the last call raised must equal the design's after every call.
3. TLC: DictTreeTable.tla - for every tree in the bound the rowspan/colspan events tile the table exactly (whole tree, every
   branch, fresh and with reused spans).
4. spec -> code: DictTreeTableRows exports every tree with its events; the real DictTreeHtmlTable must emit exactly those
   events (whole tree; every branch before and after a whole-tree layout).
5. code -> spec: the event streams of the tables the real index writers lay out (recorded while C18's workloads run) are checked
   with the same layout algorithm (harness/dicttree.layout, the transcription of DictTreeTable!Layout).

Returns a dict for the evidence file and a list of mismatch descriptions (no verdict on a listed property is derived here).
"""
import json
import os

from .tlc import raw


def _tla_seq(keys):
    return raw('<<%s>>' % ', '.join('"%s"' % k for k in keys))


def observe(dt, paths, mode):
    def rec(v):
        if v is None:
            return None
        if mode == 'list':
            return list(v)
        if mode == 'set':
            return sorted(v)
        return v
    return dict(values={''.join(p): rec(dt.value(list(p))) for p in paths},
                keys=[''.join(k) for k in dt.keys()], vals=[rec(v) for v in dt.values()],
                items=[''.join(k) for k, _v in dt.items()], len=len(dt), depth=dt.depth(),
                contains=sorted(''.join(p) for p in paths if list(p) in dt))


def model_observe(st, paths, mode):
    nodes = {tuple(n) for n in st['nodes']}
    val = {tuple(k): v for k, v in st['val'].items()} if isinstance(st['val'], dict) else {tuple(k): v for k, v in st['val']}
    kids = {tuple(k): v for k, v in st['kids'].items()} if isinstance(st['kids'], dict) else {tuple(k): v for k, v in st['kids']}

    def rec(r):
        if not r['some']:
            return None
        if mode == 'list':
            return list(r['v'])
        if mode == 'set':
            return sorted(r['v'])
        return r['v']

    def dfs(n, with_self):
        out = []
        if with_self and val[n]['some']:
            out.append(n)
        for k in kids[n]:
            out += dfs(n + (k,), True)
        return out
    keys = dfs((), True)
    items = []
    for k in kids[()]:
        items += dfs((k,), True)
    return dict(values={''.join(p): (rec(val[p]) if p in nodes else None) for p in paths},
                keys=[''.join(k) for k in keys], vals=[rec(val[k]) for k in keys], items=[''.join(k) for k in items],
                len=len(keys), depth=max(len(n) for n in nodes),
                contains=sorted(''.join(p) for p in paths if p in nodes and val[p]['some']))


def layout(events, max_cols=64):
    """DictTreeTable!Layout: events = list of 'open' | 'close' | (branch, rs, cs).  Returns (ok, rows, occupied, cells)"""
    occ, cells, row, in_row = set(), [], 0, False
    for e in events:
        if e == 'open':
            if in_row:
                return False, row, occ, cells
            row, in_row = row + 1, True
        elif e == 'close':
            if not in_row:
                return False, row, occ, cells
            in_row = False
        else:
            branch, rs, cs = e
            if not in_row or rs < 1 or cs < 1:
                return False, row, occ, cells
            col = 1
            while (row, col) in occ:
                col += 1
            slots = {(r, c) for r in range(row, row + rs) for c in range(col, col + cs)}
            if slots & occ or col + cs - 1 > max_cols:
                return False, row, occ, cells
            occ |= slots
            cells.append(dict(row=row, col=col, rs=rs, cs=cs, branch=branch))
    return (not in_row), row, occ, cells


def tiles_exactly(events):
    """the abstract statement on a recorded event stream (tree unknown): a full rectangle, every cell in the column of its
    depth, leaves reach the right edge.  '' or the reason."""
    ok, rows, occ, cells = layout(events)
    if not ok:
        return 'row open/close discipline or overlapping cells'
    if not cells:
        return '' if rows == 0 else 'rows without cells'
    width = max(c['col'] + c['cs'] - 1 for c in cells)
    if occ != {(r, c) for r in range(1, rows + 1) for c in range(1, width + 1)}:
        return 'the cells do not tile the %d x %d rectangle' % (rows, width)
    for c in cells:
        if c['col'] != len(c['branch']):
            return 'cell %r starts in column %d' % (c['branch'], c['col'])
    return ''


def real_events(tree, gen):
    out = []
    for ev in gen:
        if tree.is_row_open(ev):
            out.append('open')
        elif tree.is_row_close(ev):
            out.append('close')
        else:
            out.append((tuple(ev.branch), ev.row_span, ev.col_span))
    return out


def model_events(evs):
    out = []
    for e in evs:
        if e['t'] in ('open', 'close'):
            out.append(e['t'])
        else:
            out.append((tuple(e['branch']), e['rs'], e['cs']))
    return out


def run(ctx, mismatches):
    from TotalDepth.util import DictTree as DT
    info = {}
    keys = ['a', 'b']
    # ---- 1/2: the dictionary ----
    nb = 0
    for mode, pymode in (('single', None), ('list', 'list'), ('set', 'set')):
        depth, maxops = (2, ctx.pick(2, 3)) if mode == 'single' else (1, ctx.pick(3, 4))
        consts = dict(KeySeq=_tla_seq(keys), Vals=raw('{1, 2}'), Mode=mode)
        cc = dict(MaxDepth=str(depth), MaxOps=str(maxops))
        r, states = ctx.tlc_dump('MC_DictTree_' + mode, 'DictTree', consts=consts, cfg_consts=cc,
                                 invariants=['TypeOK', 'ValueRefines', 'KeysRefine', 'LenIsKeys', 'DepthBound', 'RaiseImpliesAbsent'],
                                 need_actions=['Add', 'RemoveOp'], timeout=1500)
        devs = [('DepthIsLiveDepth', True), ('RemoveAbsentRaises', True), ('ItemsMatchKeys', True), ('EmptyIsAbsent', mode != 'single')]
        for inv, refuted in devs:
            rr = ctx.tlc_check('MC_DictTree_%s_%s' % (mode, inv), 'DictTree', consts=consts, cfg_consts=dict(cc, MaxOps='3'), invariants=[inv],
                               expect_ok=not refuted, timeout=900)
            if refuted:
                if rr.ok():
                    ctx.vacuity.append('DictTree (%s): %s was expected to be refuted' % (mode, inv))
                else:
                    last = rr.trace[-1][1] if rr.trace else {}
                    info.setdefault('deviations', {})['%s/%s' % (mode, inv)] = json.dumps(last.get('hist'), default=str)[:300]
        paths = [()] + [tuple(p) for n in range(1, depth + 1) for p in __import__('itertools').product(keys, repeat=n)]
        for st in states:
            hist = st['hist']
            if not hist:
                continue
            nb += 1
            dt = DT.DictTree(pymode)
            raised = False
            for h in hist:
                raised = False
                try:
                    if h['op'] == 'add':
                        dt.add(list(h['key']), h['v'])
                    else:
                        dt.remove(list(h['key']), h['v'] or None)
                except DT.ExceptionDictTree:
                    raised = True
                except Exception as e:
                    mismatches.append('DictTree(%s) history %s raised %s: %s' % (mode, json.dumps(hist), type(e).__name__, e))
                    break
            else:
                want = model_observe(st, paths, mode)
                want['raised'] = st['raised']
                try:
                    got = observe(dt, paths, mode)
                    got['raised'] = raised
                except Exception as e:
                    got = 'observing raised %s: %s' % (type(e).__name__, e)
                if got != want:
                    diff = [k for k in want if not isinstance(got, dict) or got.get(k) != want[k]]
                    mismatches.append('DictTree(%s) after %s: %s differ: code %s, design %s' % (
                        mode, json.dumps(hist), diff, json.dumps(got, default=str)[:300], json.dumps(want, default=str)[:300]))
            ctx.evaluations += 1
    info['behaviours_replayed'] = nb
    # ---- 3/4: the table ----
    tk = ['a', 'b'] if ctx.quick else ['a', 'b', 'c']
    td = 3 if ctx.quick else 2
    tconsts = dict(KeySeq=_tla_seq(tk))
    tcc = dict(MaxDepth=str(td))
    ctx.tlc_check('MC_DictTreeTable', 'DictTreeTable', consts=tconsts, cfg_consts=tcc, defs='ASSUME RootTiles /\\ BranchTiles /\\ StaleStillTiles',
                  coverage=False, timeout=1500)
    rr = ctx.tlc_check('MC_DictTreeTable_width', 'DictTreeTable', consts=tconsts, cfg_consts=tcc, defs='ASSUME WidthIsDepth', coverage=False,
                       timeout=1500, expect_ok=False)
    if rr.ok():
        ctx.vacuity.append('DictTreeTable: WidthIsDepth (reused spans) was expected to be refuted')
    ft = os.path.join(ctx.wdir('dicttree'), 'rows.json')
    ctx.tlc_check('MC_DictTreeTableRows', 'DictTreeTableRows', consts=tconsts, cfg_consts=tcc, env={'OUT_TABLE': ft}, workers=1, coverage=False,
                  timeout=1500)
    rows = json.load(open(ft))
    rng = ctx.subrng('dicttree')
    nt = 0
    for row in rows:
        nt += 1
        paths = [tuple(p) for p in row['tree']]
        leaves = [p for p in paths if not any(q[:len(p)] == p and len(q) > len(p) for q in paths)]
        order = list(leaves)
        rng.shuffle(order)

        def build():
            t = DT.DictTreeHtmlTable(None)
            for p in order:
                t.add(list(p), ''.join(p))
            return t
        try:
            t = build()
            got = real_events(t, t.gen_row_column_events())
            want = model_events(row['root'])
            if got != want:
                mismatches.append('DictTreeHtmlTable %s: events %s, design %s' % (sorted(paths), got, want))
            for br in row['branches']:
                b = list(br['b'])
                fresh = build()
                g1 = real_events(fresh, fresh.gen_row_column_events_from_branch(b))
                if g1 != model_events(br['fresh']):
                    mismatches.append('DictTreeHtmlTable %s from branch %s (fresh): events %s, design %s' % (sorted(paths), b, g1, model_events(br['fresh'])))
                g2 = real_events(t, t.gen_row_column_events_from_branch(b))           # after the whole-tree layout: spans reused
                if g2 != model_events(br['stale']):
                    mismatches.append('DictTreeHtmlTable %s from branch %s (after a whole-tree layout): events %s, design %s' % (
                        sorted(paths), b, g2, model_events(br['stale'])))
                for g in (g1, g2):
                    bad = tiles_exactly(g)
                    if bad:
                        mismatches.append('DictTreeHtmlTable %s from branch %s: %s' % (sorted(paths), b, bad))
        except Exception as e:
            mismatches.append('DictTreeHtmlTable %s raised %s: %s' % (sorted(paths), type(e).__name__, e))
        ctx.evaluations += 1
    info['trees_replayed'] = nt
    return info


class Recorder:
    """records the events of every table the library itself lays out (gen_row_column_events / ..._from_branch)"""

    def __init__(self):
        self.streams = []

    def __enter__(self):
        from TotalDepth.util import DictTree as DT
        self.DT = DT
        self.orig = (DT.DictTreeHtmlTable.gen_row_column_events, DT.DictTreeHtmlTable.gen_row_column_events_from_branch)
        rec = self

        def wrap(fn):
            def gen(self_, *a, **k):
                evs = []
                rec.streams.append(evs)
                for ev in fn(self_, *a, **k):
                    if self_.is_row_open(ev):
                        evs.append('open')
                    elif self_.is_row_close(ev):
                        evs.append('close')
                    else:
                        evs.append((tuple(ev.branch), ev.row_span, ev.col_span))
                    yield ev
            return gen
        DT.DictTreeHtmlTable.gen_row_column_events = wrap(self.orig[0])
        DT.DictTreeHtmlTable.gen_row_column_events_from_branch = wrap(self.orig[1])
        return self

    def __exit__(self, *a):
        self.DT.DictTreeHtmlTable.gen_row_column_events, self.DT.DictTreeHtmlTable.gen_row_column_events_from_branch = self.orig
        return False
